"""Edge-weighted tree model for C09 (plain python, no cogent3 imports).

A tree is a nested tuple ``(name, length, children)`` with ``children`` a tuple of
trees (empty for a tip).  ``length`` is the length of the edge *above* the node
(``None`` when absent, always ``None``/ignored for the root).

Everything the property talks about is computed here from first principles:

* tip list (left to right),
* tip-to-tip path sums, by walking the undirected edge graph from each tip
  (not the post-order accumulation cogent3 uses),
* unrooted topology = set of non-trivial bipartitions of the tip set,
* rooted topology = set of non-trivial clades,
* restriction of both to a subset of tips,
* Robinson-Foulds and matching distances by set algebra / brute force over all
  permutations,
* an own newick writer and an own newick reader (so that cogent3's writer is
  judged by a reader that is not cogent3's, and vice versa),
* enumeration of all unlabeled shapes and all labeled hierarchies on n tips.
"""

from __future__ import annotations

import itertools

# ----------------------------------------------------------------------------- basic access


def node(name, length=None, children=()):
    return (name, length, tuple(children))


def is_tip(t):
    return not t[2]


def tips(t):
    """tip names, left to right"""
    if not t[2]:
        return [t[0]]
    out = []
    for c in t[2]:
        out.extend(tips(c))
    return out


def nodes(t):
    """all nodes, preorder"""
    out = [t]
    for c in t[2]:
        out.extend(nodes(c))
    return out


def internal_names(t, include_root=True):
    return [n[0] for i, n in enumerate(nodes(t)) if n[2] and (include_root or i > 0)]


def n_root_children(t):
    return len(t[2])


def to_jsonable(t):
    return [t[0], t[1], [to_jsonable(c) for c in t[2]]]


def from_jsonable(j):
    return (j[0], j[1], tuple(from_jsonable(c) for c in j[2]))


# ----------------------------------------------------------------------------- path sums


def _edges(t):
    """undirected edge list over integer node ids (preorder numbering); returns (edges, tip ids->name)"""
    edges = []
    tipname = {}
    counter = itertools.count()

    def walk(n, parent_id):
        me = next(counter)
        if parent_id is not None:
            edges.append((parent_id, me, n[1]))
        if not n[2]:
            tipname[me] = n[0]
        for c in n[2]:
            walk(c, me)

    walk(t, None)
    return edges, tipname


def path_sums(t):
    """{(tip1, tip2): sum of edge lengths on the path} for all ordered pairs of distinct tips.

    A missing length (None) on the path makes the sum None.
    """
    edges, tipname = _edges(t)
    adj = {}
    for a, b, w in edges:
        adj.setdefault(a, []).append((b, w))
        adj.setdefault(b, []).append((a, w))
    out = {}
    for start, sname in tipname.items():
        stack = [(start, None, 0)]
        while stack:
            cur, prev, d = stack.pop()
            if cur != start and cur in tipname:
                out[(sname, tipname[cur])] = d
            for nxt, w in adj.get(cur, ()):
                if nxt != prev:
                    stack.append((nxt, cur, None if (d is None or w is None) else d + w))
    return out


def has_all_lengths(t):
    """every non-root node has a length"""
    return all(c[1] is not None for n in nodes(t) for c in n[2])


def restrict_sums(sums, keep):
    keep = set(keep)
    return {k: v for k, v in sums.items() if k[0] in keep and k[1] in keep}


# ----------------------------------------------------------------------------- topology


def clades(t):
    """list of frozenset(tip names) for every non-root node (tips included)"""
    out = []

    def walk(n, root):
        s = frozenset([n[0]]) if not n[2] else frozenset().union(*[walk(c, False) for c in n[2]])
        if not root:
            out.append(s)
        return s

    walk(t, True)
    return out


def clusters(t):
    """rooted topology: set of clades with >= 2 tips below non-root nodes"""
    return frozenset(c for c in clades(t) if len(c) > 1)


def splits(t):
    """unrooted topology: set of non-trivial bipartitions {A, B} (|A|,|B| >= 2) induced by the edges"""
    allt = frozenset(tips(t))
    out = set()
    for c in clades(t):
        other = allt - c
        if len(c) > 1 and len(other) > 1:
            out.add(frozenset([c, other]))
    return frozenset(out)


def restrict_splits(sp, keep):
    keep = frozenset(keep)
    out = set()
    for s in sp:
        a, b = tuple(s)
        a, b = a & keep, b & keep
        if len(a) > 1 and len(b) > 1:
            out.add(frozenset([a, b]))
    return frozenset(out)


def restrict_clusters(cl, keep):
    keep = frozenset(keep)
    out = set()
    for c in cl:
        c = c & keep
        if 1 < len(c) < len(keep):
            out.add(c)
    return frozenset(out)


def splits_jsonable(sp):
    return sorted(sorted(sorted(side) for side in s) for s in sp)


# ----------------------------------------------------------------------------- tree-to-tree distances


def rf(set1, set2):
    return len(set(set1) ^ set(set2))


def _min_matching(items1, items2, weight):
    """minimum-weight perfect matching by brute force over all permutations"""
    n = len(items1)
    assert n == len(items2)
    if n == 0:
        return 0
    w = [[weight(a, b) for b in items2] for a in items1]
    best = None
    for perm in itertools.permutations(range(n)):
        s = 0
        for i, j in enumerate(perm):
            s += w[i][j]
            if best is not None and s >= best:
                break
        else:
            best = s if best is None or s < best else best
    return best


def matching_cluster(t1, t2):
    """Bogdanowicz & Giaro: min-weight matching of the cluster sets, weight |A ^ B|, padding with empty sets"""
    c1, c2 = sorted(clusters(t1), key=sorted), sorted(clusters(t2), key=sorted)
    while len(c1) < len(c2):
        c1.append(frozenset())
    while len(c2) < len(c1):
        c2.append(frozenset())
    return _min_matching(c1, c2, lambda a, b: len(a ^ b))


def matching_split(t1, t2):
    """Lin, Rajan & Moret: min-weight matching of the split sets; weight of two bipartitions =
    min over the two ways of pairing their sides of the number of tips on the 'wrong' side.
    Returns None when the numbers of splits differ (cogent3 refuses that case)."""
    s1, s2 = sorted(splits(t1), key=splits_key), sorted(splits(t2), key=splits_key)
    if len(s1) != len(s2):
        return None

    def weight(x, y):
        a, _ = tuple(x)
        c, d = tuple(y)
        return min(len(a ^ c), len(a ^ d))

    return _min_matching(s1, s2, weight)


def splits_key(s):
    return sorted(sorted(side) for side in s)


# ----------------------------------------------------------------------------- newick writer / reader

_NEEDS_QUOTE = set("[]'\"(),:;_ \t\n")


def quote(name):
    """Newick label: quoted iff it contains a reserved character, blanks or '_' ('' doubles a quote)"""
    if name is None or name == "":
        return ""
    if any(ch in _NEEDS_QUOTE for ch in name):
        return "'" + name.replace("'", "''") + "'"
    return name


def fmt_len(x):
    return repr(float(x)) if x is not None else None


def newick(t, lengths=True, internal=True, root_name=False):
    def walk(n, root):
        s = ""
        if n[2]:
            s = "(" + ",".join(walk(c, False) for c in n[2]) + ")"
            if internal and (not root or root_name):
                s += quote(n[0])
        else:
            s = quote(n[0])
        if lengths and not root and n[1] is not None:
            s += ":" + fmt_len(n[1])
        return s

    return walk(t, True) + ";"


class NewickError(ValueError):
    pass


def read_newick(text, unmunge=False):
    """Small independent newick reader: quoted labels ('' inside), unquoted labels up to a
    reserved character (blanks stripped, '_' -> ' ' when unmunge), lengths, no comments."""
    pos = 0
    n = len(text)

    def skip():
        nonlocal pos
        while pos < n and text[pos] in " \t\n":
            pos += 1

    def label():
        nonlocal pos
        skip()
        if pos < n and text[pos] == "'":
            pos += 1
            out = []
            while True:
                if pos >= n:
                    raise NewickError("unterminated quote")
                if text[pos] == "'":
                    if pos + 1 < n and text[pos + 1] == "'":
                        out.append("'")
                        pos += 2
                        continue
                    pos += 1
                    break
                out.append(text[pos])
                pos += 1
            return "".join(out)
        start = pos
        while pos < n and text[pos] not in "(),:;[]":
            pos += 1
        s = text[start:pos].strip()
        if unmunge:
            s = s.replace("_", " ")
        return s or None

    def parse_node():
        nonlocal pos
        skip()
        children = []
        if pos < n and text[pos] == "(":
            pos += 1
            while True:
                children.append(parse_node())
                skip()
                if pos < n and text[pos] == ",":
                    pos += 1
                    continue
                if pos < n and text[pos] == ")":
                    pos += 1
                    break
                raise NewickError(f"expected , or ) at {pos}")
        name = label()
        skip()
        length = None
        if pos < n and text[pos] == ":":
            pos += 1
            start = pos
            while pos < n and text[pos] not in "(),:;[]":
                pos += 1
            length = float(text[start:pos])
        return (name, length, tuple(children))

    t = parse_node()
    skip()
    if pos < n and text[pos] == ";":
        pos += 1
    skip()
    if pos != n:
        raise NewickError(f"trailing text at {pos}")
    return t


# ----------------------------------------------------------------------------- enumeration of shapes


def _partitions_int(n, maxpart):
    """integer partitions of n into parts <= maxpart, as non-increasing tuples"""
    if n == 0:
        yield ()
        return
    for k in range(min(n, maxpart), 0, -1):
        for rest in _partitions_int(n - k, k):
            yield (k,) + rest


_shape_cache = {}


def shapes(n):
    """all unlabeled rooted tree shapes with n tips in which every internal node has >= 2 children.
    A shape is a nested tuple of tuples, () = tip.  Children in canonical (sorted) order."""
    if n in _shape_cache:
        return _shape_cache[n]
    if n == 1:
        out = [()]
    else:
        found = set()
        for part in _partitions_int(n, n - 1):
            if len(part) < 2:
                continue
            pools = [shapes(k) for k in part]
            for combo in itertools.product(*pools):
                found.add(tuple(sorted(combo, key=repr)))
        out = sorted(found, key=lambda s: (len(s), repr(s)))
    _shape_cache[n] = out
    return out


def n_tips_shape(s):
    return 1 if not s else sum(n_tips_shape(c) for c in s)


def set_partitions(items):
    """all partitions of the list into blocks (blocks and partition in canonical order)"""
    items = list(items)
    if not items:
        yield []
        return
    first, rest = items[0], items[1:]
    for p in set_partitions(rest):
        for i in range(len(p)):
            yield p[:i] + [[first] + p[i]] + p[i + 1 :]
        yield [[first]] + p


def hierarchies(labels):
    """all labeled rooted trees (every internal node >= 2 children) on the label list, as nested
    tuples of label strings / tuples"""
    labels = list(labels)
    if len(labels) == 1:
        return [labels[0]]
    out = []
    for p in set_partitions(labels):
        if len(p) < 2:
            continue
        pools = [hierarchies(block) for block in p]
        for combo in itertools.product(*pools):
            out.append(tuple(combo))
    return out


def hierarchy_to_tree(h, reverse=False):
    """labeled hierarchy -> model tree without lengths / internal names"""
    if isinstance(h, str):
        return (h, None, ())
    ch = [hierarchy_to_tree(c, reverse) for c in h]
    if reverse:
        ch = ch[::-1]
    return (None, None, tuple(ch))
