"""Reference model of the classic-score pair-HMM used by cogent3's pairwise aligners.

Plain python (numpy only for a 3x3 linear solve).  Nothing here imports cogent3.

States: "M" (a residue of each sequence), "X" (residue of sequence 1, gap in sequence 2),
"Y" (gap in sequence 1, residue of sequence 2).  A *path* is a string over {M, X, Y}; together
with a start cell it determines the two gapped rows.

Model (written down from the definition, not from the implementation's arrays):

* transition probabilities = row-normalised exp(-cost) with costs
      X -> X: e   X -> Y: inf   X -> M: 0
      Y -> X: inf Y -> Y: e     Y -> M: 0
      M -> X: d   M -> Y: d     M -> M: 0
* the first state is drawn from the stationary distribution of that chain,
* the END transition costs nothing,
* emissions are log-odds against the background: a gap state emits 0, a match state emits
  log( pi_b * P(a|b) / (pi_a * pi_b) ) = S[a, b] + log(alphabet size) for the uniform background
  and P = exp(S) (S symmetric).

score(path) = log pi[path[0]] + sum log T[path[k-1], path[k]] + sum emissions.
"""

from __future__ import annotations

import math

import numpy

STATES = "XYM"
NEG_INF = float("-inf")


def transition_model(d, e):
    """(log_pi, log_T) as dicts keyed by state letters"""
    inf = math.inf
    cost = {
        "X": {"X": e, "Y": inf, "M": 0.0},
        "Y": {"X": inf, "Y": e, "M": 0.0},
        "M": {"X": d, "Y": d, "M": 0.0},
    }
    T = {}
    for a in STATES:
        w = {b: math.exp(-cost[a][b]) for b in STATES}
        tot = sum(w.values())
        T[a] = {b: w[b] / tot for b in STATES}
    # stationary distribution in closed form (balance equations; X and Y are only entered from M):
    #   pi_X (1 - T_XX) = pi_M T_MX,   pi_Y (1 - T_YY) = pi_M T_MY,   pi_X + pi_Y + pi_M = 1
    rx = T["M"]["X"] / (1.0 - T["X"]["X"])
    ry = T["M"]["Y"] / (1.0 - T["Y"]["Y"])
    pm = 1.0 / (1.0 + rx + ry)
    pi = [pm * rx, pm * ry, pm]
    # cross-check with the linear system pi T = pi (absolute 1e-12)
    A = numpy.array([[T[a][b] for b in STATES] for a in STATES], float)
    assert float(abs(numpy.array(pi) @ A - numpy.array(pi)).max()) < 1e-12
    log_pi = {s: (math.log(p) if p > 0 else NEG_INF) for s, p in zip(STATES, pi)}
    log_T = {a: {b: (math.log(T[a][b]) if T[a][b] > 0 else NEG_INF) for b in STATES} for a in STATES}
    return log_pi, log_T


def transition_matrix_5x5(d, e):
    """the model as the (BEGIN, X, Y, M, END) probability matrix, for comparison with the
    matrix the implementation derives from ``classic_gap_scores``"""
    log_pi, log_T = transition_model(d, e)
    out = [[0.0] * 5 for _ in range(5)]
    for j, b in enumerate(STATES):
        out[0][j + 1] = math.exp(log_pi[b])
    for i, a in enumerate(STATES):
        for j, b in enumerate(STATES):
            out[i + 1][j + 1] = math.exp(log_T[a][b]) if log_T[a][b] > NEG_INF else 0.0
    for i in range(5):
        out[i][4] = 1.0
    return out


def dna_scores(match, transition, transversion, alphabet="ACGT"):
    """symmetric DNA substitution scores {(a, b): score}"""
    pur = set("AG")
    S = {}
    for a in alphabet:
        for b in alphabet:
            if a == b:
                S[a, b] = match
            elif (a in pur) == (b in pur):
                S[a, b] = transition
            else:
                S[a, b] = transversion
    return S


# ----------------------------------------------------------------------------- rows <-> paths
def path_of_rows(r1, r2, gap="-"):
    """state string of a two-row alignment; None if the rows are not a valid alignment
    (unequal length or a column of two gaps)"""
    if len(r1) != len(r2):
        return None
    out = []
    for a, b in zip(r1, r2):
        if a != gap and b != gap:
            out.append("M")
        elif a != gap:
            out.append("X")
        elif b != gap:
            out.append("Y")
        else:
            return None
    return "".join(out)


def rows_of_path(path, s1, s2, i=0, j=0, gap="-"):
    r1, r2 = [], []
    for st in path:
        if st == "M":
            r1.append(s1[i]); r2.append(s2[j]); i += 1; j += 1
        elif st == "X":
            r1.append(s1[i]); r2.append(gap); i += 1
        else:
            r1.append(gap); r2.append(s2[j]); j += 1
    return "".join(r1), "".join(r2)


def hmm_emittable(path):
    """no insertion adjacent to a deletion (the classic model has no X<->Y transition)"""
    return "XY" not in path and "YX" not in path


# ----------------------------------------------------------------------------- scoring
def score_path(path, s1, s2, S, d_e, i=0, j=0, nalpha=4, model=None):
    """log score of `path` placed at cell (i, j) of s1 x s2"""
    log_pi, log_T = model or transition_model(*d_e)
    if not path:
        return NEG_INF
    bonus = math.log(nalpha)
    total = log_pi[path[0]]
    prev = None
    for st in path:
        if prev is not None:
            total += log_T[prev][st]
        if st == "M":
            total += S[s1[i], s2[j]] + bonus
            i += 1; j += 1
        elif st == "X":
            i += 1
        else:
            j += 1
        prev = st
    return total


def all_paths(m, n):
    """every path from (0,0) to (m,n): every string over {M,X,Y} with #M+#X = m, #M+#Y = n"""
    if m == 0 and n == 0:
        yield ""
        return
    if m and n:
        for p in all_paths(m - 1, n - 1):
            yield p + "M"
    if m:
        for p in all_paths(m - 1, n):
            yield p + "X"
    if n:
        for p in all_paths(m, n - 1):
            yield p + "Y"


def brute_force_global(s1, s2, S, d_e, nalpha=4, model=None):
    """(best score, number of paths, number of paths within 1e-9 of the best) by explicit depth-first
    enumeration of every path, no dynamic programming (no merging of sub-paths)."""
    log_pi, log_T = model or transition_model(*d_e)
    bonus = math.log(nalpha)
    m, n = len(s1), len(s2)
    scores = []

    def walk(i, j, prev, acc):
        if i == m and j == n:
            scores.append(acc)
            return
        if i < m and j < n:
            t = log_pi["M"] if prev is None else log_T[prev]["M"]
            walk(i + 1, j + 1, "M", acc + t + S[s1[i], s2[j]] + bonus)
        if i < m:
            t = log_pi["X"] if prev is None else log_T[prev]["X"]
            if t > NEG_INF:
                walk(i + 1, j, "X", acc + t)
            else:
                _count_dead(m - i - 1, n - j, scores)
        if j < n:
            t = log_pi["Y"] if prev is None else log_T[prev]["Y"]
            if t > NEG_INF:
                walk(i, j + 1, "Y", acc + t)
            else:
                _count_dead(m - i, n - j - 1, scores)

    walk(0, 0, None, 0.0)
    best = max(scores)
    ties = sum(1 for s in scores if s >= best - 1e-9)
    return best, len(scores), ties


_DELANNOY = {}


def delannoy(m, n):
    if m == 0 or n == 0:
        return 1
    k = (m, n)
    if k not in _DELANNOY:
        _DELANNOY[k] = delannoy(m - 1, n) + delannoy(m, n - 1) + delannoy(m - 1, n - 1)
    return _DELANNOY[k]


def _count_dead(m, n, scores):
    """paths through a forbidden transition all score -inf: counted, not walked"""
    scores.extend([NEG_INF] * delannoy(m, n))


def brute_force_local(s1, s2, S, d_e, nalpha=4, model=None):
    """best score over every path that starts and ends with a match column, between every start cell
    and every end cell (a local alignment aligns at least one pair of residues and has no gap at its ends)"""
    log_pi, log_T = model or transition_model(*d_e)
    bonus = math.log(nalpha)
    m, n = len(s1), len(s2)
    best = [NEG_INF]
    count = [0]
    ties = [0]

    def seen(acc):
        count[0] += 1
        if acc > best[0] + 1e-9:
            best[0] = acc
            ties[0] = 1
        elif acc >= best[0] - 1e-9:
            ties[0] += 1

    def walk(i, j, prev, acc):
        # (i, j) = next unconsumed residues; every prefix that ends in a match is itself a local path
        if prev == "M":
            seen(acc)
        if i < m and j < n:
            t = log_pi["M"] if prev is None else log_T[prev]["M"]
            walk(i + 1, j + 1, "M", acc + t + S[s1[i], s2[j]] + bonus)
        if prev is None:
            return  # a local alignment starts (and ends) with a pair of aligned residues
        if i < m:
            t = log_T[prev]["X"]
            if t > NEG_INF:
                walk(i + 1, j, "X", acc + t)
        if j < n:
            t = log_T[prev]["Y"]
            if t > NEG_INF:
                walk(i, j + 1, "Y", acc + t)

    for i0 in range(m + 1):
        for j0 in range(n + 1):
            walk(i0, j0, None, 0.0)
    return best[0], count[0], ties[0]


def occurrences(sub, s):
    """start offsets at which `sub` occurs in `s` as a contiguous substring"""
    return [k for k in range(len(s) - len(sub) + 1) if s[k : k + len(sub)] == sub]


# ----------------------------------------------------------------------------- multiple alignments
def project(rows, a, b, gap="-"):
    """rows a and b of a multiple alignment with the columns where both are gaps removed"""
    ra, rb = rows[a], rows[b]
    keep = [k for k in range(min(len(ra), len(rb))) if ra[k] != gap or rb[k] != gap]
    return "".join(ra[k] for k in keep), "".join(rb[k] for k in keep)


def aligned_pairs(r1, r2, gap="-"):
    """set of (i, j): residue i of sequence 1 is in the same column as residue j of sequence 2 -
    the homology statement of a pairwise alignment (independent of the order of adjacent X / Y columns)"""
    i = j = 0
    out = set()
    for a, b in zip(r1, r2):
        if a != gap and b != gap:
            out.add((i, j))
        i += a != gap
        j += b != gap
    return out
