"""Reference model for phylogenetic likelihoods (shared by C02, C05, C11).

Everything here is written from the *published* definitions of the substitution
models and from the definition of the likelihood of a column on a tree; nothing is
read from a cogent3 likelihood function:

* state spaces: nucleotides in the order T,C,A,G; k-mers = products of that order;
  sense codons of the standard genetic code (own NCBI-format table, TCAG order);
  amino acids alphabetical (the 20 standard ones);
* rate matrices: r(i,j) = product of the parameters whose *predicate* (own python
  functions: transition, specific pair, directed pair, non-synonymous, CpG involving)
  holds for the single-position change i -> j, 0 if i and j differ at more than one
  position; combined with the motif probabilities in one of four published forms
  (stationary "tuple": r*pi_j; Muse-Gaut "monomer": r*pi_nucleotide; conditional
  nucleotide frequency: r*pi_j / sum of pi over words sharing the other positions;
  "general": r alone); diagonal = -row sum; calibrated so that -sum_i pi_i q_ii = 1;
* P(t) = scipy.linalg.expm(Q t);
* column likelihood = explicit sum over ALL assignments of states to the internal
  nodes (no pruning recursion), tips expanded to their compatible state sets;
* rate heterogeneity: discrete gamma (medians of equal-probability classes, rescaled
  to mean one) / explicit rate lists; L = sum_b w_b L_b.

Trees are plain nested python values:  tip = "name";  internal = (name, [child, ...]);
edge data live in a dict  edge name -> {"length": t, <param>: value ...}.
"""

from __future__ import annotations

import itertools
import math

import numpy

# ----------------------------------------------------------------------------- alphabets
NUC = "TCAG"
PURINES = frozenset("AG")
PYRIMIDINES = frozenset("CT")
AMINO = "ACDEFGHIKLMNPQRSTVWY"

# NCBI translation table 1, codons in TCAG x TCAG x TCAG order
STANDARD_AA = "FFLLSSSSYY**CC*WLLLLPPPPHHQQRRRRIIIMTTTTNNKKSSRRVVVVAAAADDEEGGGG"
ALL_CODONS = ["".join(c) for c in itertools.product(NUC, repeat=3)]
CODE = dict(zip(ALL_CODONS, STANDARD_AA))
SENSE = [c for c in ALL_CODONS if CODE[c] != "*"]

import contextlib


@contextlib.contextmanager
def genetic_code(aa_string):
    """temporarily make the oracle's codon predicates / state space those of another NCBI table (64 letters, TCAG order)"""
    global CODE, SENSE
    old = CODE, SENSE
    CODE = dict(zip(ALL_CODONS, aa_string))
    SENSE = [c for c in ALL_CODONS if CODE[c] != "*"]
    _RCACHE.clear()  # the oracle's own mask memo is keyed by state space and terms only
    try:
        yield
    finally:
        CODE, SENSE = old
        _RCACHE.clear()


IUPAC_DNA = {
    "A": "A", "C": "C", "G": "G", "T": "T",
    "R": "AG", "Y": "CT", "W": "AT", "S": "CG", "K": "GT", "M": "AC",
    "B": "CGT", "D": "AGT", "H": "ACT", "V": "ACG",
    "N": "ACGT", "-": "ACGT", "?": "ACGT",  # models without a gap state: gap / missing = any state
}
IUPAC_PROTEIN = {a: a for a in AMINO}
IUPAC_PROTEIN.update({"B": "DN", "Z": "EQ", "X": AMINO, "-": AMINO, "?": AMINO})


def words(k):
    return ["".join(w) for w in itertools.product(NUC, repeat=k)]


def states_of(kind):
    if kind == "nuc":
        return list(NUC)
    if kind == "dinuc":
        return words(2)
    if kind == "codon":
        return list(SENSE)
    if kind == "protein":
        return list(AMINO)
    raise ValueError(kind)


def compatible_states(kind, symbol):
    """the set of states a (possibly degenerate) alignment symbol stands for"""
    if kind == "protein":
        return set(IUPAC_PROTEIN[symbol])
    st = states_of(kind)
    sets = [IUPAC_DNA[c] for c in symbol]
    return {w for w in ("".join(p) for p in itertools.product(*sets)) if w in set(st)}


def indicator(kind, symbols):
    """(len(symbols), n_states) 0/1 matrix"""
    st = states_of(kind)
    out = numpy.zeros((len(symbols), len(st)))
    for r, s in enumerate(symbols):
        comp = compatible_states(kind, s)
        for j, x in enumerate(st):
            if x in comp:
                out[r, j] = 1.0
    return out


# ----------------------------------------------------------------------------- predicates
def is_transition(a, b):
    return a != b and ((a in PURINES) == (b in PURINES))


def single_change(x, y):
    """(position, from, to) if the words differ at exactly one position else None"""
    d = [i for i in range(len(x)) if x[i] != y[i]]
    if len(d) != 1:
        return None
    return d[0], x[d[0]], y[d[0]]


def involves_cpg(x, y, pos):
    """the change at `pos` creates or destroys a CpG within the word: the dinucleotide CG
    covers the changed position in x or in y"""
    for w in (x, y):
        for off in (pos - 1, pos):
            if 0 <= off and off + 2 <= len(w) and w[off : off + 2] == "CG":
                return True
    return False


def parse_term(name):
    """own reading of a parameter name as a predicate over (x, y, pos, a, b)"""
    if name == "kappa":
        return lambda x, y, p, a, b: is_transition(a, b)
    if name == "kappa_y":
        return lambda x, y, p, a, b: {a, b} == {"C", "T"}
    if name == "kappa_r":
        return lambda x, y, p, a, b: {a, b} == {"A", "G"}
    if name == "omega":
        return lambda x, y, p, a, b: CODE[x] != CODE[y]
    if name == "G":
        return lambda x, y, p, a, b: involves_cpg(x, y, p)
    if name == "G.K":
        return lambda x, y, p, a, b: involves_cpg(x, y, p) and is_transition(a, b)
    alts = []
    for part in name.strip("()").split("|"):
        part = part.strip()
        if len(part) == 3 and part[1] == ">":
            alts.append(("d", part[0], part[2]))
        elif len(part) == 3 and part[1] == "/":
            alts.append(("u", part[0], part[2]))
        else:
            raise ValueError(f"cannot read parameter name {name!r}")

    def pred(x, y, p, a, b):
        for k, f, t in alts:
            fs, ts = IUPAC_DNA[f], IUPAC_DNA[t]  # a letter may be an IUPAC class (R>Y ...)
            if (a in fs and b in ts) or (k == "u" and a in ts and b in fs):
                return True
        return False

    return pred


GTR_TERMS = ["A/C", "A/G", "A/T", "C/G", "C/T"]  # G/T is the reference
GN_TERMS = [f"{f}>{t}" for f, t in itertools.permutations("ACTG", 2) if (f, t) != ("T", "G")]
SSGN_TERMS = ["(A>G | T>C)", "(A>T | T>A)", "(C>G | G>C)", "(C>T | G>A)", "(G>T | C>A)"]  # A>C | T>G reference

# name -> (kind, parameter terms, motif-probability form, fixed-equal-pi?)
MODELS = {
    "JC69": ("nuc", [], "tuple", True),
    "F81": ("nuc", [], "tuple", False),
    "K80": ("nuc", ["kappa"], "tuple", True),
    "HKY85": ("nuc", ["kappa"], "tuple", False),
    "TN93": ("nuc", ["kappa_y", "kappa_r"], "tuple", False),
    "GTR": ("nuc", GTR_TERMS, "tuple", False),
    "GN": ("nuc", GN_TERMS, "general", False),
    "ssGN": ("nuc", SSGN_TERMS, "general", False),
    "GY94": ("codon", ["kappa", "omega"], "tuple", False),
    "Y98": ("codon", ["kappa", "omega"], "tuple", False),
    "MG94HKY": ("codon", ["kappa", "omega"], "monomer", False),
    "MG94GTR": ("codon", GTR_TERMS + ["omega"], "monomer", False),
    "CNFHKY": ("codon", ["kappa", "omega"], "conditional", False),
    "CNFGTR": ("codon", GTR_TERMS + ["omega"], "conditional", False),
    "H04G": ("codon", ["G", "kappa", "omega"], "tuple", False),
    "H04GK": ("codon", ["G.K", "kappa", "omega"], "tuple", False),
    "H04GGK": ("codon", ["G", "G.K", "kappa", "omega"], "tuple", False),
    "GNC": ("codon", GN_TERMS + ["omega"], "general", False),
    "DSO78": ("protein", [], "empirical", False),
    "JTT92": ("protein", [], "empirical", False),
    "AH96": ("protein", [], "empirical", False),
    "AH96_mtmammals": ("protein", [], "empirical", False),
    "WG01": ("protein", [], "empirical", False),
}
REVERSIBLE = {m for m, v in MODELS.items() if v[2] != "general"}
STATIONARY = set(REVERSIBLE)
NUC_MODELS = [m for m, v in MODELS.items() if v[0] == "nuc"]
CODON_MODELS = [m for m, v in MODELS.items() if v[0] == "codon"]
PROTEIN_MODELS = [m for m, v in MODELS.items() if v[0] == "protein"]


def empirical_tables(name):
    """published exchangeabilities / frequencies of an empirical protein model: the numeric
    tables shipped as public module constants (PAML .dat imports), indexed alphabetically"""
    from cogent3.evolve import models as m

    key = name
    S = numpy.array(getattr(m, f"{key}_matrix"), float)
    f = getattr(m, f"{key}_freqs")
    pi = numpy.array([f[a] for a in AMINO], float)
    return S, pi


_RCACHE = {}


def term_masks(kind, terms):
    """(instantaneous mask, [mask per term], changed-position table) for a state space"""
    key = (kind, tuple(terms))
    if key in _RCACHE:
        return _RCACHE[key]
    st = states_of(kind)
    n = len(st)
    inst = numpy.zeros((n, n))
    masks = [numpy.zeros((n, n)) for _ in terms]
    preds = [parse_term(t) for t in terms]
    change = {}
    for i, x in enumerate(st):
        for j, y in enumerate(st):
            ch = single_change(x, y)
            if ch is None:
                continue
            inst[i, j] = 1.0
            change[i, j] = ch
            for m, pr in zip(masks, preds):
                if pr(x, y, *ch):
                    m[i, j] = 1.0
    _RCACHE[key] = (inst, masks, change)
    return _RCACHE[key]


def posn_monomer_probs(kind, pi):
    """position-specific monomer probabilities: the marginal of the word probabilities at each position of the word"""
    st = states_of(kind)
    pi = numpy.asarray(pi, float)
    idx = {c: i for i, c in enumerate(NUC)}
    ps = numpy.zeros((len(st[0]), 4))
    for w, s in zip(pi / pi.sum(), st):
        for p, c in enumerate(s):
            ps[p, idx[c]] += w
    return ps / ps.sum(axis=1)[:, None]


def word_probs(kind, form, pi):
    """stationary / root distribution over the states given the model's motif probabilities"""
    pi = numpy.asarray(pi, float)
    if form == "monomers":
        ps = posn_monomer_probs(kind, pi)
        st = states_of(kind)
        idx = {c: i for i, c in enumerate(NUC)}
        w = numpy.array([math.prod(ps[p][idx[c]] for p, c in enumerate(s)) for s in st])
        return w / w.sum()
    if form != "monomer":
        return pi / pi.sum()
    st = states_of(kind)
    idx = {c: i for i, c in enumerate(NUC)}
    w = numpy.array([math.prod(pi[idx[c]] for c in s) for s in st])
    return w / w.sum()


def rate_matrix(kind, terms, form, pi, values, exch=None, calibrated=True):
    """Q from the published definition. `pi`: over states (tuple/conditional/general/empirical)
    or over nucleotides T,C,A,G (monomer). `values`: {term: value}."""
    st = states_of(kind)
    n = len(st)
    pi = numpy.asarray(pi, float)
    if form == "empirical":
        R = numpy.array(exch, float)
        inst = (R != 0) * 1.0
        change = None
    else:
        inst, masks, change = term_masks(kind, terms)
        R = inst.copy()
        for t, m in zip(terms, masks):
            R = R * numpy.where(m > 0, float(values[t]), 1.0)
    wp = word_probs(kind, form, pi)
    if form in ("tuple", "empirical"):
        Q = R * wp[None, :]
    elif form == "general":
        Q = R.copy()
    elif form == "monomer":
        idx = {c: i for i, c in enumerate(NUC)}
        W = numpy.zeros((n, n))
        for (i, j), (p, a, b) in change.items():
            W[i, j] = pi[idx[b]]
        Q = R * W
    elif form == "monomers":
        ps = posn_monomer_probs(kind, pi)
        idx = {c: i for i, c in enumerate(NUC)}
        W = numpy.zeros((n, n))
        for (i, j), (p, a, b) in change.items():
            W[i, j] = ps[p, idx[b]]
        Q = R * W
    elif form == "conditional":
        W = numpy.zeros((n, n))
        for (i, j), (p, a, b) in change.items():
            y = st[j]
            ctx = sum(wp[k] for k, z in enumerate(st) if z[:p] == y[:p] and z[p + 1 :] == y[p + 1 :])
            W[i, j] = wp[j] / ctx
        Q = R * W
    else:
        raise ValueError(form)
    Q = Q - numpy.diag(Q.sum(axis=1))
    if calibrated:
        Q = Q / -(wp * numpy.diag(Q)).sum()
    return Q, wp


def model_Q(name, pi, values, calibrated=True):
    kind, terms, form, _ = MODELS[name]
    exch = None
    if form == "empirical":
        exch, _ = empirical_tables(name)
    return rate_matrix(kind, terms, form, pi, values, exch=exch, calibrated=calibrated)


def expm(Qt):
    from scipy.linalg import expm as _expm

    return _expm(numpy.asarray(Qt, float))


# ----------------------------------------------------------------------------- rate classes
def gamma_rates(shape, weights):
    """discrete gamma with mean one: medians of the probability classes, rescaled so the
    weighted mean is exactly one"""
    from scipy.stats import gamma

    w = numpy.asarray(weights, float)
    w = w / w.sum()
    mid = numpy.cumsum(w) - w / 2
    med = gamma.ppf(mid, shape, scale=1.0 / shape)
    return med / (med * w).sum()


# ----------------------------------------------------------------------------- trees
def tree_nodes(tree, parent=None, out=None):
    """[(name, parent name or None, is_tip)] in pre-order"""
    out = [] if out is None else out
    if isinstance(tree, str):
        out.append((tree, parent, True))
    else:
        name, kids = tree
        out.append((name, parent, False))
        for k in kids:
            tree_nodes(k, name, out)
    return out


def tip_names(tree):
    return [n for n, _, t in tree_nodes(tree) if t]


def newick(tree, lengths=None, top=True):
    def ln(name):
        if lengths is None or name not in lengths or lengths[name] is None:
            return ""
        return ":" + repr(float(lengths[name]))

    if isinstance(tree, str):
        return tree + ln(tree)
    name, kids = tree
    s = "(" + ",".join(newick(k, lengths, False) for k in kids) + ")"
    if top:
        return s + ";"
    return s + name + ln(name)


def column_likelihoods(tree, root_probs, psubs, tip_profiles, block=32768):
    """Likelihood of every column by explicit summation over all assignments of states to
    the internal nodes.

    psubs: edge name -> (S,S) P matrix (row = parent state); tip_profiles: tip name -> either a
    (ncols,S) 0/1 compatibility matrix or a pair (U, idx): U = (nsymbols,S) compatibility matrix of
    the distinct symbols, idx = (ncols,) symbol index of every column. Returns (ncols,) array.
    Columns are processed in blocks to bound memory.
    """
    prof = {}
    for n, v in tip_profiles.items():
        if isinstance(v, tuple):
            prof[n] = (numpy.asarray(v[0], float), numpy.asarray(v[1]))
        else:
            v = numpy.asarray(v, float)
            prof[n] = (v, numpy.arange(v.shape[0]))
    ncols = len(next(iter(prof.values()))[1])
    out = numpy.empty(ncols)
    for lo in range(0, max(ncols, 1), block):
        sl = slice(lo, min(ncols, lo + block))
        out[sl] = _column_block(tree, root_probs, psubs, {n: (U, idx[sl]) for n, (U, idx) in prof.items()})
    return out


def _column_block(tree, root_probs, psubs, prof):
    nodes = tree_nodes(tree)
    internals = [n for n, _, t in nodes if not t]  # internals[0] is the root
    S = len(root_probs)
    root_probs = numpy.asarray(root_probs, float)
    ncols = len(next(iter(prof.values()))[1])
    # for a tip edge: M[parent state, column] = sum over compatible tip states of P[parent, s]
    tipM = {n: (psubs[n] @ prof[n][0].T)[:, prof[n][1]] for n, p, t in nodes if t}
    root_tips = [n for n, p, t in nodes if t and p == internals[0]]
    other_tips = [(n, internals.index(p)) for n, p, t in nodes if t and p != internals[0]]
    int_edges = [(internals.index(n), internals.index(p), psubs[n]) for n, p, t in nodes if not t and p is not None]
    root_block = numpy.ones((S, ncols))  # factor of the tips hanging off the root, per root state
    for n in root_tips:
        root_block = root_block * tipM[n]
    total = numpy.zeros(ncols)
    # explicit enumeration of the states of every non-root internal node; the sum over the root
    # state is the dot product in the last line (still the plain sum over all assignments)
    for rest in itertools.product(range(S), repeat=len(internals) - 1):
        assign = (None,) + rest
        w = root_probs.copy()  # indexed by root state
        for c, p, P in int_edges:
            w = w * (P[:, assign[c]] if p == 0 else P[assign[p], assign[c]])
        if not w.any():
            continue
        term = numpy.ones(ncols)
        for n, p in other_tips:
            term = term * tipM[n][assign[p]]
        total += (w @ root_block) * term
    return total


def binned_column_likelihoods(tree, root_probs, psubs_by_bin, bin_probs, tip_profiles):
    tot = 0.0
    for w, ps in zip(bin_probs, psubs_by_bin):
        tot = tot + w * column_likelihoods(tree, root_probs, ps, tip_profiles)
    return tot


# ----------------------------------------------------------------------------- shapes
def rooted_shapes(n):
    """all rooted tree shapes on n (unlabelled) leaves in which every internal node has >= 2
    children; leaves are then labelled a,b,c.. left to right. Returned as nested lists of ints
    (leaf = 1)."""

    def partitions(k, maxpart):
        if k == 0:
            yield []
            return
        for p in range(min(k, maxpart), 0, -1):
            for rest in partitions(k - p, p):
                yield [p] + rest

    def shapes(k):
        if k == 1:
            return ["L"]
        out = []
        for part in partitions(k, k - 1):
            if len(part) < 2:
                continue
            # multiset choice of sub-shapes per part size (sorted to avoid duplicates)
            groups = [list(g) for _, g in itertools.groupby(part)]
            choices = []
            for g in groups:
                sub = shapes(g[0])
                choices.append(list(itertools.combinations_with_replacement(range(len(sub)), len(g))))
            for pick in itertools.product(*choices):
                kids = []
                for g, idxs in zip(groups, pick):
                    sub = shapes(g[0])
                    kids.extend(sub[i] for i in idxs)
                out.append(kids)
        return out

    return shapes(n)


def label_shape(shape, tips="abcdefgh"):
    """nested-list shape -> tree value with tips named in order and internal nodes n1, n2.."""
    counter = {"tip": 0, "int": 0}

    def rec(s, top):
        if s == "L":
            name = tips[counter["tip"]]
            counter["tip"] += 1
            return name
        if top:
            name = "root"
        else:
            counter["int"] += 1
            name = f"n{counter['int']}"
        return (name, [rec(k, False) for k in s])

    return rec(shape, True)


def shape_text(tree):
    if isinstance(tree, str):
        return tree
    return "(" + ",".join(shape_text(k) for k in tree[1]) + ")"


def edges_of(tree):
    return [n for n, p, _ in tree_nodes(tree) if p is not None]
