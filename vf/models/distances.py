"""Reference models for C15: closed-form pairwise distances and tree metrics.

Everything here is plain python (fractions / math / itertools); nothing is imported
from cogent3.  The closed forms are written from the papers:

* p-distance / Hamming: number (proportion) of differing comparable columns;
* JC69: Jukes & Cantor 1969, d = -3/4 ln(1 - 4p/3);
* TN93: Tamura & Nei 1993 eq. (7) with purine (A,G) and pyrimidine (C,T/U) classes and
  base frequencies estimated as the average of the two sequences;
* paralinear: Lake 1994, d = -1/r ln( det J / sqrt(prod fx * prod fy) );
* LogDet: Lockhart et al. 1994 under equal frequencies, d = -ln(det J)/r - ln r, and the
  Tamura & Kumar 2002 variant d = -b ln( det J / sqrt(prod fx prod fy) ) with
  b = (1 - sum_i ((fx_i+fy_i)/2)^2) / (r-1).

Count-derived quantities are exact rationals; determinants are exact (fraction Gaussian
elimination), so "formula undefined" (0 denominators, log of a non-positive number) is decided
exactly and never by a rounding accident.

Convention taken from cogent3's documentation of paralinear/LogDet (code comment and its
own test ``test_logdet_missing_states``): a state that is never observed unchanged (zero diagonal
count) gets a pseudo count of 0.5 on the diagonal before the matrix is normalised.
"""

from __future__ import annotations

import functools
import itertools
import math
from fractions import Fraction

NUC = "ACGT"
UNDEF = "undefined"


# ----------------------------------------------------------------------------- enumeration of inputs
def count_matrices(total, cells=16):
    """every tuple of `cells` non-negative integers summing to `total` (stars and bars)"""
    if cells == 1:
        yield (total,)
        return
    for first in range(total, -1, -1):
        for rest in count_matrices(total - first, cells - 1):
            yield (first,) + rest


def n_count_matrices(total, cells=16):
    return math.comb(total + cells - 1, cells - 1)


def matrix_columns(flat, letters=NUC):
    """canonical column list [(x, y), ...] realising a flat row-major count matrix"""
    r = len(letters)
    cols = []
    for k, c in enumerate(flat):
        i, j = divmod(k, r)
        cols.extend([(letters[i], letters[j])] * c)
    return cols


def columns_to_seqs(cols):
    return "".join(c[0] for c in cols), "".join(c[1] for c in cols)


def columns_to_matrix(cols, letters=NUC):
    """count matrix (flat, row-major) of the columns in which both characters are canonical"""
    r = len(letters)
    idx = {c: i for i, c in enumerate(letters)}
    flat = [0] * (r * r)
    for x, y in cols:
        if x in idx and y in idx:
            flat[idx[x] * r + idx[y]] += 1
    return tuple(flat)


# ----------------------------------------------------------------------------- exact linear algebra
def det_exact(rows):
    """determinant of a square matrix of Fractions by fraction Gaussian elimination"""
    a = [list(r) for r in rows]
    n = len(a)
    det = Fraction(1)
    for c in range(n):
        piv = next((r for r in range(c, n) if a[r][c] != 0), None)
        if piv is None:
            return Fraction(0)
        if piv != c:
            a[c], a[piv] = a[piv], a[c]
            det = -det
        det *= a[c][c]
        for r in range(c + 1, n):
            if a[r][c] != 0:
                f = a[r][c] / a[c][c]
                for k in range(c, n):
                    a[r][k] -= f * a[c][k]
    return det


def _log(fr):
    """natural log of a positive Fraction (numerator / denominator may exceed float range)"""
    return math.log(fr.numerator) - math.log(fr.denominator)


# ----------------------------------------------------------------------------- closed forms
def _square(flat):
    r = math.isqrt(len(flat))
    return [[Fraction(flat[i * r + j]) for j in range(r)] for i in range(r)], r


def hamming(flat):
    m, r = _square(flat)
    n = sum(flat)
    if n == 0:
        return UNDEF
    return float(n - sum(m[i][i] for i in range(r)))


def pdist(flat):
    m, r = _square(flat)
    n = sum(flat)
    if n == 0:
        return UNDEF
    return float(Fraction(n - sum(m[i][i] for i in range(r)), n))


def jc69(flat):
    m, r = _square(flat)
    n = sum(flat)
    if n == 0:
        return UNDEF
    p = Fraction(n - sum(m[i][i] for i in range(r)), n)
    arg = 1 - Fraction(4, 3) * p
    if arg <= 0:
        return UNDEF
    return -0.75 * _log(arg)


def tn93(flat, letters=NUC, limit=False):
    """Tamura & Nei 1993; letters gives the order of the matrix axes (T may be U).

    As printed the formula divides by gA*gG, gC*gT, gR and gY, so it is undefined when a base is
    absent from both sequences.  With limit=True a term whose coefficient vanishes (and whose
    numerator is then necessarily 0) is given its limit 0 instead.
    """
    m, r = _square(flat)
    n = sum(flat)
    if n == 0:
        return UNDEF
    ix = {c: i for i, c in enumerate(letters.replace("U", "T"))}
    A, G, C, T = ix["A"], ix["G"], ix["C"], ix["T"]
    g = [Fraction(sum(m[i]) + sum(m[k][i] for k in range(r)), 2 * n) for i in range(r)]
    gA, gG, gC, gT = g[A], g[G], g[C], g[T]
    gR, gY = gA + gG, gC + gT
    P1 = (m[A][G] + m[G][A]) / n  # purine transitions
    P2 = (m[C][T] + m[T][C]) / n  # pyrimidine transitions
    Q = sum(m[i][j] for i in (A, G) for j in (C, T)) + sum(m[i][j] for i in (C, T) for j in (A, G))
    Q = Q / n  # transversions
    degenerate = gA * gG == 0 or gC * gT == 0  # also covers gR == 0 / gY == 0
    if degenerate and not limit:
        return UNDEF
    total = 0.0
    if gA * gG != 0:
        a1 = 1 - gR / (2 * gA * gG) * P1 - Q / (2 * gR)
        if a1 <= 0:
            return UNDEF
        total -= float(2 * gA * gG / gR) * _log(a1)
    if gC * gT != 0:
        a2 = 1 - gY / (2 * gT * gC) * P2 - Q / (2 * gY)
        if a2 <= 0:
            return UNDEF
        total -= float(2 * gT * gC / gY) * _log(a2)
    if gR != 0 and gY != 0:
        a3 = 1 - Q / (2 * gR * gY)
        if a3 <= 0:
            return UNDEF
        k3 = 2 * (gR * gY - gA * gG * gY / gR - gT * gC * gR / gY)
        total -= float(k3) * _log(a3)
    return total


@functools.lru_cache(maxsize=8)
def _joint_det(flat):
    J, fx, fy, r = _joint(flat)
    return det_exact(J), fx, fy, r


def _joint(flat):
    """joint frequency matrix with the documented 0.5 pseudo count on zero diagonal cells"""
    m, r = _square(flat)
    for i in range(r):
        if m[i][i] == 0:
            m[i][i] = Fraction(1, 2)
    tot = sum(sum(row) for row in m)
    J = [[x / tot for x in row] for row in m]
    fx = [sum(J[i]) for i in range(r)]
    fy = [sum(J[i][j] for i in range(r)) for j in range(r)]
    return J, fx, fy, r


def _prod(xs):
    out = Fraction(1)
    for x in xs:
        out *= x
    return out


def paralinear(flat):
    if sum(flat) == 0:
        return UNDEF
    d, fx, fy, r = _joint_det(tuple(flat))
    if d <= 0:
        return UNDEF
    return -(_log(d) - 0.5 * _log(_prod(fx) * _prod(fy))) / r


def logdet_classic(flat):
    if sum(flat) == 0:
        return UNDEF
    d, fx, fy, r = _joint_det(tuple(flat))
    if d <= 0:
        return UNDEF
    return -_log(d) / r - math.log(r)


def logdet_tk(flat):
    if sum(flat) == 0:
        return UNDEF
    d, fx, fy, r = _joint_det(tuple(flat))
    if d <= 0:
        return UNDEF
    b = (1 - sum(((x + y) / 2) ** 2 for x, y in zip(fx, fy))) / (r - 1)
    return -float(b) * (_log(d) - 0.5 * _log(_prod(fx) * _prod(fy)))


def is_identical(flat):
    r = math.isqrt(len(flat))
    return all(c == 0 for k, c in enumerate(flat) if k // r != k % r)


# ----------------------------------------------------------------------------- trees
def set_partitions(items, min_blocks=1):
    """every partition of the list `items` into blocks (lists), blocks ordered by first element"""
    items = list(items)
    if not items:
        if min_blocks <= 0:
            yield []
        return

    def rec(i, blocks):
        if i == len(items):
            if len(blocks) >= min_blocks:
                yield [list(b) for b in blocks]
            return
        for b in blocks:
            b.append(items[i])
            yield from rec(i + 1, blocks)
            b.pop()
        blocks.append([items[i]])
        yield from rec(i + 1, blocks)
        blocks.pop()

    yield from rec(0, [])


def rooted_trees(leaves):
    """every rooted tree on the labelled leaf set in which each internal node has >= 2 children.

    A leaf is an int, an internal node a tuple of children (children ordered by smallest leaf).
    Counts 1, 1, 4, 26, 236, 2752 for 1..6 leaves.
    """
    leaves = list(leaves)
    if len(leaves) == 1:
        yield leaves[0]
        return
    for part in set_partitions(leaves, min_blocks=2):
        for kids in itertools.product(*[list(rooted_trees(b)) for b in part]):
            yield tuple(kids)


def leaves_of(t):
    if isinstance(t, int):
        return [t]
    out = []
    for c in t:
        out.extend(leaves_of(c))
    return out


def edges_below(t):
    """[frozenset(leaves below)] for every non-root node of rooted tree t, pre-order"""
    out = []

    def rec(node):
        for c in node:
            out.append(frozenset(leaves_of(c)))
            if not isinstance(c, int):
                rec(c)

    if not isinstance(t, int):
        rec(t)
    return out


def unrooted_edge_sets(t):
    """edges (as the leaf set on the side away from leaf 0) of the unrooted tree made by hanging
    rooted tree t (on leaves 1..n-1) from leaf 0: the pendant edge of leaf 0 comes first"""
    everything = frozenset(leaves_of(t))
    return [everything] + edges_below(t)


def metric_from_edges(edge_sets, lengths, leaves):
    """tip-to-tip path sums: an edge separates i and j iff exactly one of them is in its set"""
    d = {}
    for i in leaves:
        for j in leaves:
            if i < j:
                s = 0
                for e, l in zip(edge_sets, lengths):
                    if (i in e) != (j in e):
                        s += l
                d[(i, j)] = d[(j, i)] = s
    return d


def norm_split(side, all_leaves, anchor):
    side = frozenset(side)
    if anchor in side:
        side = frozenset(all_leaves) - side
    return side


def nontrivial_splits(edge_sets, lengths, all_leaves, anchor):
    """set of splits (side without the anchor) carried by edges of positive length, trivial ones dropped"""
    n = len(all_leaves)
    out = set()
    for e, l in zip(edge_sets, lengths):
        s = norm_split(e, all_leaves, anchor)
        if l > 0 and 1 < len(s) < n - 1:
            out.add(s)
    return out


def dendrograms(leaves, max_height):
    """every rooted labelled tree on `leaves` with integer node heights: leaves at 0, internal nodes at
    1..max_height, strictly increasing towards the root.  Yields (tree, heights) where heights is a
    nested structure parallel to tree: internal node -> (h, (child heights...)), leaf -> 0."""
    leaves = list(leaves)

    def rec(block, hmax):
        if len(block) == 1:
            yield block[0], 0
            return
        for h in range(1, hmax + 1):
            for part in set_partitions(block, min_blocks=2):
                subs = [list(rec(b, h - 1)) for b in part]
                if any(not s for s in subs):
                    continue
                for combo in itertools.product(*subs):
                    yield tuple(c[0] for c in combo), (h, tuple(c[1] for c in combo))

    yield from rec(leaves, max_height)


def dendrogram_metric(tree, heights):
    """{(i,j): 2*height(lca)}, {clade: height} for a dendrogram"""
    d, clades = {}, {}

    def rec(t, h):
        if isinstance(t, int):
            return [t]
        hh, kids_h = h
        groups = [rec(c, ch) for c, ch in zip(t, kids_h)]
        for a, b in itertools.combinations(range(len(groups)), 2):
            for i in groups[a]:
                for j in groups[b]:
                    d[(i, j)] = d[(j, i)] = 2 * hh
        allv = [x for g in groups for x in g]
        clades[frozenset(allv)] = hh
        return allv

    rec(tree, heights)
    return d, clades


# ----------------------------------------------------------------------------- allowed outcomes per estimator
PROTEIN = "ACDEFGHIKLMNPQRSTUVWY"  # the 21 canonical states of cogent3's protein moltype

ESTIMATORS = ("hamming", "pdist", "jc69", "tn93", "paralinear", "logdet", "logdet_classic")
NUCLEIC_ONLY = ("jc69", "tn93")


def allowed(flat, letters=NUC, estimators=ESTIMATORS):
    """{estimator: [allowed outcomes]} for a flat count matrix whose axes are ordered as `letters`.

    An outcome is a float or UNDEF.  More than one outcome is allowed only where the statement
    leaves a choice:
      * a pair without any observed difference (and >= 1 comparable column): 0 is always allowed
        (zero diagonal / identity of a distance) next to the formula's own value;
      * TN93 with a base absent from both sequences: undefined as printed, or the limit value.
    """
    n = sum(flat)
    ident = n > 0 and is_identical(flat)
    out = {}
    shared = None
    for e in estimators:
        if e == "hamming":
            v = [hamming(flat)]
        elif e == "pdist":
            v = [pdist(flat)]
        elif e == "jc69":
            v = [jc69(flat)]
        elif e == "tn93":
            v = [tn93(flat, letters)]
            lim = tn93(flat, letters, limit=True)
            if lim not in v:
                v.append(lim)
        else:
            if shared is None:
                shared = (paralinear(flat), logdet_tk(flat), logdet_classic(flat))
            v = [shared[("paralinear", "logdet", "logdet_classic").index(e)]]
        if ident and 0.0 not in v:
            v.append(0.0)
        out[e] = v
    return out


def agrees(got, allowed_values, rel=1e-9, abs_=1e-12):
    """got: float (finite) or UNDEF"""
    for w in allowed_values:
        if w == UNDEF or got == UNDEF:
            if w == got:
                return True
        elif abs(got - w) <= max(abs_, rel * abs(w)):
            return True
    return False


def why_undefined(est, flat, letters=NUC):
    """structural reason for which the closed form of `est` is undefined on this count matrix"""
    n = sum(flat)
    if n == 0:
        return "no comparable column"
    m, r = _square(flat)
    if est == "jc69":
        return "p >= 3/4"
    if est == "tn93":
        ix = {c: i for i, c in enumerate(letters.replace("U", "T"))}
        A, G, C, T = ix["A"], ix["G"], ix["C"], ix["T"]
        g = [Fraction(sum(m[i]) + sum(m[k][i] for k in range(r)), 2 * n) for i in range(r)]
        if g[A] * g[G] == 0 or g[C] * g[T] == 0:
            return "a base is absent from both sequences"
        gR, gY = g[A] + g[G], g[C] + g[T]
        P1 = (m[A][G] + m[G][A]) / n
        P2 = (m[C][T] + m[T][C]) / n
        Q = (sum(m[i][j] for i in (A, G) for j in (C, T)) + sum(m[i][j] for i in (C, T) for j in (A, G))) / n
        args = [1 - gR / (2 * g[A] * g[G]) * P1 - Q / (2 * gR), 1 - gY / (2 * g[T] * g[C]) * P2 - Q / (2 * gY),
                1 - Q / (2 * gR * gY)]
        return "a log argument is exactly 0" if min(args) == 0 else "a log argument is negative"
    if est in ("paralinear", "logdet", "logdet_classic"):
        d = _joint_det(tuple(flat))[0]
        return "joint matrix exactly singular" if d == 0 else "determinant negative"
    return "undefined"
