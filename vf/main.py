"""./check <property-id> [--tier quick|thorough] [--replay PATH] [--jobs N] [--only TEXT]"""

import argparse
import os
import pkgutil
import sys


def driver_modules():
    import vf.props as props

    out = {}
    for m in pkgutil.iter_modules(props.__path__):
        if m.name[0] == "c" and m.name[1:3].isdigit():
            out["C" + m.name[1:3]] = f"vf.props.{m.name}"
    return out


def main(argv=None):
    ap = argparse.ArgumentParser(prog="check")
    ap.add_argument("pid")
    ap.add_argument("--tier", default=os.environ.get("VERIF_TIER") or "quick", choices=["quick", "thorough"])
    ap.add_argument("--replay")
    ap.add_argument("--jobs", type=int)
    ap.add_argument("--only", help="restrict to shards whose description contains TEXT (debugging)")
    a = ap.parse_args(argv)
    try:
        seed = int(os.environ.get("VERIF_SEED", "0") or 0)
    except ValueError:
        seed = 0
    mods = driver_modules()
    if a.pid not in mods:
        print(f"no driver for {a.pid}; have {sorted(mods)}", file=sys.stderr)
        return 2
    from vf.kernel import runner

    return runner.run(mods[a.pid], a.tier, seed, jobs=a.jobs, replay_path=a.replay, only=a.only)


if __name__ == "__main__":
    sys.exit(main())
