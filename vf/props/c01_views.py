"""C01 - sequence views obey the slice / reverse-complement algebra.

K1: breadth-first explicit-state search over histories of
    s[a:b:c] | s[i] | rc() | to_rna() | to_dna() | copy(sliced=T/F) | complement()
starting from witness parents whose symbols *and their complements* are pairwise distinct, for the
old- and new-style sequence classes and the new-style collection member view, with and without an
annotation offset. Reference model = python list slicing of the parent's index list + a reversal bit
+ a T/U flag.  Every transition's result is compared with the model (string, length, iteration,
parent coordinates); every new canonical state is additionally compared, method by method, with a
fresh sequence built from its string (differential oracle).
"""

from __future__ import annotations

import itertools

PID = "C01"
LEVEL = "model_checking"
TECHNIQUE = "explicit-state BFS over slice/rc/convert histories of the real sequence classes against a python-list index model"
RULE = (
    "states = canonical (implementation, class, view record, model value); transitions = every slice (a,b,c) with "
    "a,b in [-L-2,L+2] or None and c in the step set, every int index in [-L-1,L], rc, to_rna/to_dna, copy(sliced), "
    "complement, applied to every state up to the depth bound; each executed on the real object and on the model"
)
ASSUMPTIONS = [
    "python list slicing is the reference semantics for index selection",
    "witness parents (symbols and their complements pairwise distinct) make every index/order/complement error visible in the string",
    "an operation that returns a fresh, re-based sequence (to_rna/to_dna/complement) may report coordinates relative to the new sequence; either reading is accepted",
    "parent coordinates are judged by re-reading parent[start-offset:stop-offset] (reverse-complemented for strand -1) with the view's stride; empty views are exempt",
    "methods taking free-form arguments are called with one or two fixed arguments",
]

DNA_COMP = dict(zip("ACGTRYMKBVDHWSN-?", "TGCAYRKMVBHDWSN-?"))
RNA_COMP = dict(zip("ACGURYMKBVDHWSN-?", "UGCAYRKMVBHDWSN-?"))


def bounds(tier):
    return {
        "quick": {"max_parent_len": 4, "steps": [1, 2, 3, -1, -2, -3], "depth": 2, "offsets": [0, 3], "content_parent": "A-NGT", "content_depth": 2},
        "thorough": {"max_parent_len": 5, "steps": [1, 2, 3, -1, -2, -3], "depth": 3, "offsets": [0, 3], "content_parent": "AC-NGT?A", "content_depth": 2},
    }[tier]


WITNESS = {
    "dna": ["ACRMBD", "TGYKVH"],
    "rna": ["ACRMBD", "UGYKVH"],
    "protein": ["ACDEFGHIKL"],
}
IMPLS = ["old", "new", "newcoll"]


# ----------------------------------------------------------------------------- model
class M:
    """model value: which parent indices are displayed, in which orientation"""

    __slots__ = ("parent", "pmol", "off", "name", "idx", "rev", "stride", "mol", "seqid_free")

    def __init__(self, parent, pmol, off, name, idx, rev=False, stride=1, mol=None, seqid_free=False):
        self.parent, self.pmol, self.off, self.name = parent, pmol, off, name
        self.idx, self.rev, self.stride = tuple(idx), rev, stride
        self.mol = mol or pmol
        self.seqid_free = seqid_free  # after re-basing the seqid may be the name or None

    def clone(self, **kw):
        d = {k: getattr(self, k) for k in self.__slots__}
        d.update(kw)
        return M(**d)

    @property
    def nucleic(self):
        return self.pmol in ("dna", "rna")

    def symbol(self, i):
        c = self.parent[i]
        if self.nucleic:
            if self.pmol != self.mol:
                c = {"T": "U", "U": "T"}.get(c, c)
            if self.rev:
                c = (DNA_COMP if self.mol == "dna" else RNA_COMP)[c]
        return c

    def string(self):
        return "".join(self.symbol(i) for i in self.idx)

    def key(self):
        return (self.parent, self.pmol, self.off, self.idx, self.rev, self.stride, self.mol, self.seqid_free)

    def flags(self):
        f = []
        if self.rev:
            f.append("reversed")
        if self.stride > 1:
            f.append("strided")
        if self.off:
            f.append("offset")
        return ",".join(f) or "plain forward"


def model_apply(m: M, op):
    """returns new model or the exception type python raises"""
    kind = op[0]
    if kind == "slice":
        _, a, b, c = op
        idx = m.idx[a:b:c]
        cc = 1 if c is None else c
        if not idx:
            return m.clone(idx=(), rev=m.rev ^ (cc < 0), stride=1)
        return m.clone(idx=idx, rev=m.rev ^ (cc < 0), stride=m.stride * abs(cc))
    if kind == "int":
        try:
            i = m.idx[op[1]]
        except IndexError:
            return IndexError
        return m.clone(idx=(i,), stride=1)
    if kind == "rc":
        return m.clone(idx=m.idx[::-1], rev=not m.rev)
    if kind in ("to_rna", "to_dna"):
        return m.clone(mol=kind[3:])
    if kind == "copy":
        return m
    if kind == "complement":
        # complement without reversal: only expressible by re-basing
        s = "".join((DNA_COMP if m.mol == "dna" else RNA_COMP)[c] for c in m.string())
        return M(s, m.mol, 0, m.name, range(len(s)), seqid_free=True)
    raise ValueError(op)


def rebased(m: M, start):
    s = m.string()
    return M(s, m.mol, start, m.name, range(len(s)), seqid_free=True)


# ----------------------------------------------------------------------------- implementation access
def make_root(impl, mol, parent, off, name="s1"):
    from cogent3 import make_seq, make_unaligned_seqs

    if impl == "old":
        return make_seq(parent, name=name, moltype=mol, annotation_offset=off)
    if impl == "new":
        return make_seq(parent, name=name, moltype=mol, new_type=True, annotation_offset=off)
    if impl == "newcoll":
        assert not off, "this version's new-style collections take no offset"
        coll = make_unaligned_seqs({name: parent, "other": parent[::-1] or parent}, moltype=mol, new_type=True)
        return coll.seqs[name]
    raise ValueError(impl)


def make_fresh(impl, mol, s, name="s1"):
    from cogent3 import make_seq

    return make_seq(s, name=name, moltype=mol, new_type=impl != "old")


def real_apply(seq, op):
    kind = op[0]
    if kind == "slice":
        return seq[op[1] : op[2] : op[3]]
    if kind == "int":
        return seq[op[1]]
    if kind == "rc":
        return seq.rc()
    if kind == "to_rna":
        return seq.to_rna()
    if kind == "to_dna":
        return seq.to_dna()
    if kind == "copy":
        return seq.copy(sliced=op[1])
    if kind == "complement":
        return seq.complement()
    raise ValueError(op)


def view_record(seq):
    v = getattr(seq, "_seq", None)
    rec = [type(seq).__module__.rsplit(".", 1)[-1], type(seq).__name__, type(v).__name__]
    for a in ("start", "stop", "step", "offset", "seq_len", "seqid"):
        rec.append(getattr(v, a, None))
    for a in ("seq", "parent"):
        p = getattr(v, a, None)
        if p is not None:
            try:
                rec.append(str(p) if isinstance(p, (str, bytes)) else repr(p)[:200])
            except Exception:  # noqa: BLE001
                rec.append("?")
    rec.append(getattr(seq, "name", None))
    return tuple(rec)


def alphabet(m: M, steps):
    L = len(m.idx)
    ops = []
    vals = [None] + list(range(-(L + 2), L + 3))
    for c in [None] + list(steps):
        for a in vals:
            for b in vals:
                ops.append(("slice", a, b, c))
    for i in range(-(L + 1), L + 1):
        ops.append(("int", i))
    if m.nucleic:
        ops.append(("rc",))
        ops.append(("to_rna",))
        ops.append(("to_dna",))
    ops.append(("copy", True))
    ops.append(("copy", False))
    return ops


# ----------------------------------------------------------------------------- oracle
def rc_string(s, mol):
    if mol == "protein":
        return s[::-1]
    table = DNA_COMP if mol == "dna" else RNA_COMP
    return "".join(table[c] for c in reversed(s))


def coords_problem(seq, m: M):
    """parent-coordinate oracle; returns None or (what, got, want)"""
    if not m.idx:
        return None
    try:
        seqid, start, stop, strand = seq.parent_coordinates()
    except Exception as e:  # noqa: BLE001
        return ("parent_coordinates raised", f"{type(e).__name__}: {e}", None)
    want_strand = -1 if m.rev else 1
    if strand != want_strand:
        return ("strand", strand, want_strand)
    if seqid != m.name and not (m.seqid_free and seqid is None):
        return ("seqid", seqid, m.name)
    lo, hi = start - m.off, stop - m.off
    par = m.parent
    if m.nucleic and m.pmol != m.mol:
        par = par.translate(str.maketrans("TU", "UT"))
    if not (0 <= lo <= hi <= len(par)):
        return ("coordinates outside parent", [start, stop], [m.off, m.off + len(par)])
    seg = par[lo:hi]
    if strand == -1:
        seg = rc_string(seg, m.mol if m.nucleic else "protein")
    read = seg[:: m.stride]
    want = m.string()
    if read != want:
        exact = [min(m.idx) + m.off, max(m.idx) + 1 + m.off]
        return ("segment read back from (start, stop, strand)", {"coords": [start, stop, strand], "reads": read}, {"displays": want, "tight coords": exact})
    return None


def basic_problems(seq, m: M):
    want = m.string()
    out = []
    try:
        got = str(seq)
        if got != want:
            out.append(("str", got, want))
        if len(seq) != len(want):
            out.append(("len", len(seq), len(want)))
        it = [str(c) for c in seq]
        if it != list(want):
            out.append(("iter", it, list(want)))
    except Exception as e:  # noqa: BLE001
        out.append(("raised while reading", f"{type(e).__name__}: {e}", want))
        return out
    if not out:
        cp = coords_problem(seq, m)
        if cp:
            out.append(cp)
    return out


def norm(x, depth=0):
    """normalise a method result for comparison"""
    import numpy

    if depth > 4:
        return repr(x)
    if x is None or isinstance(x, (bool, int, str)):
        return x
    if isinstance(x, float):
        return round(x, 9)
    if isinstance(x, (numpy.integer,)):
        return int(x)
    if isinstance(x, (numpy.floating,)):
        return round(float(x), 9)
    if isinstance(x, numpy.ndarray):
        return norm(x.tolist(), depth + 1)
    mod = type(x).__module__
    if mod.startswith("cogent3.core") and hasattr(x, "moltype") and hasattr(x, "__len__"):
        return ("seq", getattr(x.moltype, "label", None), str(x))
    if hasattr(x, "to_dict") and mod.startswith("cogent3"):
        try:
            return ("dict", sorted((repr(k), norm(v, depth + 1)) for k, v in x.to_dict().items()))
        except Exception:  # noqa: BLE001
            pass
    if isinstance(x, dict):
        return ("dict", sorted((repr(k), norm(v, depth + 1)) for k, v in x.items()))
    if isinstance(x, (set, frozenset)):
        return ("set", sorted(repr(norm(v, depth + 1)) for v in x))
    if isinstance(x, (list, tuple)):
        return [norm(v, depth + 1) for v in x]
    if hasattr(x, "__next__") or type(x).__name__ == "generator":
        return [norm(v, depth + 1) for v in x]
    if mod.startswith("cogent3.core.location"):
        return repr(x)
    return repr(x)


def read_only_calls(mol):
    """(label, callable(seq, other)) - other is a fresh sequence with the same string"""
    calls = [
        ("to_fasta", lambda s, o: s.to_fasta()),
        ("count('A')", lambda s, o: s.count("A")),
        ("count('AC')", lambda s, o: s.count("AC")),
        ("counts", lambda s, o: s.counts()),
        ("counts(motif_length=2)", lambda s, o: s.counts(motif_length=2)),
        ("counts(include_ambiguity, allow_gap)", lambda s, o: s.counts(include_ambiguity=True, allow_gap=True)),
        ("is_gapped", lambda s, o: s.is_gapped()),
        ("is_degenerate", lambda s, o: s.is_degenerate()),
        ("is_valid", lambda s, o: s.is_valid()),
        ("is_strict", lambda s, o: s.is_strict()),
        ("first_gap", lambda s, o: s.first_gap()),
        ("first_degenerate", lambda s, o: s.first_degenerate()),
        ("first_invalid", lambda s, o: s.first_invalid()),
        ("first_non_strict", lambda s, o: s.first_non_strict()),
        ("disambiguate('strip')", lambda s, o: s.disambiguate("strip")),
        ("degap", lambda s, o: s.degap()),
        ("gap_indices", lambda s, o: s.gap_indices()),
        ("gap_vector", lambda s, o: s.gap_vector()),
        ("gap_maps", lambda s, o: s.gap_maps()),
        ("count_gaps", lambda s, o: s.count_gaps()),
        ("count_degenerate", lambda s, o: s.count_degenerate()),
        ("possibilities", lambda s, o: s.possibilities()),
        ("count_variants", lambda s, o: s.count_variants()),
        ("mw('strip')", lambda s, o: s.mw("strip")),
        ("can_match(other)", lambda s, o: s.can_match(o)),
        ("can_mismatch(other)", lambda s, o: s.can_mismatch(o)),
        ("must_match(other)", lambda s, o: s.must_match(o)),
        ("diff(other)", lambda s, o: s.diff(o)),
        ("distance(other)", lambda s, o: s.distance(o)),
        ("frac_same(other)", lambda s, o: s.frac_same(o)),
        ("frac_diff(other)", lambda s, o: s.frac_diff(o)),
        ("frac_same_gaps(other)", lambda s, o: s.frac_same_gaps(o)),
        ("frac_same_non_gaps(other)", lambda s, o: s.frac_same_non_gaps(o)),
        ("strip_degenerate", lambda s, o: s.strip_degenerate()),
        ("strip_bad", lambda s, o: s.strip_bad()),
        ("strip_bad_and_gaps", lambda s, o: s.strip_bad_and_gaps()),
        ("with_termini_unknown", lambda s, o: s.with_termini_unknown()),
        ("resolved_ambiguities", lambda s, o: [sorted(x) for x in s.resolved_ambiguities()]),
        ("replace('A','C')", lambda s, o: s.replace("A", "C")),
        ("replace('G','')", lambda s, o: s.replace("G", "")),
        ("get_kmers(2)", lambda s, o: s.get_kmers(2)),
        ("get_kmers(2, strict=False)", lambda s, o: s.get_kmers(2, strict=False)),
        ("get_in_motif_size(2)", lambda s, o: s.get_in_motif_size(2)),
        ("parse_out_gaps", lambda s, o: [repr(s.parse_out_gaps()[0]), str(s.parse_out_gaps()[1])]),
        ("sliding_windows(2,1)", lambda s, o: [str(w) for w in s.sliding_windows(2, 1)]),
        ("'in'", lambda s, o: str(o)[:2] in s),
        ("== other", lambda s, o: s == o),
        ("hash", lambda s, o: hash(s) == hash(o)),
        ("get_name", lambda s, o: s.get_name()),
        ("get_type", lambda s, o: s.get_type()),
        ("+ other", lambda s, o: s + o),
        ("bytes", lambda s, o: bytes(s)),
        ("array", lambda s, o: __import__("numpy").array(s).tolist()),
        ("to_phylip", lambda s, o: s.to_phylip()),
        ("str(copy())", lambda s, o: str(s.copy())),
        ("str(copy(sliced=False))", lambda s, o: str(s.copy(sliced=False))),
        ("to_moltype('text')", lambda s, o: s.to_moltype("text")),
        ("to_html", lambda s, o: s.to_html()),
        ("to_json roundtrip str", lambda s, o: str(__import__("cogent3").util.deserialise.deserialise_object(s.to_json()))),
    ]
    if mol in ("dna", "rna"):
        calls += [
            ("rc", lambda s, o: s.rc()),
            ("complement", lambda s, o: s.complement()),
            ("to_rna", lambda s, o: s.to_rna()),
            ("to_dna", lambda s, o: s.to_dna()),
            ("can_pair(other)", lambda s, o: s.can_pair(o)),
            ("can_mispair(other)", lambda s, o: s.can_mispair(o)),
            ("must_pair(other)", lambda s, o: s.must_pair(o)),
            ("has_terminal_stop", lambda s, o: s.has_terminal_stop(strict=False)),
            ("trim_stop_codon", lambda s, o: s.trim_stop_codon(strict=False)),
            ("get_translation(incomplete_ok)", lambda s, o: s.get_translation(incomplete_ok=True)),
            ("get_translation", lambda s, o: s.get_translation()),
            ("strand_symmetry", lambda s, o: round(float(s.strand_symmetry().observed.array.sum()), 9)),
        ]
    return calls


def differential_problems(seq, m: M, impl):
    """every read-only method on the view vs on a fresh sequence built from its string"""
    want = m.string()
    fresh = make_fresh(impl, m.mol, want, m.name)
    other_a = make_fresh(impl, m.mol, want, m.name)
    other_b = make_fresh(impl, m.mol, want, m.name)
    out = []
    for label, fn in read_only_calls(m.mol):
        try:
            a = norm(fn(seq, other_a))
        except AttributeError as e:
            if "has no attribute" in str(e) and type(seq).__name__ in str(e):
                continue  # method not offered by this implementation
            a = ("raised", type(e).__name__)
        except Exception as e:  # noqa: BLE001
            a = ("raised", type(e).__name__)
        try:
            b = norm(fn(fresh, other_b))
        except AttributeError as e:
            if "has no attribute" in str(e) and type(fresh).__name__ in str(e):
                continue
            b = ("raised", type(e).__name__)
        except Exception as e:  # noqa: BLE001
            b = ("raised", type(e).__name__)
        if a != b:
            out.append((label, a, b))
    return out


# ----------------------------------------------------------------------------- exploration
def step(seq, m: M, op):
    """execute one op on the real object and the model.

    returns (new_seq, new_model, problems) ; new_seq None when both raised as expected"""
    m2 = model_apply(m, op)
    try:
        s2 = real_apply(seq, op)
    except Exception as e:  # noqa: BLE001
        if m2 is IndexError and isinstance(e, IndexError):
            return None, None, []
        want = "IndexError" if m2 is IndexError else m2.string()
        return None, None, [(f"raised {type(e).__name__}", str(e)[:200], want)]
    if m2 is IndexError:
        return None, None, [("no IndexError", str(s2), "IndexError")]
    probs = basic_problems(s2, m2)
    if op[0] in ("to_rna", "to_dna", "complement") and probs and probs[0][0] not in ("str", "len", "iter", "raised while reading"):
        # a converted sequence may be re-based on its own string
        try:
            _, start, _, _ = s2.parent_coordinates()
            alt = rebased(m2, start)
            if not basic_problems(s2, alt):
                return s2, alt, []
        except Exception:  # noqa: BLE001
            pass
    if op[0] == "complement" and not probs:
        pass
    return s2, m2, probs


def op_label(op):
    if op[0] == "slice":
        c = op[3]
        return "__getitem__(slice, step<0)" if (c or 1) < 0 else ("__getitem__(slice, step>1)" if (c or 1) > 1 else "__getitem__(slice)")
    if op[0] == "int":
        return "__getitem__(int)"
    if op[0] == "copy":
        return f"copy(sliced={op[1]})"
    return op[0]


def explore(spec, acc, record=None):
    impl, mol, parent, off, depth, steps = spec["impl"], spec["mol"], spec["parent"], spec["off"], spec["depth"], spec["steps"]
    name = "s1"
    root = make_root(impl, mol, parent, off, name)
    m0 = M(parent, mol, off, name, range(len(parent)))
    clsname = f"{impl} {type(root).__name__}"
    base_case = {"impl": impl, "mol": mol, "parent": parent, "off": off}

    probs = basic_problems(root, m0)
    if probs:
        acc.fail(f"{clsname} construction: {probs[0][0]}", dict(base_case, history=[]), {"problems": probs[:3]})
    seen = {(view_record(root), m0.key())}
    acc.state(0)
    check_state(root, m0, impl, clsname, base_case, [], acc, spec.get("differential", True))
    frontier = [(root, m0, [])]
    for d in range(1, depth + 1):
        nxt = []
        for seq, m, hist in frontier:
            for op in alphabet(m, steps):
                acc.transitions += 1
                acc.case(None, nontrivial=bool(m.idx))
                s2, m2, probs = step(seq, m, op)
                if probs:
                    sig = f"{impl} {type(seq).__name__}.{op_label(op)}: {probs[0][0]} [{m.flags()}]"
                    acc.fail(sig, dict(base_case, history=hist + [list(op)]), {"problems": probs[:3], "view": str(view_record(seq))})
                    acc.outcome(("bad", op_label(op), probs[0][0]))
                    continue
                if s2 is None:
                    acc.outcome(("IndexError",))
                    continue
                acc.outcome((m2.idx, m2.rev, m2.mol))
                k = (view_record(s2), m2.key())
                if k in seen:
                    continue
                seen.add(k)
                acc.state(d)
                h2 = hist + [list(op)]
                check_state(s2, m2, impl, type(s2).__name__ and f"{impl} {type(s2).__name__}", base_case, h2, acc, spec.get("differential", True))
                if d < depth:
                    nxt.append((s2, m2, h2))
                if len(h2) == depth:
                    acc.sample({"impl": impl, "moltype": mol, "parent": parent, "offset": off, "history": h2, "displays": m2.string()}, f"{impl}-{mol}")
        frontier = nxt


def check_state(seq, m, impl, clsname, base_case, hist, acc, differential=True):
    if not differential:
        return
    for label, a, b in differential_problems(seq, m, impl):
        sig = f"{impl} sequence.{label} differs from a fresh sequence with the same string [{m.flags()}]"
        acc.fail(sig, dict(base_case, history=hist, method=label), {"on view": a, "on fresh": b, "string": m.string()})


# ----------------------------------------------------------------------------- shards
def shards(tier, seed):
    b = bounds(tier)
    out = []
    for impl in IMPLS:
        for mol in ("dna", "rna", "protein"):
            for w in WITNESS[mol]:
                for L in range(0, b["max_parent_len"] + 1):
                    for off in b["offsets"]:
                        if L == 0 and (off or w != WITNESS[mol][0]):
                            continue
                        if impl == "newcoll" and (off or L == 0):
                            continue
                        out.append({"impl": impl, "mol": mol, "parent": w[:L], "off": off, "depth": b["depth"], "steps": b["steps"]})
        # content-dependent read-only methods: gaps, N, ?, repeated symbols
        for mol in ("dna", "rna"):
            p = b["content_parent"] if mol == "dna" else b["content_parent"].replace("T", "U")
            out.append({"impl": impl, "mol": mol, "parent": p, "off": 0, "depth": b["content_depth"], "steps": [1, 2, -1, -2]})
    # heaviest first
    out.sort(key=lambda s: -len(s["parent"]))
    return out


def run_shard(spec, acc):
    explore(spec, acc)


def replay(case):
    from vf.kernel.runner import Acc

    acc = Acc()
    impl, mol, parent, off = case["impl"], case["mol"], case["parent"], case["off"]
    seq = make_root(impl, mol, parent, off)
    m = M(parent, mol, off, "s1", range(len(parent)))
    base_case = {"impl": impl, "mol": mol, "parent": parent, "off": off}
    hist = []
    for op in case["history"]:
        op = tuple(op)
        clsname = f"{impl} {type(seq).__name__}"
        s2, m2, probs = step(seq, m, op)
        hist.append(list(op))
        if probs:
            acc.fail(f"{clsname}.{op_label(op)}: {probs[0][0]} [{m.flags()}]", dict(base_case, history=list(hist)), {"problems": probs[:3]})
            break
        if s2 is None:
            break
        seq, m = s2, m2
    else:
        check_state(seq, m, impl, f"{impl} {type(seq).__name__}", base_case, hist, acc)
    return [(sig, rec["cases"][0]["detail"]) for sig, rec in acc.failures.items()]


LEVEL_TEXT = (
    "Explicit-state model checking of the real view classes: every history of slices (all start/stop/step combinations incl. negative "
    "and out-of-range), integer indexing, rc, DNA/RNA conversion, copy and complement up to the depth bound is executed on the real object and "
    "on a python-list model; all reachable canonical states are enumerated (the frontier is reported per depth) and each is compared "
    "observation by observation, including ~70 read-only methods against a fresh sequence. Both implementations, three molecular types, with/without annotation offset."
)
LEVEL_NOTE = (
    "Trusted: CPython list slicing; IUPAC complement table in the driver. Decides parents up to the stated length and histories up to the stated depth; "
    "view arithmetic is content-independent so witness parents stand for all contents of that length."
)
