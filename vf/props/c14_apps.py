"""C14 - composed apps account for every input exactly once, on any schedule.

K3: the process pool used by ``apply_to(parallel=True)`` is replaced by a *virtual executor*: ``submit``
pickles (function, item) across a simulated process boundary and the explorer decides which running
task completes next.  Every completion order admissible for W workers is enumerated, crossed with every
vector of per-record outcomes (ok / raises / returns None / returns a wrong type / returns False /
returns a NotCompleted) for one or two generic steps, for both writable store classes, serial and parallel.
Oracle: apply_to does not raise; exactly one record per input under its own identifier; not-completed records
name step, message and source; completed content equals running the app on that input alone; the final
store is identical for all schedules and equals the serial one; a NotCompleted passes through later steps unchanged.
"""



import itertools
import json
import os
import pickle
import shutil
import tempfile

from cogent3.app.composable import NotCompleted, define_app
from cogent3.app.typing import SerialisableType, UnalignedSeqsType

PID = "C14"
LEVEL = "model_checking"
TECHNIQUE = "exhaustive enumeration of worker-pool completion orders (virtual executor) x per-record outcome vectors on the real apply_to"
RULE = (
    "one execution = (input id set, outcome vector per generic step, store class, serial | W workers + one W-admissible completion order); "
    "states = distinct final stores (kind, id, content digests); transitions = task completions handed to the master"
)
ASSUMPTIONS = [
    "workers are isolated processes: a task sees a pickled copy of its input and returns a pickled result; no state is shared between tasks",
    "a wrong-typed value may be reported by the step that produced it or by the step (or writer) that received it; "
    "a receiving generic step cannot know the source of such a value, so a missing source is accepted there",
    "worker death (BrokenProcessPool) and MPI are outside the alphabet",
    "ids use the store's own identifier function get_unique_id; inputs are files <id>.fasta",
]

OUTCOMES = ["ok", "raise", "none", "nc", "ncsrc", "wrong", "false"]  # ncsrc: a NotCompleted that names some other source
SEQS = {"a": "ACGT", "ba": "GGCC", "c": "TTAA", "fasta1": "CAGT", "a.v2": "CCAT"}


# every run unpickles fresh molecular-type objects (the virtual executor hands arguments and results over as pickles, like a
# real pool does), and the library keeps each of them in a module-level registry: every shard gets a fresh worker
MAX_TASKS_PER_CHILD = 1


def bounds(tier):
    return {
        "quick": {"id_sets": [["a"], ["a", "ba"], ["ba", "a", "c"], ["a", "a.v2"]], "steps": [1], "two_step_sets": [["ba", "a"]], "workers": [1, 2, 3], "stores": ["dir", "sqlite"]},
        "thorough": {"id_sets": [["a"], ["a", "ba"], ["ba", "a", "c"], ["a", "a.v2"], ["ba", "c", "a", "fasta1"]], "steps": [1], "two_step_sets": [["ba", "a"], ["ba", "a", "c"]], "workers": [1, 2, 3], "stores": ["dir", "sqlite"]},
    }[tier]


# ----------------------------------------------------------------------------- apps under the explorer's control
def _behave(app, seqs, outcomes):
    from cogent3.app.data_store import get_unique_id

    name = get_unique_id(seqs.info.source)
    o = outcomes.get(name, "ok")
    delay = outcomes.get("__delay__", {}).get(name)
    if delay:
        import time

        time.sleep(delay)  # only used by the free-running validation pass (real worker pool)
    if o == "ok":
        return seqs
    if o == "raise":
        raise ValueError(f"boom {name}")
    if o == "none":
        return None
    if o == "nc":
        return NotCompleted("FAIL", app, f"declined {name}", source=seqs)
    if o == "ncsrc":
        # the failing step reports a source of its own (data read from elsewhere): the record still belongs to this input
        return NotCompleted("FAIL", app, f"declined {name}", source="elsewhere/zz.fasta")
    if o == "wrong":
        return {"not": "sequences"}
    if o == "false":
        return False
    raise AssertionError(o)


@define_app
class vf_step1:
    def __init__(self, outcomes: dict):
        self.outcomes = outcomes

    def main(self, seqs: UnalignedSeqsType) -> UnalignedSeqsType:
        return _behave(self, seqs, self.outcomes)


@define_app
class vf_step2:
    def __init__(self, outcomes: dict):
        self.outcomes = outcomes

    def main(self, seqs: UnalignedSeqsType) -> UnalignedSeqsType:
        return _behave(self, seqs, self.outcomes)


@define_app
class vf_tab:
    """a step whose legitimate result can be falsy: a table with one row per sequence that has a given first base"""

    def __init__(self, base: str):
        self.base = base

    def main(self, seqs: UnalignedSeqsType) -> SerialisableType:
        from cogent3 import make_table

        rows = [[s.name, len(s)] for s in seqs.seqs if str(s).startswith(self.base)]
        t = make_table(header=["name", "length"], data=rows)
        t.source = seqs.info.source
        return t


@define_app
class vf_ser1:
    """like vf_step1, but what it returns on success is a plain serialisable value"""

    def __init__(self, outcomes: dict):
        self.outcomes = outcomes

    def main(self, seqs: UnalignedSeqsType) -> SerialisableType:
        r = _behave(self, seqs, self.outcomes)
        return {"n": int(seqs.num_seqs)} if r is seqs else r


@define_app
def vf_any(val: SerialisableType) -> SerialisableType:
    """a step that takes anything serialisable: it says what it was given"""
    return {"seen": type(val).__name__}


@define_app
def vf_consume(seqs: UnalignedSeqsType, wanted: list) -> UnalignedSeqsType:
    """an app made from a function that uses up the list it is given: every record must still see the list as constructed"""
    names = []
    while wanted:
        names.append(wanted.pop())
    return seqs.take_seqs(sorted(names))


# ----------------------------------------------------------------------------- virtual executor
class _Future:
    def __init__(self, payload, index):
        self.payload = payload
        self.index = index
        self._result = None
        self._exc = None
        self.done = False

    def run(self):
        # the worker unpickles its task, runs it, and the result travels back pickled
        f, a, k = pickle.loads(self.payload)
        try:
            self._result = pickle.dumps(f(*a, **k))
        except BaseException as exc:  # noqa: BLE001
            self._exc = exc
        self.done = True

    def result(self, timeout=None):
        if self._exc is not None:
            raise self._exc
        return pickle.loads(self._result)


class VirtualExecutor:
    """stands in for loky's reusable executor; completion order is decided by ``schedule``"""

    def __init__(self, schedule, log):
        self.schedule = list(schedule)
        self.log = log
        self.futures = []

    def __enter__(self):
        return self

    def __exit__(self, *a):
        return False

    def submit(self, f, *args, **kwargs):
        fut = _Future(pickle.dumps((f, args, kwargs)), len(self.futures))
        self.futures.append(fut)
        return fut

    def as_completed(self, futs):
        futs = list(futs)
        order = self.schedule if len(self.schedule) == len(futs) else list(range(len(futs)))
        for i in order:
            futs[i].run()
            self.log.append(i)
            yield futs[i]


def admissible_orders(n, w):
    """all completion orders of n tasks submitted in order to w workers (any running task may finish next)"""
    out = []

    def rec(next_start, running, done):
        if len(done) == n:
            out.append(tuple(done))
            return
        for t in sorted(running):
            r2 = set(running)
            r2.remove(t)
            ns = next_start
            if ns < n:
                r2.add(ns)
                ns += 1
            rec(ns, r2, done + [t])

    first = set(range(min(w, n)))
    rec(len(first), first, [])
    return sorted(set(out))


class patched_pool:
    def __init__(self, schedule):
        self.schedule = schedule
        self.log = []

    def __enter__(self):
        import cogent3.util.parallel as par

        self.par = par
        self.orig_get = par.loky.get_reusable_executor
        self.orig_ac = par.concurrentfutures.as_completed
        ex = VirtualExecutor(self.schedule, self.log)
        self.ex = ex
        par.loky.get_reusable_executor = lambda *a, **k: ex
        par.concurrentfutures.as_completed = ex.as_completed
        return self

    def __exit__(self, *a):
        self.par.loky.get_reusable_executor = self.orig_get
        self.par.concurrentfutures.as_completed = self.orig_ac
        return False


# ----------------------------------------------------------------------------- one execution
def make_inputs(base, ids):
    from cogent3.app.data_store import DataStoreDirectory

    d = os.path.join(base, "in")
    os.makedirs(d)
    for i in ids:
        with open(os.path.join(d, f"{i}.fasta"), "w") as f:
            f.write(f">s1\n{SEQS[i]}\n>s2\n{SEQS[i][::-1]}\n")
    ds = DataStoreDirectory(d, suffix="fasta", mode="r")
    # members in the given order (glob order is a file-system accident)
    by = {m.unique_id: m for m in ds.completed}
    return [by[f"{i}.fasta"] for i in ids]


def make_app(out_kind, out_path, vectors, mode="w"):
    from cogent3 import get_app
    from cogent3.app.data_store import DataStoreDirectory
    from cogent3.app.sqlite_data_store import DataStoreSqlite

    out = DataStoreDirectory(out_path, suffix="fasta", mode=mode) if out_kind == "dir" else DataStoreSqlite(out_path, mode=mode)
    loader = get_app("load_unaligned", format="fasta", moltype="dna")
    app = loader + vf_step1(vectors[0])
    if len(vectors) > 1:
        app = app + vf_step2(vectors[1])
    app = app + get_app("write_seqs", data_store=out, format="fasta")
    return app, out


def store_content(kind, store):
    """{(kind, canonical id): content}; duplicates reported separately"""
    recs, dups = {}, []
    for which, members in (("completed", store.completed), ("nc", store.not_completed)):
        for m in members:
            uid = os.path.basename(str(m.unique_id))
            for sfx in (".fasta", ".json"):
                if uid.endswith(sfx):
                    uid = uid[: -len(sfx)]
            key = (which, uid)
            if key in recs:
                dups.append(key)
            recs[key] = m.read()
    return recs, dups


def expected_record(i, vectors):
    """(kind, allowed origins, message fragment) for input i"""
    for k, vec in enumerate(vectors):
        o = vec.get(i, "ok")
        step = f"vf_step{k + 1}"
        nxt = f"vf_step{k + 2}" if k + 1 < len(vectors) else "write_seqs"
        if o == "ok":
            continue
        if o == "raise":
            return ("nc", {step}, f"boom {i}")
        if o == "none":
            return ("nc", {step}, "None")
        if o in ("nc", "ncsrc"):
            return ("nc", {step}, f"declined {i}")
        return ("nc", {step, nxt}, "")
    return ("completed", None, None)


def canonical_nc(text):
    """a not-completed record with volatile parts (tracebacks' line numbers / paths) reduced"""
    try:
        d = json.loads(text)["not_completed_construction"]
        typ, origin, message = d["args"]
        src = d["kwargs"].get("source")
        last = message.strip().splitlines()[-1] if message.strip() else ""
        return {"type": typ, "origin": origin, "message_last_line": last, "source": src}
    except Exception as e:  # noqa: BLE001
        return {"unparseable": f"{type(e).__name__}", "text": text[:200]}


def run_once(ids, vectors, store_kind, sched, base):
    """sched: None for serial, else tuple completion order. returns dict with outcome"""
    work = tempfile.mkdtemp(prefix="c14-", dir=base)
    try:
        members = make_inputs(work, ids)
        out_path = os.path.join(work, "out" if store_kind == "dir" else "out.sqlitedb")
        app, out = make_app(store_kind, out_path, vectors)
        raised = None
        log = []
        try:
            if sched is None:
                app.apply_to(members, logger=False, show_progress=False)
            elif sched and sched[0] == "chunksize":
                # the chunking setting the API accepts; completion order = submission order of whatever tasks are made
                with patched_pool(()) as pp:
                    app.apply_to(members, parallel=True, par_kw={"max_workers": 2, "chunksize": sched[1]}, logger=False, show_progress=False)
            else:
                with patched_pool(sched) as pp:
                    app.apply_to(members, parallel=True, par_kw={"max_workers": 2}, logger=False, show_progress=False)
                    log = list(pp.log)
        except Exception as e:  # noqa: BLE001
            import traceback

            tb = traceback.extract_tb(e.__traceback__)
            where = next((f"{os.path.basename(f.filename)}:{f.name}" for f in reversed(tb) if "cogent3" in f.filename), "?")
            raised = (type(e).__name__, where, str(e)[:200])
        recs, dups = store_content(store_kind, out)
        if store_kind == "sqlite":
            try:
                out.unlock()
                out.close()
            except Exception:  # noqa: BLE001
                pass
        return {"raised": raised, "records": recs, "dups": dups, "log": log}
    finally:
        shutil.rmtree(work, ignore_errors=True)


def single_reference(i, base):
    """content produced by calling the app on that input alone into a fresh store"""
    r = run_once([i], [{}], "dir", None, base)
    ref = r["records"].get(("completed", i))
    if ref is None and "." in i:
        # a directory store files an identifier with an interior dot under its first component (recorded finding of C13):
        # the content reference is then taken from the sqlite store, which keeps identifiers verbatim
        r = run_once([i], [{}], "sqlite", None, base)
        ref = r["records"].get(("completed", i))
    return ref


def judge(ids, vectors, store_kind, sched, res, refs):
    """returns list of (sig, detail)"""
    fails = []
    mode = "serial" if sched is None else ("parallel, chunksize given" if sched[0] == "chunksize" else "parallel")
    classes = sorted({v.get(i, "ok") for v in vectors for i in ids} - {"ok"})
    cls = f"{store_kind} store, {mode}, {len(vectors)} generic step(s)" + ("; an input name has an interior dot" if any("." in i for i in ids) else "")
    if res["raised"]:
        name, where, msg = res["raised"]
        last = [vectors[-1].get(i, "ok") for i in ids]
        why = sorted({o for o in last if o in ("wrong", "false")})
        fails.append((f"apply_to raised {name} at {where} [{cls}; last-step outcomes incl. {why or classes}]", {"error": msg}))
    if res["dups"]:
        fails.append((f"duplicate member in output store [{cls}]", {"dups": res["dups"]}))
    recs = res["records"]
    for i in ids:
        have = [k for k in recs if k[1] == i]
        kind, origins, frag = expected_record(i, vectors)
        o = next((v.get(i, "ok") for v in vectors if v.get(i, "ok") != "ok"), "ok")
        if len(have) != 1:
            if res["raised"]:
                continue  # consequence of the raise already reported
            fails.append((f"input has {len(have)} records instead of exactly one [{cls}; outcome {o}]", {"id": i, "records": have}))
            continue
        if have[0][0] != kind:
            fails.append((f"record kind {have[0][0]} where {kind} expected [{cls}; outcome {o}]", {"id": i}))
            continue
        text = recs[have[0]]
        if kind == "completed":
            if text != refs[i]:
                fails.append((f"completed content differs from running the app on that input alone [{cls}]", {"id": i, "got": text, "want": refs[i]}))
        else:
            c = canonical_nc(text)
            if "unparseable" in c:
                fails.append((f"not-completed record is not a NotCompleted JSON [{cls}; outcome {o}]", c))
                continue
            if c["origin"] not in origins:
                fails.append((f"not-completed record names the wrong step [{cls}; outcome {o}]", {"id": i, "origin": c["origin"], "allowed": sorted(origins)}))
            if frag and frag not in json.loads(text)["not_completed_construction"]["args"][2]:
                fails.append((f"not-completed record lost the failure message [{cls}; outcome {o}]", {"id": i, "message": c["message_last_line"], "want_fragment": frag}))
            if not json.loads(text)["not_completed_construction"]["args"][2]:
                fails.append((f"not-completed record has an empty message [{cls}; outcome {o}]", {"id": i}))
            # a wrong-typed value carries no source information for the step that receives it
            if o == "ncsrc":
                pass  # the record names the source the failing step gave
            elif c["source"] != f"{i}.fasta" and not (o in ("wrong", "false") and c["source"] is None and c["origin"] != next(iter(sorted(origins)))):
                fails.append((f"not-completed record does not name its source [{cls}; outcome {o}]", {"id": i, "source": c["source"], "want": f"{i}.fasta"}))
    extra = sorted(k for k in recs if k[1] not in ids)
    if extra:
        fails.append((f"record under an identifier that is not an input [{cls}]", {"extra": extra}))
    return fails


def final_store_key(res):
    return tuple(sorted((k[0], k[1], json.dumps(canonical_nc(v), sort_keys=True) if k[0] == "nc" else v) for k, v in res["records"].items()))


def explore(spec, acc):
    base = tempfile.gettempdir()
    ids = spec["ids"]
    nsteps = spec["steps"]
    store_kind = spec["store"]
    refs = {i: single_reference(i, base) for i in ids}
    for i, r in refs.items():
        if r is None:
            acc.fail("reference run of the app on one input alone produced no completed record", {"ids": [i]}, {})
            return
    scheds = [None]
    for w in spec["workers"]:
        for o in admissible_orders(len(ids), w):
            if o not in scheds:
                scheds.append(o)
    for cs in (2, 3):
        if len(ids) > 1:
            scheds.append(("chunksize", cs))
    vec_space = list(itertools.product(OUTCOMES, repeat=len(ids)))
    if nsteps == 2:
        # step 2 only sees records step 1 passed: enumerate step-2 outcomes for those
        pass
    only = spec.get("vector_chunk")
    for vi, vec in enumerate(vec_space):
        if only is not None and vi % only[1] != only[0]:
            continue
        v1 = dict(zip(ids, vec))
        if nsteps == 1:
            vector_sets = [[v1]]
        else:
            ok_ids = [i for i in ids if v1[i] == "ok"]
            vector_sets = [[v1, dict(zip(ok_ids, v2))] for v2 in itertools.product(OUTCOMES, repeat=len(ok_ids))]
        for vectors in vector_sets:
            finals = {}
            any_raised = False
            for sched in scheds:
                case = {"ids": ids, "vectors": vectors, "store": store_kind, "schedule": list(sched) if sched is not None else None}
                acc.case(case, nontrivial=any(o != "ok" for v in vectors for o in v.values()) or sched is not None)
                res = run_once(ids, vectors, store_kind, sched, base)
                acc.transitions += len(ids)
                acc.traces += 1
                if sched is not None and sched[0] != "chunksize" and res["log"] and tuple(res["log"]) != tuple(sched) and not res["raised"]:
                    acc.fail("harness: virtual executor did not follow the schedule", case, {"log": res["log"]})
                for sig, detail in judge(ids, vectors, store_kind, sched, res, refs):
                    acc.fail(sig, case, detail)
                any_raised = any_raised or bool(res["raised"])  # order dependence after a raise is a consequence
                k = final_store_key(res)
                finals.setdefault(k, []).append(case["schedule"])
                acc.outcome(k)
                if k not in spec.setdefault("_seen", set()):
                    spec["_seen"].add(k)
                    acc.state(len(ids))
            if len(finals) > 1 and not any_raised:
                groups = sorted(finals.values(), key=lambda g: (g[0] is not None, str(g)))
                acc.fail(
                    f"final store depends on the completion order [{store_kind} store, {len(vectors)} generic step(s)" + ("; an input name has an interior dot]" if any("." in i for i in ids) else "]"),
                    {"ids": ids, "vectors": vectors, "store": store_kind, "schedule": groups[1][0], "compare_with": groups[0][0]},
                    {"distinct_final_stores": len(finals), "schedules_by_store": groups[:4]},
                )
    acc.sample({"ids": ids, "steps": nsteps, "store": store_kind, "schedules": [list(s) if s else "serial" for s in scheds][:8]}, f"{store_kind}-{len(ids)}-{nsteps}")


def check_falsy(acc):
    """a successful result that is falsy (a table without rows) is a completed record like any other"""
    from cogent3 import get_app
    from cogent3.app.sqlite_data_store import DataStoreSqlite
    from cogent3.util.deserialise import deserialise_object

    base = tempfile.gettempdir()
    for first_base in "AGTC":
        for serial in (True, False):
            work = tempfile.mkdtemp(prefix="c14f-", dir=base)
            ids = ["a", "ba", "c"]
            case = {"falsy": True, "ids": ids, "first_base": first_base, "serial": serial}
            acc.case(case)
            try:
                members = make_inputs(work, ids)
                out = DataStoreSqlite(os.path.join(work, "out.sqlitedb"), mode="w")
                app = get_app("load_unaligned", format="fasta", moltype="dna") + vf_tab(first_base) + get_app("write_db", data_store=out)
                if serial:
                    app.apply_to(members, logger=False, show_progress=False)
                else:
                    with patched_pool((2, 0, 1)):
                        app.apply_to(members, parallel=True, par_kw={"max_workers": 2}, logger=False, show_progress=False)
                done = sorted(str(m.unique_id) for m in out.completed)
                nc = sorted(str(m.unique_id) for m in out.not_completed)
                want_rows = {i: sum(1 for q in (SEQS[i], SEQS[i][::-1]) if q.startswith(first_base)) for i in ids}
                acc.outcome(("falsy", tuple(want_rows.values())))
                if done != sorted(ids) or nc:
                    empty = [i for i in ids if want_rows[i] == 0]
                    acc.fail("an input whose result is a table without rows is not stored as a completed record [sqlite store, write_db]", case,
                             {"completed": done, "not_completed": nc, "inputs with an empty table": empty})
                else:
                    reader = get_app("load_db")
                    for m in out.completed:
                        t = reader(m)
                        if t.shape[0] != want_rows[str(m.unique_id)]:
                            acc.fail("stored table differs from the step's result [sqlite store, write_db]", case, {"id": str(m.unique_id), "rows": int(t.shape[0])})
                out.close()
            except Exception as e:  # noqa: BLE001
                acc.fail(f"composition with a falsy result raised {type(e).__name__} [sqlite store, write_db]", case, {"error": str(e)[:200]})
            finally:
                shutil.rmtree(work, ignore_errors=True)
    acc.sample({"falsy_results": True, "writer": "write_db", "inputs": ["a", "ba", "c"]}, "falsy")


def check_function_app(acc):
    """an app built from a function, constructed with a mutable argument the function modifies: records do not see each
    other's leftovers (serial and parallel, argument given positionally or by keyword)"""
    from cogent3 import get_app
    from cogent3.app.sqlite_data_store import DataStoreSqlite

    base = tempfile.gettempdir()
    ids = ["a", "ba", "c"]
    for how in ("positional", "keyword"):
        for serial in (True, False):
            work = tempfile.mkdtemp(prefix="c14g-", dir=base)
            case = {"function_app": True, "argument": how, "serial": serial, "ids": ids}
            acc.case(case)
            try:
                members = make_inputs(work, ids)
                out = DataStoreSqlite(os.path.join(work, "out.sqlitedb"), mode="w")
                step = vf_consume(["s1", "s2"]) if how == "positional" else vf_consume(wanted=["s1", "s2"])
                app = get_app("load_unaligned", format="fasta", moltype="dna") + step + get_app("write_seqs", data_store=out, format="fasta")
                if serial:
                    app.apply_to(members, logger=False, show_progress=False)
                else:
                    with patched_pool((1, 2, 0)):
                        app.apply_to(members, parallel=True, par_kw={"max_workers": 2}, logger=False, show_progress=False)
                done = sorted(str(m.unique_id) for m in out.completed)
                nc = sorted(str(m.unique_id) for m in out.not_completed)
                contents = {str(m.unique_id): m.read().count(">") for m in out.completed}
                acc.outcome(("function app", how, serial, len(done)))
                if done != sorted(ids) or nc or any(v != 2 for v in contents.values()):
                    acc.fail(f"app made from a function: a record saw the mutable argument as an earlier record left it [argument given {how}]", case,
                             {"completed": done, "not_completed": nc, "sequences per record": contents})
                out.close()
            except Exception as e:  # noqa: BLE001
                acc.fail(f"app made from a function raised {type(e).__name__}", case, {"error": str(e)[:200]})
            finally:
                shutil.rmtree(work, ignore_errors=True)
    acc.sample({"function_app": True}, "funcapp")


def check_passthrough(acc):
    """a NotCompleted fed to any later step comes out unchanged"""
    base = tempfile.gettempdir()
    work = tempfile.mkdtemp(prefix="c14p-", dir=base)
    try:
        from cogent3 import get_app

        members = make_inputs(work, ["a"])
        loader = get_app("load_unaligned", format="fasta", moltype="dna")
        for o in ("raise", "none", "nc"):
            calls = []
            s2 = vf_step2({})
            orig = s2.main
            app = loader + vf_step1({"a": o}) + s2
            acc.case({"passthrough": o})
            first = (loader + vf_step1({"a": o}))(members[0])
            got = app(members[0])
            acc.transitions += 1
            ok = isinstance(got, NotCompleted) and isinstance(first, NotCompleted) and (got.type, got.origin, got.message.splitlines()[-1:], got.source) == (
                first.type, first.origin, first.message.splitlines()[-1:], first.source)
            if not ok or got.origin != "vf_step1":
                acc.fail(f"NotCompleted changed while passing through a later step [outcome {o}]", {"passthrough": o}, {"got": str(got), "first": str(first)})
            acc.outcome(("pass", o, str(type(got).__name__)))
        # the later step may be one that accepts any serialisable value: it is skipped all the same
        for o in ("raise", "none", "nc"):
            for tail_label, tail in (("any", lambda: vf_any()),):
                case = {"passthrough": o, "later_step": tail_label}
                acc.case(case)
                first = (loader + vf_ser1({"a": o}))(members[0])
                got = (loader + vf_ser1({"a": o}) + tail())(members[0])
                acc.transitions += 1
                ok = isinstance(got, NotCompleted) and isinstance(first, NotCompleted) and (got.type, got.origin, got.message.splitlines()[-1:], got.source) == (
                    first.type, first.origin, first.message.splitlines()[-1:], first.source)
                if not ok:
                    acc.fail(f"NotCompleted did not pass a later step that accepts any serialisable value [outcome {o}]", case, {"got": str(got)[:200], "first": str(first)[:200]})
                acc.outcome(("pass-any", o, tail_label, str(type(got).__name__)))
        # a NotCompleted given directly to an app comes back as the same object
        nc = NotCompleted("FAIL", "here", "msg", source="a.fasta")
        for app in (vf_step1({}), vf_step1({}) + vf_step2({})):
            acc.case({"passthrough": "direct"})
            got = app(nc)
            if got is not nc:
                acc.fail("NotCompleted input is not returned unchanged", {"passthrough": "direct"}, {"got": str(got)})
    finally:
        shutil.rmtree(work, ignore_errors=True)


def validate_real_pool(spec, acc):
    """free-running pass: the real loky pool with skewed task durations; every observed final store must be the
    one all explored schedules produced (the serial store)"""
    base = tempfile.gettempdir()
    ids = spec["ids"]
    vec = dict(zip(ids, spec["vector"]))
    refs = {i: single_reference(i, base) for i in ids}
    serial = run_once(ids, [vec], spec["store"], None, base)
    want = final_store_key(serial)
    orders = set()
    for delays in spec["delays"]:
        v = dict(vec)
        v["__delay__"] = dict(zip(ids, delays))
        work = tempfile.mkdtemp(prefix="c14v-", dir=base)
        try:
            members = make_inputs(work, ids)
            out_path = os.path.join(work, "out" if spec["store"] == "dir" else "out.sqlitedb")
            app, out = make_app(spec["store"], out_path, [v])
            case = {"validate_real_pool": True, "ids": ids, "vector": spec["vector"], "store": spec["store"], "delays": list(delays)}
            acc.case(case)
            try:
                app.apply_to(members, parallel=True, par_kw={"max_workers": 3}, logger=False, show_progress=False)
            except Exception as e:  # noqa: BLE001
                acc.fail(f"apply_to with the real worker pool raised {type(e).__name__}", case, {"error": str(e)[:200]})
                continue
            recs, dups = store_content(spec["store"], out)
            if spec["store"] == "sqlite":
                out.unlock()
                out.close()
            got = final_store_key({"records": recs})
            acc.traces += 1
            acc.transitions += len(ids)
            acc.outcome(got)
            orders.add(tuple(delays))
            if got != want:
                acc.fail("real worker pool produced a final store that no explored schedule produced", case,
                         {"got": [list(x[:2]) for x in got], "want": [list(x[:2]) for x in want]})
            for sig, detail in judge(ids, [vec], spec["store"], (0,), {"raised": None, "records": recs, "dups": dups, "log": []}, refs):
                acc.fail(sig.replace("parallel", "real pool"), case, detail)
        finally:
            shutil.rmtree(work, ignore_errors=True)
    acc.count("real_pool_runs", len(orders))
    acc.sample({"validate_real_pool": True, "ids": ids, "vector": spec["vector"], "delay_patterns": spec["delays"]}, "realpool")


ID_TOKENS = ["g", "g_t", "fasta", "fasta_t", "gz", "json", "v2", "a"]
ID_EXTS = ["", ".fasta", ".fasta.gz", ".json", ".gz", ".txt", ".fasta.bz2", ".json.zip"]
ID_PAIRS = ["g.fasta_t.fasta", "g_t.fasta", "g.fasta.fasta", "g.fasta", "g.fasta_t.fasta_t.fasta", "g_t.fasta_t.fasta"]


def model_identifier(name):
    """the record identifier of a source: its file name without the trailing format (and compression) suffix"""
    toks = name.split(".")
    if len(toks) == 1:
        return name
    if toks[-1] in ("bz2", "gz", "zip"):
        return ".".join(toks[:-2]) if len(toks) >= 3 else toks[0]
    return ".".join(toks[:-1])


def check_identifiers(acc):
    """the identifier function the writers use, on every name built from a few tokens; then every pair of sources whose
    names contain the suffix text a second time, written through write_db"""
    from cogent3 import get_app
    from cogent3.app.data_store import get_unique_id
    from cogent3.app.sqlite_data_store import DataStoreSqlite

    for n in (1, 2, 3):
        for toks in itertools.product(ID_TOKENS, repeat=n):
            for ext in ID_EXTS:
                name = ".".join(toks) + ext
                for form in ("name", "path"):
                    arg = name if form == "name" else os.path.join("/some/dir.fasta", name)
                    case = {"identifiers": True, "name": arg}
                    acc.case(case, nontrivial=True)
                    want = model_identifier(name)
                    try:
                        got = get_unique_id(arg)
                    except Exception as e:  # noqa: BLE001
                        got = f"raised {type(e).__name__}"
                    acc.outcome(("identifier", got == name))
                    if got != want:
                        inner = any(t in ("fasta", "gz", "json") for t in toks)
                        acc.fail("identifier of a source is not its name without the trailing format suffix"
                                 + (" [the suffix text also occurs inside the name]" if inner else ""), case, {"got": got, "want": want})
    base = tempfile.gettempdir()
    for a, b in itertools.permutations(ID_PAIRS, 2):
        work = tempfile.mkdtemp(prefix="c14i-", dir=base)
        case = {"identifiers": True, "sources": [a, b]}
        acc.case(case, nontrivial=True)
        try:
            os.makedirs(os.path.join(work, "in"))
            paths = []
            for k, nm in enumerate((a, b)):
                pth = os.path.join(work, "in", nm)
                text = f">s1\n{'ACGT'[k:] + 'AACC'}\n>s2\n{'GGTT' + 'ACGT'[:k + 1]}\n"
                with open(pth, "w") as f:
                    f.write(text)
                paths.append(pth)
            out = DataStoreSqlite(os.path.join(work, "out.sqlitedb"), mode="w")
            app = get_app("load_unaligned", format="fasta", moltype="dna") + get_app("write_db", data_store=out)
            app.apply_to(paths, logger=False, show_progress=False)
            out.close()
            ro = DataStoreSqlite(os.path.join(work, "out.sqlitedb"), mode="r")
            done = sorted(str(m.unique_id) for m in ro.completed)
            nc = sorted(str(m.unique_id) for m in ro.not_completed)
            reader = get_app("load_db")
            content = {str(m.unique_id): reader(m).to_dict() for m in ro.completed}
            ro.close()
            want = sorted(model_identifier(x) for x in (a, b))
            acc.outcome(("identifier pair", tuple(done)))
            if done != want or nc:
                acc.fail("two sources whose names differ only by suffix text inside the name do not end up as two completed records [sqlite store, write_db]",
                         case, {"completed": done, "not_completed": nc, "want": want})
            else:
                for k, nm in enumerate((a, b)):
                    if content[model_identifier(nm)] != {"s1": "ACGT"[k:] + "AACC", "s2": "GGTT" + "ACGT"[:k + 1]}:
                        acc.fail("a record holds another source's content [sqlite store, write_db]", case, {"id": model_identifier(nm), "got": content[model_identifier(nm)]})
        except Exception as e:  # noqa: BLE001
            acc.fail(f"writing two sources raised {type(e).__name__} [sqlite store, write_db]", case, {"error": str(e)[:200]})
        finally:
            shutil.rmtree(work, ignore_errors=True)
    acc.sample({"identifier_tokens": ID_TOKENS, "extensions": ID_EXTS, "pairs": ID_PAIRS}, "identifiers")


def shards(tier, seed):
    b = bounds(tier)
    out = [{"part": "passthrough"}, {"part": "falsy"}, {"part": "funcapp"}, {"part": "identifiers"}]
    if tier == "thorough":
        for store in b["stores"]:
            out.append({"part": "realpool", "ids": ["ba", "a", "c"], "vector": ["raise", "ok", "ok"], "store": store,
                        "delays": [[0, 0, 0], [0.6, 0, 0.3], [0, 0.6, 0.3], [0.3, 0.6, 0], [0.6, 0.3, 0], [0, 0.3, 0.6]]})
    for store in b["stores"]:
        for ids in b["id_sets"]:
            n = len(OUTCOMES) ** len(ids)
            chunks = 1 if n <= 36 else (6 if n <= 216 else 36)
            for c in range(chunks):
                out.append({"part": "sched", "ids": ids, "steps": 1, "store": store, "workers": b["workers"], "vector_chunk": [c, chunks]})
        for ids in b["two_step_sets"]:
            n = len(OUTCOMES) ** len(ids)
            chunks = 6 if n <= 36 else 36
            for c in range(chunks):
                out.append({"part": "sched", "ids": ids, "steps": 2, "store": store, "workers": b["workers"], "vector_chunk": [c, chunks]})
    return out


def run_shard(spec, acc):
    if spec["part"] == "funcapp":
        check_function_app(acc)
    elif spec["part"] == "falsy":
        check_falsy(acc)
    elif spec["part"] == "identifiers":
        check_identifiers(acc)
    elif spec["part"] == "passthrough":
        check_passthrough(acc)
    elif spec["part"] == "realpool":
        # pool workers are daemonic and may not start a process pool themselves: run the pass in a child interpreter
        import subprocess
        import sys

        r = subprocess.run([sys.executable, "-W", "ignore", "-m", "vf.props.c14_apps", json.dumps(spec)], capture_output=True, text=True, timeout=1800)
        try:
            res = json.loads(r.stdout.strip().splitlines()[-1])
        except Exception:  # noqa: BLE001
            acc.fail("harness: real-pool child did not report", {"validate_real_pool": True, **spec}, {"stdout": r.stdout[-300:], "stderr": r.stderr[-600:]})
            return
        for sig, case, detail in res["failures"]:
            acc.fail(sig, case, detail)
        for _ in range(res["cases"]):
            acc.case(None)
        acc.traces += res["traces"]
        acc.transitions += res["transitions"]
        for o in res["outcomes"]:
            acc.outcome(o)
        acc.count("real_pool_runs", res["runs"])
        for smp in res["samples"]:
            acc.sample(smp, "realpool")
    else:
        explore(dict(spec), acc)


def replay(case):
    from vf.kernel.runner import Acc

    base = tempfile.gettempdir()
    if case.get("validate_real_pool"):
        acc = Acc()
        validate_real_pool({"ids": case["ids"], "vector": case["vector"], "store": case["store"], "delays": [case["delays"]]}, acc)
        return [(s, r["cases"][0]["detail"]) for s, r in acc.failures.items()]
    if "function_app" in case:
        acc = Acc()
        check_function_app(acc)
        return [(s, r["cases"][0]["detail"]) for s, r in acc.failures.items()]
    if "identifiers" in case:
        acc = Acc()
        check_identifiers(acc)
        return [(s, r["cases"][0]["detail"]) for s, r in acc.failures.items()]
    if "falsy" in case:
        acc = Acc()
        check_falsy(acc)
        return [(s, r["cases"][0]["detail"]) for s, r in acc.failures.items()]
    if "passthrough" in case:
        acc = Acc()
        check_passthrough(acc)
        return [(s, r["cases"][0]["detail"]) for s, r in acc.failures.items()]
    if "vectors" not in case:
        # the reference run of one input on its own
        return [("reference run of the app on one input alone produced no completed record", {})
                for i in case["ids"] if single_reference(i, base) is None]
    ids, vectors, store = case["ids"], case["vectors"], case["store"]
    refs = {i: single_reference(i, base) for i in ids}
    sched = tuple(case["schedule"]) if case.get("schedule") is not None else None  # ("chunksize", n) survives as a tuple
    res = run_once(ids, vectors, store, sched, base)
    fails = judge(ids, vectors, store, sched, res, refs)
    if "compare_with" in case:
        other = case["compare_with"]
        res2 = run_once(ids, vectors, store, tuple(other) if other is not None else None, base)
        if final_store_key(res) != final_store_key(res2):
            fails.append((f"final store depends on the completion order [{store} store, {len(vectors)} generic step(s)" + ("; an input name has an interior dot]" if any("." in i for i in ids) else "]"), {"a": case["schedule"], "b": other}))
    return fails


LEVEL_TEXT = (
    "Schedule-exhaustive model checking of the real apply_to: the worker pool is replaced by a virtual executor that keeps the process boundary (pickling) "
    "and lets the explorer choose the completion order; every order admissible for 1-3 workers is run for every vector of per-record outcomes, both store classes, "
    "one and two generic steps, and compared with the serial run and with per-input reference runs. Completion-order bugs need a specific interleaving and a specific "
    "failure pattern at once, which a free-running test cannot force."
)
LEVEL_NOTE = (
    "Trusted: pickle as the model of the process boundary; tasks do not share state. A free-running pass with the real loky executor validates that real outcomes are "
    "among the explored ones (thorough tier). Up to 3 (quick) / 4 (thorough) inputs."
)


if __name__ == "__main__":
    import sys

    from vf.kernel.runner import Acc

    _spec = json.loads(sys.argv[1])
    _acc = Acc()
    validate_real_pool(_spec, _acc)
    print(json.dumps({
        "failures": [[sig, c["case"], c["detail"]] for sig, rec in _acc.failures.items() for c in rec["cases"][:1]],
        "cases": _acc.evaluations, "traces": _acc.traces, "transitions": _acc.transitions,
        "outcomes": sorted(_acc.outcomes), "runs": _acc.extra.get("real_pool_runs", 0), "samples": _acc.samples,
    }))
