"""C07 - incrementally recalculated likelihoods equal a fresh calculation.

K1 on two layers, both explored by the same engine (``Walker``): one *real*
object is driven through one long real history; every state is identified by a
content digest of everything later operations read, every operation of the
alphabet is executed from every state whose breadth-first distance from the
fresh object is below the depth bound, and moving between states only uses
transitions already executed (whose result key is re-verified) or a restart
from a fresh object along the shortest known history.

(a) Calculator:  ``lf.make_calculator()`` -> ``change([(i, v), ...])`` / ``calc(x)``
    over a finite lattice of optimiser values, incl. entries that do not change
    anything, exact / partial reverts of the previous step, and interruptions
    injected at three cells (raising ParameterOutOfBoundsError from ``cell.calc``).
    Oracle: a fresh calculator evaluated once at the same x.
(b) Parameter controller: set_param_rule scopes / kinds / values,
    set_motif_probs, set_alignment, updates_postponed blocks, optimise.
    Oracle: a plain record of the final settings -> a new likelihood function
    given exactly those settings; get_param_value; exported rules applied to a
    new function (lnL, nfp); make_calculator()(x) == lnL.
"""

from __future__ import annotations

import collections
import hashlib
import itertools
import math
import struct
import warnings

import numpy

PID = "C07"
LEVEL = "model_checking"
TECHNIQUE = "explicit-state exploration of calculator / likelihood-function histories on the real objects, states keyed by content digests, fresh-object oracle"
RULE = (
    "(a) per configuration (model, tree, free parameters, with/without undo) the complete closure (or depth-bounded ball) "
    "of calculator states under: every sub-assignment {absent | lattice value} of the free parameters via change(), every "
    "lattice point via calc(x), and single-parameter changes with an interruption injected at one of three cells; "
    "(b) every history up to the depth bound over set_param_rule(par x scope x kind x value), set_motif_probs, set_alignment, "
    "optimise and updates_postponed pairs. A transition = (canonical state, operation), executed once; states are merged "
    "only when the content key (all buffers, undo data, aliasing pattern / all settings, sharing pattern, all defn values) "
    "and the model value agree. Non-trivial = the operation changes at least one setting or is applied to a non-initial state."
)
ASSUMPTIONS = [
    "lnL values from an incremental and a fresh calculation are compared with |d| <= 1e-9 * (1 + |lnL|); a stale cell on the lattices used changes lnL by > 1e-3",
    "parameter values are compared with relative tolerance 1e-12 (means are summed in set order)",
    "the parameter continuum is replaced by a finite lattice of optimiser values (3 per free parameter, 2 in the widest configurations); nothing is claimed between lattice points",
    "interruptions are injected by wrapping cell.calc of the explored calculator (first cell depending on the last free parameter, first recycled cell, last cell) to raise ParameterOutOfBoundsError, the exception cogent3's own cells raise",
    "after optimise() the parameter values are read back from the likelihood function (the optimiser's trajectory is not modelled); the check is that lnL equals a new function given those values",
    "model of set_param_rule: scopes per independent_by_default, value None = mean of current values in scope, bounds = widest current bounds of non-constant settings else class defaults, value clipped into bounds",
]
EXHAUSTIVE = True
SHARD_TIMEOUT = {"quick": 900, "thorough": 3600}

LNL_TOL = 1e-9
VAL_RTOL = 1e-12


def bounds(tier):
    return {
        "quick": {"calculator": {"configs": len(calc_configs("quick")), "lattice_points_per_parameter": "3 (2 when 4 free)", "depth": "closure (cap 6000 states)"},
                  "controller": {"depth": 2, "operations": len(lf_ops())},
                  "fresh_history_selfcheck_depth": 2},
        "thorough": {"calculator": {"configs": len(calc_configs("thorough")), "lattice_points_per_parameter": 3, "depth": "closure (cap 40000 states)"},
                     "controller": {"depth": 2, "operations": len(lf_ops()), "depth_reduced_alphabet": 3,
                                    "operations_reduced_alphabet": len(lf_ops(reduced=True))},
                     "fresh_history_selfcheck_depth": 3},
    }[tier]


# ----------------------------------------------------------------------------- content digests
def _dig(h, v, depth=0):
    if type(v) is float:
        h.update(b"f" + struct.pack("<d", v))
    elif v is None or isinstance(v, (bool, int, str)):
        h.update(repr(v).encode())
    elif isinstance(v, (float, numpy.floating)):
        h.update(b"f" + struct.pack("<d", float(v)))
    elif isinstance(v, numpy.ndarray):
        h.update(b"a" + v.dtype.char.encode() + repr(v.shape).encode())
        h.update(v.tobytes() if v.dtype.char != "O" else repr(v.tolist()).encode())
    elif isinstance(v, (list, tuple)):
        h.update(f"l{len(v)}".encode())
        for x in v:
            _dig(h, x, depth + 1)
    elif isinstance(v, dict):
        h.update(f"d{len(v)}".encode())
        for k in sorted(v, key=repr):
            h.update(repr(k).encode())
            _dig(h, v[k], depth + 1)
    elif isinstance(v, (set, frozenset)):
        h.update(repr(sorted(v, key=repr)).encode())
    else:
        h.update(type(v).__name__.encode())
        if depth > 3:
            return
        names = list(getattr(v, "__dict__", {}) or [])
        for klass in type(v).__mro__:
            names.extend(getattr(klass, "__slots__", ()) or ())
        for n in sorted(set(names)):
            if n.startswith("__"):
                continue
            try:
                a = getattr(v, n)
            except AttributeError:
                continue
            if callable(a) and not isinstance(a, numpy.ndarray):
                continue
            h.update(n.encode())
            _dig(h, a, depth + 1)


def digest(v):
    h = hashlib.blake2b(digest_size=8)
    _dig(h, v)
    return h.digest()


def close(a, b, tol=LNL_TOL):
    try:
        a, b = float(a), float(b)
    except (TypeError, ValueError):
        return False
    if math.isnan(a) or math.isnan(b):
        return False
    if math.isinf(a) or math.isinf(b):
        return a == b  # a zero-probability alignment (-inf) must be -inf on both sides
    return abs(a - b) <= tol * (1 + abs(b))


# ----------------------------------------------------------------------------- generic walker
class Walker:
    """explore the state graph of one mutable object by walking it (see module docstring)"""

    def __init__(self, system, depth, acc, first_ops=None, max_states=None):
        self.s, self.depth, self.acc = system, depth, acc
        self.first_ops = first_ops  # restrict the operations applied to the initial state (sharding)
        self.max_states = max_states
        self.index, self.dist, self.parent = {}, [], []
        self.ops, self.trans, self.pending, self.info = [], [], [], []
        self.succ, self.pred = [], []
        self.open = set()
        self.capped = False

    # -- bookkeeping
    def _register(self, key, info, dist, parent):
        i = len(self.dist)
        self.index[key] = i
        self.dist.append(dist)
        self.parent.append(parent)
        ops = self.s.ops(info)
        self.ops.append(ops)
        pend = list(range(len(ops)))
        if i == 0 and self.first_ops is not None:
            pend = [k for k in pend if k in self.first_ops]
        self.pending.append(collections.deque(pend))
        self.trans.append({})
        self.succ.append({})
        self.pred.append({})
        self.info.append(info)
        if dist < self.depth and pend:
            self.open.add(i)
        return i

    def _relax(self, u, oi, v):
        if self.dist[u] + 1 < self.dist[v]:
            self.dist[v] = self.dist[u] + 1
            self.parent[v] = (u, oi)
            if self.dist[v] < self.depth and self.pending[v]:
                self.open.add(v)
            for oj, w in self.trans[v].items():
                self._relax(v, oj, w)

    def history(self, i):
        out = []
        while self.parent[i] is not None:
            u, oi = self.parent[i]
            out.append(self.ops[u][oi])
            i = u
        return out[::-1]

    def _path_ops(self, i):
        out = []
        while self.parent[i] is not None:
            u, oi = self.parent[i]
            out.append((u, oi))
            i = u
        return out[::-1]

    def _full_key(self, obj, info):
        return (self.s.key(obj), self.s.info_key(info))

    # -- main loop
    def run(self):
        s, acc = self.s, self.acc
        obj = s.fresh()
        info0 = s.initial_info(obj)
        cur = self._register(self._full_key(obj, info0), info0, 0, None)
        s.check_state(obj, info0, [], acc)
        while True:
            if cur in self.open:
                oi = self.pending[cur].popleft()
                if not self.pending[cur]:
                    self.open.discard(cur)
                op = self.ops[cur][oi]
                info = self.info[cur]
                obs = s.apply(obj, op)
                acc.transitions += 1
                acc.traces += 1
                acc.case(None, nontrivial=s.nontrivial(info, op, self.dist[cur]))
                info2 = s.model_step(info, op, obs, obj)
                hist_fn = (lambda c=cur: self.history(c))
                s.check_transition(obj, info, op, obs, info2, hist_fn, acc)
                key = self._full_key(obj, info2)
                nxt = self.index.get(key)
                if nxt is None:
                    if self.max_states and len(self.dist) >= self.max_states:
                        if not self.capped:
                            acc.count("caps_hit")
                            self.capped = True
                        # do not register further states: go back to a known one
                        obj, cur = self._restart_to_open()
                        if obj is None:
                            break
                        continue
                    nxt = self._register(key, info2, self.dist[cur] + 1, (cur, oi))
                    s.check_state(obj, info2, lambda n=nxt: self.history(n), acc)
                self.trans[cur][oi] = nxt
                self.succ[cur].setdefault(nxt, oi)
                self.pred[nxt].setdefault(cur, oi)
                self._relax(cur, oi, nxt)
                cur = nxt
                continue
            if not self.open:
                break
            path = self._navigate(cur)
            if path is None:
                obj, cur = self._restart_to_open()
                if obj is None:
                    break
                continue
            for u, oi in path:
                obj_ok = self._reexecute(obj, u, oi)
                if not obj_ok:
                    obj, cur = self._restart_to_open()
                    break
                cur = self.trans[u][oi]
            if obj is None:
                break
        for d in self.dist:
            acc.state(d)
        acc.count("restarts", 0)

    def _reexecute(self, obj, u, oi):
        """execute an already known transition again; the key reached must be the recorded one"""
        s, acc = self.s, self.acc
        op = self.ops[u][oi]
        obs = s.apply(obj, op)
        acc.traces += 1
        acc.count("reexecuted_transitions")
        info2 = s.model_step(self.info[u], op, obs, obj)
        want = self.trans[u][oi]
        got = self.index.get(self._full_key(obj, info2))
        if got != want:
            acc.fail("harness: re-executing a known transition reached a different state key (key incomplete or nondeterminism)",
                     {"kind": s.kind, "config": s.config, "hist": self.history(u), "op": op}, {"want_state": want, "got_state": got})
            return False
        return True

    def _navigate(self, cur):
        """shortest path of already executed transitions from cur to an open state, or None"""
        if not self.open:
            return None
        prev = {cur: None}
        queue = collections.deque([cur])
        budget = 20000
        while queue and budget > 0:
            u = queue.popleft()
            for v, oi in self.succ[u].items():
                if v in prev:
                    continue
                prev[v] = (u, oi)
                budget -= 1
                if v in self.open:
                    path = []
                    while prev[v] is not None:
                        u2, oj = prev[v]
                        path.append((u2, oj))
                        v = u2
                    return path[::-1]
                queue.append(v)
        return None

    def _restart_to_open(self):
        """fresh object, replay the shortest known history to the nearest open state"""
        while self.open:
            t = min(self.open, key=lambda i: (self.dist[i], i))
            obj = self.s.fresh()
            self.acc.count("restarts")
            ok = True
            for u, oi in self._path_ops(t):
                if not self._reexecute(obj, u, oi):
                    ok = False
                    break
            if ok:
                return obj, t
            self.open.discard(t)
        return None, None


# ============================================================================= (a) calculator
ALN4 = {"a": "ACGTACGGTTACCATG", "b": "ACGTACGATTACCGTG", "c": "ATGTGCGGCTACCATA", "d": "ATGTGCGGCTAACTTG"}
TREE4 = "((a:0.1,b:0.2)ab:0.05,c:0.3,d:0.2)"
ALN3 = {"a": "ACGTACGGTTACCATG", "b": "ACGTACGATTACCGTG", "c": "ATGTGCGGCTACCATA"}
ALN3B = {"a": "TTGTACGGATACCCTG", "b": "ACGAACGATTGCCGTG", "c": "ATGTGAGGCTACTATA"}
TREE3 = "(a:0.1,b:0.2,c:0.3)"


def calc_configs(tier):
    """(name, model, model kwargs, lf kwargs, free parameters [(par, edge or None)], values per parameter, with_undo)"""
    L3 = [None, 0.6, 1.7]  # None = the default value the calculator starts with
    K3 = [None, 2.5, 0.4]
    L2, K2 = L3[:2], K3[:2]
    S3 = [None, 0.5, 3.0]
    out = [
        {"name": "hky-kappa-ab", "model": "HKY85", "free": [["kappa", None], ["length", "ab"]], "vals": [K3, L3]},
        {"name": "hky-ab-c", "model": "HKY85", "free": [["length", "ab"], ["length", "c"]], "vals": [L3, L3]},
        {"name": "hky-a-b", "model": "HKY85", "free": [["length", "a"], ["length", "b"]], "vals": [L3, L3]},
        {"name": "hky-kappa-ab-c", "model": "HKY85", "free": [["kappa", None], ["length", "ab"], ["length", "c"]], "vals": [K2, L2, L2]},
        {"name": "hky-a-b-ab", "model": "HKY85", "free": [["length", "a"], ["length", "b"], ["length", "ab"]], "vals": [L2, L2, L2]},
        {"name": "hky-kappa-ab-noundo", "model": "HKY85", "free": [["kappa", None], ["length", "ab"]], "vals": [K3, L3], "with_undo": False},
        {"name": "gtrg-shape-AG-ab", "model": "GTR", "gamma": True, "free": [["rate_shape", None], ["A/G", None], ["length", "ab"]],
         "vals": [S3[:2], K2, L2]},
        {"name": "gtrg-shape-c", "model": "GTR", "gamma": True, "free": [["rate_shape", None], ["length", "c"]], "vals": [S3, L3]},
        {"name": "gn-AG-CT-a", "model": "GN", "free": [["A>G", None], ["C>T", None], ["length", "a"]], "vals": [K2, K2, L2]},
    ]
    if tier == "thorough":
        out += [
            {"name": "hky-kappa-ab-c-333", "model": "HKY85", "free": [["kappa", None], ["length", "ab"], ["length", "c"]], "vals": [K3, L3, L3]},
            {"name": "hky-a-b-ab-333", "model": "HKY85", "free": [["length", "a"], ["length", "b"], ["length", "ab"]], "vals": [L3, L3, L3]},
            {"name": "hky-4free", "model": "HKY85", "free": [["kappa", None], ["length", "a"], ["length", "ab"], ["length", "d"]],
             "vals": [K2, L2, L2, L2]},
            {"name": "gtrg-shape-AG-ab-333", "model": "GTR", "gamma": True, "free": [["rate_shape", None], ["A/G", None], ["length", "ab"]],
             "vals": [S3, K3, L3]},
            {"name": "gn-AG-CT-a-333", "model": "GN", "free": [["A>G", None], ["C>T", None], ["length", "a"]], "vals": [K3, K3, L3]},
            {"name": "hky-kappa-ab-c-noundo-333", "model": "HKY85", "free": [["kappa", None], ["length", "ab"], ["length", "c"]],
             "vals": [K3, L3, L3], "with_undo": False},
        ]
    return out


def build_lf4(cfg):
    from cogent3 import get_model, make_aligned_seqs, make_tree

    with warnings.catch_warnings():
        warnings.simplefilter("ignore")
        aln = make_aligned_seqs(ALN4, moltype="dna")
        tree = make_tree(TREE4)
        if cfg.get("gamma"):
            sm = get_model(cfg["model"], ordered_param="rate", distribution="gamma")
            lf = sm.make_likelihood_function(tree, bins=2)
        else:
            sm = get_model(cfg["model"])
            lf = sm.make_likelihood_function(tree)
        lf.set_alignment(aln)
        free = {(p, e) for p, e in map(tuple, cfg["free"])}
        free_names = {p for p, _ in free}
        # everything that is not listed as free becomes a constant
        for par in lf.get_param_names():
            if par == "length":
                for edge in ("a", "b", "ab", "c", "d"):
                    if (par, edge) not in free:
                        lf.set_param_rule(par, edge=edge, is_constant=True)
            elif par not in free_names:
                try:
                    lf.set_param_rule(par, is_constant=True)
                except Exception:  # noqa: BLE001 - derived / non-settable parameters
                    pass
    return lf


class CalcSystem:
    kind = "calc"

    def __init__(self, cfg):
        self.config = cfg
        self.lf = build_lf4(cfg)
        self._lf_lnl = float(self.lf.lnL)
        self.with_undo = cfg.get("with_undo", True)
        probe = self._make()
        self.n = len(probe.opt_pars)
        x0 = [float(v) for v in probe.get_value_array()]
        # lattice in optimiser coordinates, matched to the calculator's parameter order
        order = self._match(probe, cfg)
        self.lattice = []
        for i in range(self.n):
            vals = cfg["vals"][order[i]]
            par = probe.opt_pars[i]
            row = []
            for v in vals:
                if v is None:
                    row.append(x0[i])
                else:
                    row.append(float(par.transform_to_optimiser(v)) if type(par).__name__ == "LogOptPar" else float(v))
            self.lattice.append(row)
        names = [c.name for c in probe._cells]
        var = [c.rank for c in probe._cells if not c.is_constant]
        self.var_ranks = var
        # interruption points: the first cell recomputed when the last optimisable parameter changes,
        # the first recycled cell, the last cell
        fault_ranks = [min(probe.opt_pars[-1].consequences)]
        if probe.recycled_cells:
            fault_ranks.append(probe.recycled_cells[0])
        fault_ranks.append(len(probe._cells) - 1)
        self.fault_ranks = fault_ranks
        self.fault = {"rank": None, "fired": False}
        self.oracle = {}
        self._ops = self._build_ops()

    def _match(self, calc, cfg):
        """index into cfg['free'] for each opt par of the calculator"""
        free = [tuple(x) for x in cfg["free"]]
        order = []
        used = set()
        for par in calc.opt_pars:
            pick = None
            for j, (p, e) in enumerate(free):
                if j in used:
                    continue
                base = p
                if par.name == base or par.name.startswith(base):
                    if e is None or any(e in (s if isinstance(s, tuple) else (s,)) for s in (par.scope or [])):
                        pick = j
                        break
            if pick is None:
                raise RuntimeError(f"cannot match optimisable parameter {par.name} {par.scope} to {free}")
            used.add(pick)
            order.append(pick)
        if len(order) != len(free):
            raise RuntimeError(f"calculator has {len(order)} optimisable parameters, configuration lists {len(free)}")
        return order

    def _make(self):
        with warnings.catch_warnings():
            warnings.simplefilter("ignore")
            return self.lf.make_calculator(with_undo=self.with_undo) if not self.with_undo else self.lf.make_calculator()

    # -- walker interface
    def fresh(self):
        from cogent3.maths.optimisers import ParameterOutOfBoundsError

        calc = self._make()
        fault = self.fault

        def wrap(f, rank):
            def g(*a):
                if fault["rank"] == rank:
                    fault["fired"] = True
                    raise ParameterOutOfBoundsError("injected")
                return f(*a)

            return g

        for r in self.fault_ranks:
            cell = calc._cells[r]
            cell.calc = wrap(cell.calc, r)
        return calc

    def initial_info(self, calc):
        return tuple([0] * self.n)

    def info_key(self, info):
        return info

    def _build_ops(self):
        ops = []
        choices = [[None] + list(range(len(row))) for row in self.lattice]
        for combo in itertools.product(*choices):
            ch = [[i, v] for i, v in enumerate(combo) if v is not None]
            ops.append(["change", ch, None])
        for x in itertools.product(*[range(len(row)) for row in self.lattice]):
            ops.append(["call", list(x), None])
        if not self.with_undo:
            # without the second buffer an interrupted calculation cannot be rolled back (by construction):
            # interruptions are only injected into calculators with undo
            return ops
        for i, row in enumerate(self.lattice):
            for v in range(len(row)):
                for fr in range(len(self.fault_ranks)):
                    ops.append(["change", [[i, v]], fr])
        # a two-parameter change interrupted at the last cell
        if self.n >= 2:
            for v0 in range(len(self.lattice[0])):
                for v1 in range(len(self.lattice[1])):
                    ops.append(["change", [[0, v0], [1, v1]], len(self.fault_ranks) - 1])
        return ops

    def ops(self, info):
        return self._ops

    def nontrivial(self, info, op, dist):
        if op[0] == "call":
            return tuple(op[1]) != tuple(info) or dist > 0
        return any(info[i] != v for i, v in op[1]) or dist > 0

    def apply(self, calc, op):
        kind, arg, fr = op
        self.fault["rank"] = None if fr is None else self.fault_ranks[fr]
        self.fault["fired"] = False
        try:
            if kind == "change":
                r = calc.change([(i, self.lattice[i][v]) for i, v in arg])
            else:
                r = calc([self.lattice[i][v] for i, v in enumerate(arg)])
            obs = ("ok", float(r))
        except Exception as ex:  # noqa: BLE001 - outcomes
            obs = ("raised", type(ex).__name__, str(ex)[:60])
        finally:
            self.fault["rank"] = None
        return obs + (self.fault["fired"],)

    def model_step(self, info, op, obs, calc):
        if obs[0] != "ok":
            # An interrupted calculation cancels the step.  cogent3 may already have taken back the previous
            # step (its one-deep undo) before the remaining changes were cancelled, so each input is allowed
            # to be either where it was or where the cancelled step wanted it; which one is read back.
            if op[0] == "change":
                req = dict((i, v) for i, v in op[1])
            else:
                req = dict(enumerate(op[1]))
            got = [float(v) for v in calc.get_value_array()]
            x = list(info)
            for i, v in req.items():
                if v != info[i] and close(got[i], self.lattice[i][v], VAL_RTOL) and not close(got[i], self.lattice[i][info[i]], VAL_RTOL):
                    x[i] = v
            return tuple(x)
        x = list(info)
        if op[0] == "change":
            for i, v in op[1]:
                x[i] = v
        else:
            x = list(op[1])
        return tuple(x)

    def want(self, info):
        if info not in self.oracle:
            with warnings.catch_warnings():
                warnings.simplefilter("ignore")
                fresh = self.lf.make_calculator()
                self.oracle[info] = float(fresh([self.lattice[i][v] for i, v in enumerate(info)]))
        return self.oracle[info]

    def key(self, calc):
        """content key.  The buffer that is not in force is read by change() only on its undo path, which
        is guarded by a non-empty last_undo; when last_undo is empty it is overwritten (data[:] = base[:])
        before any cell reads it, so it is left out of the key then.  Arrays parked in `spare` are scratch
        space handed to recycling cells, identified by their aliasing pattern only."""
        act = int(bool(calc._switch)) if len(calc.cell_values) > 1 else 0
        bufs = []
        for bi, buf in enumerate(calc.cell_values):
            if bi != act and not calc.last_undo:
                bufs.append(None)
                continue
            h = hashlib.blake2b(digest_size=8)
            for r in self.var_ranks:
                _dig(h, buf[r])
            bufs.append(h.digest())
        alias = []
        for r in calc.recycled_cells:
            objs = [b[r] for b in calc.cell_values] + [calc.spare[r]]
            pat, seen = [], []
            for o in objs:
                if o is None:
                    pat.append(-1)
                    continue
                for j, p in enumerate(seen):
                    if p is o:
                        pat.append(j)
                        break
                else:
                    seen.append(o)
                    pat.append(len(seen) - 1)
            alias.append(tuple(pat))
        return (
            bool(calc._switch),
            tuple(float(v) for v in calc.last_values),
            tuple((int(i), float(v)) for i, v in calc.last_undo),
            tuple(bufs),
            tuple(alias),
        )

    def _cls(self, info, op, obs):
        """structural class of a transition for signatures (kept coarse: one defect, few signatures)"""
        kind, arg, fr = op
        parts = ["interrupted step" if fr is not None else "completed step"]
        if not self.with_undo:
            parts.append("with_undo=False")
        return ", ".join(parts)

    def _opname(self, op):
        return "Calculator.change" if op[0] == "change" else "Calculator.__call__"

    def check_transition(self, calc, info, op, obs, info2, hist_fn, acc):
        cfg = self.config
        case = None

        def fail(what, got, want):
            nonlocal case
            if case is None:
                case = {"kind": "calc", "config": cfg, "hist": hist_fn(), "op": op}
            acc.fail(f"{self._opname(op)}: {what} [{self._cls(info, op, obs)}]", case,
                     {"got": got, "want": want, "x_before": list(info), "x_after": list(info2)})

        fired = obs[-1]
        want = self.want(info2)
        if all(v == 0 for v in info2) and not close(want, self._lf_lnl):
            # the calculator route and the function's own route are two evaluations of the same settings
            fail("a fresh calculator at the function's current values differs from the lnL the function reports", want, self._lf_lnl)
        if obs[0] == "ok":
            if fired:
                fail("returned a value although a cell raised ParameterOutOfBoundsError", obs[1], "exception")
            elif not close(obs[1], want):
                fail("returned value differs from a fresh calculator at the same x", obs[1], want)
        else:
            if not (fired and obs[1] == "ParameterOutOfBoundsError"):
                fail(f"raised {obs[1]}", obs[2], want)
        xs = [self.lattice[i][v] for i, v in enumerate(info2)]
        got_x = [float(v) for v in calc.get_value_array()]
        if not all(close(a, b, VAL_RTOL) for a, b in zip(got_x, xs)):
            fail("get_value_array differs from the inputs in force", got_x, xs)
        lv = [float(v) for v in calc.last_values]
        if not all(close(a, b, VAL_RTOL) for a, b in zip(lv, xs)):
            fail("last_values differs from the inputs in force", lv, xs)
        tf = float(calc.testfunction())
        if not close(tf, want):
            fail("testfunction() differs from a fresh calculator at the inputs in force", tf, want)
        acc.outcome(("calc", obs[0], obs[1] if obs[0] != "ok" else round(obs[1], 6), fired, bool(calc._switch), len(calc.last_undo)))

    def check_state(self, calc, info, hist, acc):
        pass


def replay_calc(case, acc):
    s = CalcSystem(case["config"])
    calc = s.fresh()
    info = s.initial_info(calc)
    for op in case["hist"]:
        obs = s.apply(calc, op)
        info = s.model_step(info, op, obs, calc)
    op = case["op"]
    obs = s.apply(calc, op)
    info2 = s.model_step(info, op, obs, calc)
    s.check_transition(calc, info, op, obs, info2, lambda: case["hist"], acc)


def fresh_histories(cfg, depth, acc, chunk, of):
    """self-check without any state merging: every history of the given depth over a reduced alphabet,
    each executed on its own fresh calculator"""
    s = CalcSystem(cfg)
    ops = [o for o in s._ops if o[0] == "change" and len(o[1]) <= 1 and o[2] in (None, len(s.fault_ranks) - 1)]
    ops += [o for o in s._ops if o[0] == "call"][:: max(1, len(s.lattice[0]))]
    ops += [o for o in s._ops if o[0] == "change" and len(o[1]) == s.n and o[2] is None][::5]
    n = 0
    for hi, hist in enumerate(itertools.product(range(len(ops)), repeat=depth)):
        if hi % of != chunk:
            continue
        calc = s.fresh()
        info = s.initial_info(calc)
        done = []
        for oi in hist:
            op = ops[oi]
            obs = s.apply(calc, op)
            info2 = s.model_step(info, op, obs, calc)
            acc.traces += 1
            s.check_transition(calc, info, op, obs, info2, lambda d=done: list(d), acc)
            done.append(op)
            info = info2
        n += 1
        acc.case(None, nontrivial=True)
    acc.count("fresh_histories_without_merging", n)


# ============================================================================= (b) parameter controller
EDGES3 = ("a", "b", "c")
SCOPES = {"all": None, "edge:a": ["a"], "edges:a,b": ["a", "b"], "edges:b,c": ["b", "c"]}
PAR_DEFAULTS = {"kappa": {"ibd": False, "lower": 1e-6, "upper": 1e6, "vals": [2.0, 0.5], "big": (2e6, 1e7), "bnd": (3.0, 2.0)},
                "length": {"ibd": True, "lower": 0.0, "upper": 10.0, "vals": [0.0, 1.3], "big": (15.0, 20.0), "bnd": (0.5, 0.3)}}  # v0 sits on the lower bound: exported rules carry init=0.0
MPROBS = [{"T": 0.1, "C": 0.2, "A": 0.3, "G": 0.4}, {"T": 0.4, "C": 0.3, "A": 0.2, "G": 0.1}]
# lower_hi / upper_lo: a new lower bound above / a new upper bound below ("bnd"); the two conflict, so a rule that spans several
# scopes can be legal for some of them and refused (ValueError) for another - a refused rule must change nothing
KINDS = ("const_v0", "const_v1", "const_cur", "init_v0", "init_v1", "indep", "shared", "init_big", "lower_hi", "upper_lo")


class Refused(Exception):
    pass


REDUCED_SCOPES = ("all", "edge:a", "edges:a,b")
REDUCED_KINDS = ("const_v0", "const_cur", "init_v1", "indep", "shared", "init_big", "lower_hi", "upper_lo")


def lf_ops(reduced=False):
    """the operation alphabet of the controller layer; `reduced` = the smaller alphabet used for the deeper search"""
    ops = []
    for par in ("kappa", "length"):
        for scope in (REDUCED_SCOPES if reduced else SCOPES):
            for kind in (REDUCED_KINDS if reduced else KINDS):
                ops.append(["rule", par, scope, kind])
    ops.append(["calc_step"])
    if reduced:
        ops += [["mprobs", 1], ["aln", 1], ["optimise"]]
        menu = [["rule", "kappa", "all", "init_v1"], ["rule", "length", "edges:a,b", "shared"]]
    else:
        ops += [["mprobs", 0], ["mprobs", 1], ["aln", 0], ["aln", 1], ["optimise"]]
        menu = [["rule", "kappa", "all", "init_v1"], ["rule", "length", "edge:a", "const_v0"], ["rule", "length", "edges:a,b", "shared"],
                ["rule", "kappa", "edge:a", "init_v0"], ["mprobs", 1], ["aln", 1]]
    for a in menu:
        for b in menu:
            ops.append(["postponed", a, b])
    # a batch that fails part way through its end-of-batch recalculation (a good rule plus an alignment the model cannot
    # convert), after which the user sets a valid alignment again
    for k in ((1,) if reduced else (0, 1)):
        ops.append(["failed_batch", menu[0], k])
        ops.append(["failed_batch", menu[1], k])
    return ops


def aln_freqs(seqs):
    text = "".join(seqs.values())
    n = len(text)
    return {b: text.count(b) / n for b in "TCAG"}


class LfSystem:
    kind = "lf"

    def __init__(self, cfg=None):
        self.config = cfg or {}
        self._ops = lf_ops(reduced=bool(self.config.get("reduced")))
        self._alns = None

    def _parts(self):
        from cogent3 import get_model, make_aligned_seqs, make_tree

        if self._alns is None:
            self._alns = [make_aligned_seqs(ALN3, moltype="dna"), make_aligned_seqs(ALN3B, moltype="dna")]
            self._tree = make_tree(TREE3)
            self._sm = get_model("HKY85")
            # same names, but characters a nucleotide model cannot convert
            self._bad = make_aligned_seqs({k: "EFL" + v[3:] for k, v in ALN3.items()}, moltype="protein")
        return self._sm, self._tree, self._alns

    def fresh(self):
        sm, tree, alns = self._parts()
        with warnings.catch_warnings():
            warnings.simplefilter("ignore")
            lf = sm.make_likelihood_function(tree)
            lf.set_alignment(alns[0])
        return lf

    # ---- model: plain record of the settings
    def initial_info(self, lf):
        info = {"aln": 0, "mprobs": aln_freqs(ALN3), "auto": True, "next_gid": 0, "pars": {}}
        gid = 0
        for par, d in PAR_DEFAULTS.items():
            rec = {}
            if d["ibd"]:
                # lengths start from the tree
                start = {"a": 0.1, "b": 0.2, "c": 0.3}
                for e in EDGES3:
                    rec[e] = {"g": gid, "v": start[e], "const": False, "lo": d["lower"], "up": d["upper"]}
                    gid += 1
            else:
                for e in EDGES3:
                    rec[e] = {"g": gid, "v": 1.0, "const": False, "lo": d["lower"], "up": d["upper"]}
                gid += 1
            info["pars"][par] = rec
        info["next_gid"] = gid
        return info

    def info_key(self, info):
        def canon(rec):
            # group ids renumbered by first occurrence
            m = {}
            out = []
            for e in EDGES3:
                s = rec[e]
                g = m.setdefault(s["g"], len(m))
                out.append((g, round(s["v"], 12), s["const"], s["lo"] if not s["const"] else None, s["up"] if not s["const"] else None))
            return tuple(out)

        return (info["aln"], tuple(round(info["mprobs"][b], 12) for b in "TCAG"), info["auto"],
                tuple((p, canon(info["pars"][p])) for p in sorted(info["pars"])))

    def ops(self, info):
        return self._ops

    def nontrivial(self, info, op, dist):
        return True

    def _apply_one(self, lf, op):
        _, _, alns = self._parts()
        if op[0] == "rule":
            _, par, scope, kind = op
            d = PAR_DEFAULTS[par]
            kw = {}
            edges = SCOPES[scope]
            if edges is not None:
                if len(edges) == 1:
                    kw["edge"] = edges[0]
                else:
                    kw["edges"] = list(edges)
            if kind.startswith("const_v"):
                kw.update(is_constant=True, value=d["vals"][int(kind[-1])])
            elif kind == "const_cur":
                kw.update(is_constant=True)
            elif kind.startswith("init_v"):
                kw.update(init=d["vals"][int(kind[-1])])
            elif kind == "indep":
                kw.update(is_independent=True)
            elif kind == "shared":
                kw.update(is_independent=False)
            elif kind == "init_big":
                kw.update(init=d["big"][0], upper=d["big"][1])
            elif kind == "lower_hi":
                kw.update(lower=d["bnd"][0])
            elif kind == "upper_lo":
                kw.update(upper=d["bnd"][1])
            lf.set_param_rule(par, **kw)
        elif op[0] == "mprobs":
            lf.set_motif_probs(dict(MPROBS[op[1]]))
        elif op[0] == "aln":
            lf.set_alignment(alns[op[1]])
        elif op[0] == "optimise":
            lf.optimise(local=True, max_evaluations=6, limit_action="ignore", show_progress=False)
        elif op[0] == "calc_step":
            # what an optimiser does, spelled out: a calculator is made, every input is moved (by a different amount each,
            # inside its bounds), the calculator's value is taken and the inputs are copied back into the function
            import numpy

            calc = lf.make_calculator()
            x = numpy.array(calc.get_value_array(), float)
            if len(x):
                lo, up = (numpy.array(v, float) for v in calc.get_bounds_vectors())
                step = 0.05 * (1 + numpy.arange(len(x)))
                x2 = numpy.where(x + step <= up, x + step, numpy.where(x - step >= lo, x - step, x))
                self._calc_lnl = float(calc(x2))
                lf.update_from_calculator(calc)
            else:
                self._calc_lnl = None
        else:
            raise ValueError(op)

    def apply(self, lf, op):
        try:
            with warnings.catch_warnings():
                warnings.simplefilter("ignore")
                if op[0] == "postponed":
                    with lf.updates_postponed():
                        self._apply_one(lf, op[1])
                        self._apply_one(lf, op[2])
                elif op[0] == "failed_batch":
                    try:
                        with lf.updates_postponed():
                            self._apply_one(lf, op[1])
                            lf.set_alignment(self._bad)
                    except Exception:  # noqa: BLE001 - the expected failure of the batch
                        pass
                    else:
                        return ("raised", "NoError", "an alignment the model cannot convert was accepted")
                    self._apply_one(lf, ["aln", op[2]])
                else:
                    self._apply_one(lf, op)
            return ("ok",)
        except Exception as ex:  # noqa: BLE001
            return ("raised", type(ex).__name__, str(ex)[:100])

    def _model_one(self, info, op, lf):
        if op[0] == "rule":
            _, par, scope, kind = op
            d = PAR_DEFAULTS[par]
            rec = info["pars"][par]
            edges = list(SCOPES[scope] or EDGES3)
            if kind == "indep":
                independent = True
            elif kind == "shared":
                independent = False
            else:
                independent = d["ibd"]
            groups = [[e] for e in edges] if independent else [edges]
            const = kind.startswith("const")
            value = None
            lower = upper = None
            if kind.startswith("const_v") or kind.startswith("init_v"):
                value = d["vals"][int(kind[-1])]
            elif kind == "init_big":
                value, upper = d["big"]
            elif kind == "lower_hi":
                lower = d["bnd"][0]
            elif kind == "upper_lo":
                upper = d["bnd"][1]
            new = []
            for g in groups:
                v = value if value is not None else sum(rec[e]["v"] for e in g) / len(g)
                if const:
                    s = {"v": v, "const": True, "lo": None, "up": None}
                else:
                    los = [rec[e]["lo"] for e in g if not rec[e]["const"]]
                    ups = [rec[e]["up"] for e in g if not rec[e]["const"]]
                    lo = min(los) if los else d["lower"]
                    up = max(ups) if ups else d["upper"]
                    if lower is not None:
                        lo = lower
                    if upper is not None:
                        up = upper
                    if lo > up:
                        raise Refused(f"{par}: upper < lower for {g}")  # nothing of the rule is applied
                    v = min(max(v, lo), up)
                    s = {"v": v, "const": False, "lo": lo, "up": up}
                new.append((g, s))
            for g, s in new:
                gid = info["next_gid"]
                info["next_gid"] += 1
                for e in g:
                    rec[e] = dict(s, g=gid)
        elif op[0] == "mprobs":
            info["mprobs"] = dict(MPROBS[op[1]])
            info["auto"] = False
        elif op[0] == "aln":
            info["aln"] = op[1]
            if info["auto"]:
                info["mprobs"] = aln_freqs([ALN3, ALN3B][op[1]])
        elif op[0] in ("optimise", "calc_step"):
            # values are read back (the trajectory of the optimiser is not modelled)
            for par, rec in info["pars"].items():
                for e in EDGES3:
                    if not rec[e]["const"]:
                        rec[e]["v"] = float(lf.get_param_value(par, edge=e))

    def expects_refusal(self, info, op):
        import copy

        if op[0] != "rule" or op[3] not in ("lower_hi", "upper_lo"):
            return False
        try:
            self._model_one(copy.deepcopy(info), op, None)
        except Refused:
            return True
        return False

    def model_step(self, info, op, obs, lf):
        import copy

        if obs[0] != "ok":
            return info
        if self.expects_refusal(info, op):
            return info  # judged in check_transition; the model does not follow an accepted illegal rule
        info = copy.deepcopy(info)
        if op[0] == "postponed":
            self._model_one(info, op[1], lf)
            self._model_one(info, op[2], lf)
        elif op[0] == "failed_batch":
            self._model_one(info, op[1], lf)
            self._model_one(info, ["aln", op[2]], lf)
        else:
            self._model_one(info, op, lf)
        return info

    # ---- content key of the real object
    def key(self, lf):
        h = hashlib.blake2b(digest_size=12)
        h.update(repr((bool(lf._update_suspended), len(lf._changed), bool(lf.mprobs_from_alignment))).encode())
        for defn in lf.defns:
            h.update(defn.name.encode())
            assignments = getattr(defn, "assignments", {})
            seen = []
            for scope_t in sorted(assignments, key=repr):
                st = assignments[scope_t]
                h.update(repr(scope_t).encode())
                if isinstance(st, tuple) or st is None:
                    h.update(repr(st).encode())
                    continue
                for j, p in enumerate(seen):
                    if p is st:
                        h.update(f"=g{j}".encode())
                        break
                else:
                    seen.append(st)
                    h.update(type(st).__name__.encode())
                    _dig(h, getattr(st, "value", None))
                    _dig(h, getattr(st, "lower", None))
                    _dig(h, getattr(st, "upper", None))
            if defn.name not in ("alignment", "model", "lht", "leaf_likelihoods", "root", "col_index"):
                _dig(h, getattr(defn, "values", None))
            else:
                vals = getattr(defn, "values", None)
                h.update(repr(len(vals) if vals is not None else None).encode())
        return h.digest()

    # ---- oracle
    def oracle_lf(self, info):
        sm, tree, alns = self._parts()
        with warnings.catch_warnings():
            warnings.simplefilter("ignore")
            lf = sm.make_likelihood_function(tree)
            lf.set_alignment(alns[info["aln"]])
            lf.set_motif_probs(dict(info["mprobs"]))
            for par, rec in info["pars"].items():
                for e in EDGES3:
                    lf.set_param_rule(par, edge=e, is_constant=True, value=rec[e]["v"])
        return lf

    def want_nfp(self, info):
        n = 0
        for par, rec in info["pars"].items():
            n += len({rec[e]["g"] for e in EDGES3 if not rec[e]["const"]})
        return n

    def _cls(self, op):
        """coarse class of the last operation of a history (one defect, few signatures)"""
        if op is None:
            return "initial state"
        return {"rule": "set_param_rule", "mprobs": "set_motif_probs", "aln": "set_alignment", "optimise": "optimise", "calc_step": "update_from_calculator",
                "postponed": "updates_postponed block", "failed_batch": "updates_postponed block that failed, then a valid alignment"}[op[0]]

    def check_transition(self, lf, info, op, obs, info2, hist_fn, acc):
        refusal = self.expects_refusal(info, op)
        if obs[0] != "ok" and refusal and obs[1] == "ValueError":
            acc.outcome(("lf", "rule refused as expected"))
        elif obs[0] == "ok" and refusal:
            acc.fail("likelihood function: a rule whose upper bound lies below the lower bound of one of its scopes was accepted",
                     {"kind": "lf", "config": self.config, "hist": hist_fn(), "op": op}, {})
        elif obs[0] != "ok" and op[0] in ("optimise", "calc_step") and obs[1] == "ValueError" and "finite" in obs[2]:
            # all lengths held at zero with differing sequences: lnL is -inf and the optimiser refuses to start (documented)
            acc.outcome(("lf", "optimise refused: lnL not finite"))
        elif obs[0] != "ok":
            acc.fail(f"likelihood function: {self._cls(op)} raised {obs[1]}",
                     {"kind": "lf", "config": self.config, "hist": hist_fn(), "op": op}, {"error": obs[2]})
        acc.outcome(("lf", op[0], obs[0], op[3] if op[0] == "rule" else None))
        if op[0] == "calc_step" and obs[0] == "ok" and getattr(self, "_calc_lnl", None) is not None:
            got = float(lf.lnL)
            if not close(got, self._calc_lnl):
                acc.fail("likelihood function: lnL after update_from_calculator differs from the value the calculator reported for the inputs copied back",
                         {"kind": "lf", "config": self.config, "hist": hist_fn(), "op": op}, {"lf": got, "calculator": self._calc_lnl})
        self._last_op = op

    def check_state(self, lf, info, hist, acc):
        """all oracles on a newly reached state"""
        hist = hist() if callable(hist) else hist
        op = hist[-1] if hist else None
        case = {"kind": "lf", "config": self.config, "hist": hist[:-1] if hist else [], "op": op}
        cls = self._cls(op)

        def fail(what, got, want):
            # a state is judged, not the step that led to it: the signature names the observable only
            acc.fail(f"likelihood function: {what}", case, {"got": got, "want": want, "last_operation": cls})

        with warnings.catch_warnings():
            warnings.simplefilter("ignore")
            try:
                lnl = float(lf.lnL)
            except Exception as ex:  # noqa: BLE001
                fail(f"lnL raised {type(ex).__name__}", str(ex)[:100], None)
                return
            fresh = self.oracle_lf(info)
            want = float(fresh.lnL)
            if not close(lnl, want):
                fail("lnL differs from a new function given the same final settings", lnl, want)
            # (ii) parameter values
            for par, rec in info["pars"].items():
                for e in EDGES3:
                    try:
                        got = float(lf.get_param_value(par, edge=e))
                    except Exception as ex:  # noqa: BLE001
                        got = f"{type(ex).__name__}: {ex}"
                    if not close(got, rec[e]["v"], VAL_RTOL):
                        fail(f"get_param_value({par}) differs from the recorded setting", [e, got], rec[e]["v"])
                        break
            mp = lf.get_motif_probs()
            for b in "TCAG":
                if not close(float(mp[b]), info["mprobs"][b], 1e-9):
                    fail("motif probs differ from the recorded setting", {x: float(mp[x]) for x in "TCAG"}, info["mprobs"])
                    break
            # nfp
            nfp = lf.get_num_free_params()
            if nfp != self.want_nfp(info):
                fail("number of free parameters differs from the recorded settings", nfp, self.want_nfp(info))
            # (iii) exported rules
            try:
                rules = lf.get_param_rules()
                sm, tree, alns = self._parts()
                new = sm.make_likelihood_function(tree)
                new.set_alignment(alns[info["aln"]])
                new.apply_param_rules(rules)
                got_lnl, got_nfp = float(new.lnL), new.get_num_free_params()
                if not close(got_lnl, lnl):
                    fail("exported rules applied to a new function give a different lnL", got_lnl, lnl)
                if got_nfp != nfp:
                    fail("exported rules applied to a new function give a different nfp", got_nfp, nfp)
            except Exception as ex:  # noqa: BLE001
                fail(f"exporting / applying parameter rules raised {type(ex).__name__}", str(ex)[:150], None)
            # (iv) calculator
            try:
                calc = lf.make_calculator()
                v = float(calc(calc.get_value_array()))
                if not close(v, lnl):
                    fail("make_calculator()(current x) differs from lnL", v, lnl)
            except Exception as ex:  # noqa: BLE001
                fail(f"make_calculator raised {type(ex).__name__}", str(ex)[:150], None)
        acc.outcome(("lfstate", round(lnl, 4), nfp))


def replay_lf(case, acc):
    s = LfSystem(case.get("config"))
    lf = s.fresh()
    info = s.initial_info(lf)
    hist = list(case["hist"]) + ([case["op"]] if case.get("op") is not None else [])
    done = []
    for op in hist:
        obs = s.apply(lf, op)
        info2 = s.model_step(info, op, obs, lf)
        s.check_transition(lf, info, op, obs, info2, lambda d=done: list(d), acc)
        done.append(op)
        info = info2
    s.check_state(lf, info, done, acc)


# ----------------------------------------------------------------------------- shards
def shards(tier, seed):
    out = []
    for cfg in calc_configs(tier):
        out.append({"part": "calc", "config": cfg, "max_states": 6000 if tier == "quick" else 40000})
    depth = 2 if tier == "quick" else 3
    of = 32 if tier == "quick" else 64
    small = calc_configs("quick")[0]
    for c in range(of):
        out.append({"part": "fresh", "config": small, "depth": depth, "chunk": c, "of": of})
    # controller layer: every history of depth 2 over the full alphabet; thorough adds depth 3 over the reduced alphabet.
    # A shard = the histories starting with a subset of the first operations.
    k = 48
    for c in range(k):
        out.append({"part": "lf", "depth": 2, "chunk": c, "of": k, "reduced": False})
    if tier == "thorough":
        k = len(lf_ops(reduced=True))
        for c in range(k):
            out.append({"part": "lf", "depth": 3, "chunk": c, "of": k, "reduced": True})
    return out


def run_shard(spec, acc):
    if spec["part"] == "calc":
        s = CalcSystem(spec["config"])
        w = Walker(s, depth=10**9, acc=acc, max_states=spec["max_states"])
        w.run()
        acc.sample({"layer": "calculator", "config": spec["config"]["name"], "states": len(w.dist), "max_bfs_depth": max(w.dist),
                    "lattice": s.lattice, "operations_per_state": len(s._ops)}, "calc")
    elif spec["part"] == "fresh":
        fresh_histories(spec["config"], spec["depth"], acc, spec["chunk"], spec["of"])
    else:
        s = LfSystem({"reduced": bool(spec.get("reduced"))})
        first = {i for i in range(len(s._ops)) if i % spec["of"] == spec["chunk"]}
        w = Walker(s, depth=spec["depth"], acc=acc, first_ops=first, max_states=20000)
        w.run()
        acc.sample({"layer": "controller", "first_operations": [s._ops[i] for i in sorted(first)][:3], "states": len(w.dist)}, "lf")


def replay(case):
    from vf.kernel.runner import Acc

    acc = Acc()
    if case.get("kind") == "calc":
        replay_calc(case, acc)
    elif case.get("kind") == "lf":
        replay_lf(case, acc)
    return [(sig, rec["cases"][0]["detail"]) for sig, rec in acc.failures.items()]


LEVEL_TEXT = (
    "Explicit-state model checking of the two cache layers on the real objects. For each calculator configuration the complete "
    "set of reachable states (content of both value buffers, undo record, switch, aliasing of recycled arrays) is explored and "
    "every change-vector of the lattice (single, multiple, reverting, partially reverting, with no-change entries, interrupted) "
    "is executed from every state and compared with a fresh calculator; for the parameter controller every history of rule / "
    "motif-probability / alignment / postponed-block / optimise operations up to the depth bound is executed and every reached "
    "state compared with a new likelihood function given the recorded final settings, and with one rebuilt from its exported rules. "
    "History-dependence is exactly what a state graph exposes; the bounds are small because the caches are one step deep."
)
LEVEL_NOTE = (
    "Trusted: a fresh calculator / fresh likelihood function as the reference value (their first-principles correctness is C02's subject), "
    "the ~60-line record model of set_param_rule, blake2 content digests as state identity (re-verified whenever a known transition is "
    "re-executed, plus a merge-free self-check on fresh calculators). Values only on the stated lattices; two tree sizes; HKY85, GTR+Gamma, GN."
)
