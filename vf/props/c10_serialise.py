"""C10 - every serialisable object round-trips, whatever state it is in.

K1 by state-graph reuse: the (small-bound) state graphs of the K1 drivers of C01 (sequence views, old / new
implementation, new-style collection member), C03 (both alignment classes, collections), C04 (annotated
sequences / alignments), C07 (likelihood-function controller histories), C17 (annotation dbs) are re-explored
with their own models and operation alphabets; in every reachable canonical state the transition that is checked
is  serialise -> deserialise  through every channel the object offers

    to_json() -> deserialise_object            ("json")
    to_rich_dict() -> deserialise_object       ("rich dict", the dict is handed over without passing through json)
    to_rich_dict() -> cls.from_rich_dict / from_dict   (where offered)
    pickle.dumps -> pickle.loads
    copy.deepcopy

and the result must be observationally equal to the original (strings, names, moltype, parent coordinates,
annotation offsets, feature slices, records, rows, parameter values, lnL, nfp); the json round trip must also be
idempotent (rt(rt(x)) serialises to the same dict as rt(x)).  Maps (every gap layout / span list, after every
slice / reversal), trees (every shape <= n tips, after re-rooting / unrooting / sub-tree histories) and a static
registry list (alphabets, molecular types, genetic codes, DictArray, DistanceMatrix, Table, all named substitution
models, likelihood functions, app results, NotCompleted) complete the list of registered serialisable types.
"""

from __future__ import annotations

import copy
import itertools
import json
import math
import pickle
import warnings

PID = "C10"
LEVEL = "model_checking"
TECHNIQUE = (
    "explicit-state BFS over view / alignment / annotation / tree / likelihood-function histories (state graphs of the K1 drivers "
    "re-explored at small bounds) with the serialise->deserialise transition checked through every offered channel in every reachable state"
)
RULE = (
    "states = the canonical states of the reused K1 drivers (C01 view record + index model; C03 gap arrays + row model; C04 view model; "
    "C17 record multiset + source kind; C07 controller settings; tree structure key) reached by every history of their operation alphabets up to "
    "the depth bound, plus every gap layout / span list (maps) and a static list of registry objects; in each state every offered channel "
    "(json, rich dict, from_rich_dict, pickle, deepcopy) is one evaluation; a state is non-trivial when the object is not empty and not freshly "
    "constructed (history length >= 1) or, for enumerated inputs, has at least one gap / span / row"
)
ASSUMPTIONS = [
    "observational equality only: class name, strings, names, moltype label, parent_coordinates(), annotation offset, info (modulo the 'Refs' entry the serialisers drop on purpose), "
    "feature names / slices, db records, table rows, tree tip names / path sums / splits, parameter values, lnL, nfp - never object identity or private fields",
    "derived observations (str and coordinates of x.rc() and x[1:], rows of aln[1:]) are observations of x: a deserialised object has to behave like the original under later operations",
    "empty sequences / views are exempt from coordinate comparisons (as in C01)",
    "new-style Sequence.to_rich_dict / SequenceCollection.to_rich_dict document that the annotation db is not serialised: features are compared for pickle / deepcopy only on new-style objects",
    "likelihood functions: lnL and parameter values are compared with an absolute tolerance of 1e-9, everything else exactly (json floats round-trip exactly in CPython)",
    "states whose producing operation already disagrees with the owning property's model (C01 / C03 / C04 findings) are not entered",
    "the rich-dict channel hands to_rich_dict() directly to deserialise_object (documented to accept a dict)",
    "optimise() is run with local=True, max_evaluations=5, limit_action='ignore' (deterministic Powell), so the optimised state is reproducible",
]
EXHAUSTIVE = True
SHARD_TIMEOUT = {"quick": 600, "thorough": 3600}
LNL_TOL = 1e-9


def bounds(tier):
    return {
        "quick": {
            "views": {"max_parent_len": 3, "depth": 2, "steps": [1, 2, -1, -2], "offsets": [0, 3]},
            "alignments": {"rows": 2, "deep_len": 2, "deep_depth": 2, "shallow_len": 3, "shallow_depth": 1, "moltypes": ["dna"], "ops": "views"},
            "new_collections": {"max_len": 3, "depth": 2},
            "annotated": {"L": 4, "depth": 2, "steps": [1, 2], "offsets": [0, 3], "aln_len": 3},
            "annotation_dbs": {"depth": 1},
            "maps": {"indel_len": 5, "fmap_parent": 4, "fmap_spans": 2},
            "trees": {"max_tips": 4, "depth": 2},
            "lf": {"depth": 1, "alphabet": "reduced", "models": ["HKY85", "GN", "MG94HKY", "JTT92", "BH"]},
            "static": {"distance_names": 3, "table_rows": 2, "table_cols": 2, "models": "all", "genetic_codes": "all"},
        },
        "thorough": {
            "views": {"max_parent_len": 5, "depth": 2, "deep_parent_len": 3, "deep_depth": 3, "steps": [1, 2, 3, -1, -2, -3], "offsets": [0, 3]},
            "alignments": {"rows": 2, "deep_len": 3, "deep_depth": 2, "shallow_len": 4, "shallow_depth": 1, "moltypes": ["dna", "rna", "protein"]},
            "new_collections": {"max_len": 4, "depth": 3},
            "annotated": {"L": 6, "depth": 2, "steps": [1, 2, 3], "offsets": [0, 3], "aln_len": 4},
            "annotation_dbs": {"depth": 2},
            "maps": {"indel_len": 8, "fmap_parent": 5, "fmap_spans": 2},
            "trees": {"max_tips": 5, "depth": 2},
            "lf": {"depth": 2, "alphabet": "reduced", "models": "all"},
            "static": {"distance_names": 4, "table_rows": 2, "table_cols": 2, "models": "all", "genetic_codes": "all"},
        },
    }[tier]


# ============================================================================= common machinery
def plain(x, depth=0):
    """comparison-stable, JSON-able normal form of an observed value"""
    import numpy

    if depth > 8:
        return repr(x)
    if x is None or isinstance(x, (bool, int, str)):
        return x
    if isinstance(x, float):
        return x
    if isinstance(x, numpy.generic):
        return plain(x.item(), depth + 1)
    if isinstance(x, numpy.ndarray):
        return plain(x.tolist(), depth + 1)
    if isinstance(x, bytes):
        return x.decode("latin1")
    if isinstance(x, dict):
        return {"__dict__": sorted(([plain(k, depth + 1), plain(v, depth + 1)] for k, v in x.items()), key=lambda kv: repr(kv[0]))}
    if isinstance(x, (set, frozenset)):
        return {"__set__": sorted((plain(v, depth + 1) for v in x), key=repr)}
    if isinstance(x, (list, tuple)):
        return [plain(v, depth + 1) for v in x]
    return str(x)


def same(a, b, tol=None):
    if isinstance(a, float) or isinstance(b, float):
        if isinstance(a, bool) or isinstance(b, bool) or not isinstance(a, (int, float)) or not isinstance(b, (int, float)):
            return False
        if a != a or b != b:
            return a != a and b != b
        if tol is None:
            return a == b
        return abs(a - b) <= tol or a == b
    if type(a) is not type(b):
        return False
    if isinstance(a, list):
        return len(a) == len(b) and all(same(x, y, tol) for x, y in zip(a, b))
    if isinstance(a, dict):
        return a.keys() == b.keys() and all(same(a[k], b[k], tol) for k in a)
    return a == b


class Obs(list):
    """ordered list of (observable name, plain value, tolerance)"""

    def add(self, name, fn, tol=None):
        try:
            v = plain(fn())
        except Exception as e:  # noqa: BLE001 - an observation that raises is an observation
            v = {"raised": type(e).__name__}
        self.append((name, v, tol))


def first_difference(want: Obs, got: Obs):
    """first observable (in the order the original lists them) that the round-tripped object does not reproduce"""
    g = {name: v for name, v, _ in got}
    for name, w, tol in want:
        if name not in g:
            return name, "<not observable>", w
        if not same(w, g[name], tol):
            return name, g[name], w
    extra = [name for name, _, _ in got if name not in {w[0] for w in want}]
    if extra:
        return extra[0], g[extra[0]], "<not observable>"
    return None


def strip_version(d):
    """a rich dict without its 'version' entries, as a canonical json string"""
    def walk(x):
        if isinstance(x, dict):
            return {str(k): walk(v) for k, v in x.items() if k != "version"}
        if isinstance(x, (list, tuple)):
            return [walk(v) for v in x]
        return plain(x)

    return json.dumps(walk(d), sort_keys=True, default=repr)


DICT_FAMILY = ("json", "rich dict", "from_rich_dict")


def channels(obj):
    """[(label, callable)] - every serialisation channel the object offers"""
    from cogent3.util.deserialise import deserialise_object

    out = []
    if hasattr(obj, "to_json"):
        out.append(("json", lambda o: deserialise_object(o.to_json())))
    if hasattr(obj, "to_rich_dict"):
        out.append(("rich dict", lambda o: deserialise_object(o.to_rich_dict())))
        if callable(getattr(type(obj), "from_rich_dict", None)):
            out.append(("from_rich_dict", lambda o: type(o).from_rich_dict(o.to_rich_dict())))
        elif callable(getattr(type(obj), "from_dict", None)):
            out.append(("from_rich_dict", lambda o: type(o).from_dict(o.to_rich_dict())))
    out.append(("pickle", lambda o: pickle.loads(pickle.dumps(o))))
    out.append(("deepcopy", copy.deepcopy))
    return out


def check_roundtrips(acc, what, cls, obj, observe, case, nontrivial=True, idempotent=True, post=None):
    """the checked transition: serialise -> deserialise through every channel, compare observations.

    observe(obj, channel) -> Obs.  One defect in the dict family (json / rich dict / from_rich_dict share their code) is
    reported once per state, under the first channel that shows it."""
    dict_family_failed = False
    for ch, fn in channels(obj):
        acc.case({"what": what, "channel": ch, **case}, nontrivial=nontrivial)
        acc.transitions += 1
        with warnings.catch_warnings():
            warnings.simplefilter("ignore")
            want = observe(obj, ch)
            try:
                r = fn(obj)
                if post is not None:
                    post(r)
            except Exception as e:  # noqa: BLE001
                acc.outcome((what, ch, "raised", type(e).__name__))
                if ch in DICT_FAMILY and dict_family_failed:
                    continue
                dict_family_failed = dict_family_failed or ch in DICT_FAMILY
                acc.fail(f"{what}: {ch} round trip raised {type(e).__name__} [{cls}]", dict(case, channel=ch),
                         {"error": f"{type(e).__name__}: {e}"[:300], "original": [list(w[:2]) for w in want][:8]})
                continue
            got = observe(r, ch)
            diff = first_difference(want, got)
            if diff:
                acc.outcome((what, ch, "differs", diff[0]))
                if ch in DICT_FAMILY and dict_family_failed:
                    continue
                dict_family_failed = dict_family_failed or ch in DICT_FAMILY
                acc.fail(f"{what}: {ch} round trip: {diff[0]} differs [{cls}]", dict(case, channel=ch),
                         {"observable": diff[0], "got": diff[1], "want": diff[2]})
                continue
            acc.outcome((what, ch, "equal", strip_version([w[:2] for w in want])))
            if ch == "json" and idempotent:
                try:
                    d1 = strip_version(r.to_rich_dict())
                    r2 = fn(r)
                    d2 = strip_version(r2.to_rich_dict())
                except Exception as e:  # noqa: BLE001
                    acc.fail(f"{what}: second json round trip raised {type(e).__name__} [{cls}]", dict(case, channel=ch), {"error": str(e)[:300]})
                    continue
                if d1 != d2:
                    acc.fail(f"{what}: json round trip is not idempotent (rt(rt(x)) serialises differently from rt(x)) [{cls}]", dict(case, channel=ch),
                             {"rt(x)": d1[:600], "rt(rt(x))": d2[:600]})


def info_of(obj):
    info = getattr(obj, "info", None)
    if not info:
        return {}
    return {k: v for k, v in dict(info).items() if k != "Refs"}


# ============================================================================= part: sequence views (C01 state graph)
from vf.props import c01_views as c1  # noqa: E402


def view_class(m):
    parts = []
    whole = len(m.idx) == len(m.parent)
    if m.rev:
        parts.append("reversed")
    else:
        parts.append("whole parent, forward" if whole and m.stride == 1 else "sliced, forward")
    if m.off:
        parts.append("offset")
    if m.pmol != m.mol:
        parts.append("converted DNA<->RNA")
    return ", ".join(parts)


def coords_of(x):
    """parent_coordinates(); a view that carries no seqid refers to its own sequence name"""
    seqid, start, stop, strand = x.parent_coordinates()
    return [x.name if seqid is None else seqid, int(start), int(stop), int(strand)]


def observe_seq(seq, nucleic):
    def f(x, ch):
        o = Obs()
        o.add("class", lambda: type(x).__name__)
        o.add("str", lambda: str(x))
        o.add("len", lambda: len(x))
        o.add("name", lambda: x.name)
        o.add("moltype", lambda: x.moltype.label)
        n = len(str(x))
        if n:
            o.add("parent_coordinates", lambda: coords_of(x))
            o.add("annotation_offset", lambda: int(x.annotation_offset))
            if nucleic:
                o.add("rc(): str and parent_coordinates", lambda: [str(x.rc()), coords_of(x.rc())])
            if n > 1:
                o.add("[1:]: str and parent_coordinates", lambda: [str(x[1:]), coords_of(x[1:])])
        return o

    return f


def check_view_state(seq, m, impl, base_case, hist, acc):
    check_roundtrips(acc, f"{impl} sequence", view_class(m), seq, observe_seq(seq, m.nucleic), dict(base_case, history=hist),
                     nontrivial=bool(m.idx) and bool(hist))


def views_explore(spec, acc):
    impl, mol, parent, off, depth, steps = spec["impl"], spec["mol"], spec["parent"], spec["off"], spec["depth"], spec["steps"]
    root = c1.make_root(impl, mol, parent, off, "s1")
    m0 = c1.M(parent, mol, off, "s1", range(len(parent)))
    base_case = {"part": "views", "impl": impl, "mol": mol, "parent": parent, "off": off}
    if c1.basic_problems(root, m0):
        acc.count("states_not_entered_owning_property_disagrees")
        return
    seen = {(c1.view_record(root), m0.key())}
    acc.state(0)
    check_view_state(root, m0, impl, base_case, [], acc)
    frontier = [(root, m0, [])]
    for d in range(1, depth + 1):
        nxt = []
        for seq, m, hist in frontier:
            for op in view_ops(m, steps):
                acc.transitions += 1
                m2 = c1.model_apply(m, op)
                try:
                    s2 = c1.real_apply(seq, op)
                except Exception:  # noqa: BLE001 - what an operation raises is C01's subject
                    if m2 is not IndexError:
                        acc.count("states_not_entered_owning_property_disagrees")
                    continue
                if m2 is IndexError:
                    acc.count("states_not_entered_owning_property_disagrees")
                    continue
                k = (c1.view_record(s2), m2.key())
                if k in seen:
                    continue
                seen.add(k)
                if c1.basic_problems(s2, m2):
                    # the operation itself broke the view algebra (C01): not a state of this property; a converted sequence may be re-based
                    s2b, m2b, probs = c1.step(seq, m, op)
                    if probs or s2b is None:
                        acc.count("states_not_entered_owning_property_disagrees")
                        continue
                    s2, m2 = s2b, m2b
                acc.state(d)
                h2 = hist + [list(op)]
                check_view_state(s2, m2, impl, base_case, h2, acc)
                if d < depth:
                    nxt.append((s2, m2, h2))
                elif len(seen) % 50 == 0:
                    acc.sample({"part": "views", "impl": impl, "moltype": mol, "parent": parent, "offset": off, "history": h2, "displays": m2.string()}, f"views-{impl}")
        frontier = nxt


def view_ops(m, steps):
    """C01's operation alphabet restricted to in-range slice bounds (a bound outside [-L, L] clamps to a state that an in-range bound also reaches)"""
    L = len(m.idx)
    for op in c1.alphabet(m, steps):
        if op[0] == "slice" and any(v is not None and abs(v) > L for v in op[1:3]):
            continue
        yield op


def views_shards(b):
    out = []
    for impl in c1.IMPLS:
        for mol in ("dna", "rna", "protein"):
            for w in c1.WITNESS[mol]:
                for L in range(0, b["max_parent_len"] + 1):
                    for off in b["offsets"]:
                        if L == 0 and (off or w != c1.WITNESS[mol][0]):
                            continue
                        if impl == "newcoll" and (off or L == 0):
                            continue
                        depth = b["depth"]
                        if L <= b.get("deep_parent_len", -1):
                            depth = b["deep_depth"]
                        out.append({"part": "views", "impl": impl, "mol": mol, "parent": w[:L], "off": off, "depth": depth, "steps": b["steps"]})
    return out


def views_replay(case, acc):
    impl, mol, parent, off = case["impl"], case["mol"], case["parent"], case["off"]
    seq = c1.make_root(impl, mol, parent, off)
    m = c1.M(parent, mol, off, "s1", range(len(parent)))
    for op in case["history"]:
        s2, m2, probs = c1.step(seq, m, tuple(op))
        if probs or s2 is None:
            return
        seq, m = s2, m2
    check_view_state(seq, m, impl, {k: case[k] for k in ("part", "impl", "mol", "parent", "off")}, case["history"], acc)


# ============================================================================= part: alignments (C03 state graph)
from vf.props import c03_alignments as c3  # noqa: E402


def observe_aln(nucleic):
    def f(a, ch):
        o = Obs()
        o.add("class", lambda: type(a).__name__)
        o.add("moltype", lambda: a.moltype.label)
        o.add("names", lambda: list(a.names))
        o.add("rows", lambda: {n: str(s) for n, s in a.to_dict().items()})
        o.add("len", lambda: len(a))
        o.add("info", lambda: info_of(a))
        o.add("get_gapped_seq", lambda: {n: str(a.get_gapped_seq(n)) for n in a.names})
        o.add("get_seq: str", lambda: {n: str(a.get_seq(n)) for n in a.names})
        if type(a).__name__ == "Alignment":
            o.add("get_seq: parent_coordinates", lambda: {n: coords_of(a.get_seq(n)) for n in a.names if len(str(a.get_seq(n)))})
        if len(a) > 1:
            o.add("[1:]: rows", lambda: {n: str(s) for n, s in a[1:].to_dict().items()})
        if nucleic and len(a):
            o.add("rc(): rows", lambda: {n: str(s) for n, s in a.rc().to_dict().items()})
        return o

    return f


def observe_aligned(x, ch):
    o = Obs()
    o.add("class", lambda: type(x).__name__)
    o.add("str", lambda: str(x))
    o.add("name", lambda: x.name)
    o.add("moltype", lambda: x.moltype.label)
    o.add("len", lambda: len(x))
    o.add("sequence: str", lambda: str(x.data))
    o.add("map: gap coordinates", lambda: x.map.get_gap_coordinates())
    if len(str(x.data)):
        o.add("sequence: parent_coordinates", lambda: coords_of(x.data))
    return o


def observe_coll(c, ch):
    o = Obs()
    o.add("class", lambda: type(c).__name__)
    o.add("moltype", lambda: c.moltype.label)
    o.add("names", lambda: list(c.names))
    o.add("seqs", lambda: {n: str(s) for n, s in c.to_dict().items()})
    o.add("info", lambda: info_of(c))
    o.add("get_seq: name and parent_coordinates", lambda: {n: [c.get_seq(n).name, coords_of(c.get_seq(n))] for n in c.names if len(str(c.get_seq(n)))})
    return o


def aln_class(aln, m, hist):
    f = [type(aln).__name__]
    f.append("as constructed" if not hist else "after " + "/".join(sorted({c3.op_label(c3.unjson(op)).split("(")[0] for op in hist})))
    return ", ".join(f)


def check_aln_state(aln, m, case0, hist, acc):
    if not m.rows:
        return
    cls = type(aln).__name__
    nucleic = m.mol in ("dna", "rna")
    case = dict(case0, cls=cls, history=hist)
    klass = aln_class(aln, m, hist)
    nt = bool(hist) and m.L > 0 and any("-" in s for s in m.rows.values())
    check_roundtrips(acc, cls, klass, aln, observe_aln(nucleic), case, nontrivial=nt)
    done = acc.notes.setdefault("_aln_sub_done", set())
    if cls == "Alignment":
        for n in aln.names:
            a = aln.named_seqs[n]
            k = ("aligned", n, repr(a.map), repr(getattr(a.data, "_seq", None)), m.mol)
            if k in done:
                continue
            done.add(k)
            check_roundtrips(acc, "Aligned (alignment row)", klass, a, observe_aligned, dict(case, row=n), nontrivial=nt)
    if m.L:
        try:
            coll = aln.degap()
        except Exception:  # noqa: BLE001 - degap itself is C03's subject
            return
        k = ("coll", cls, repr([(n, repr(getattr(coll.named_seqs[n], "_seq", None))) for n in coll.names]), m.mol)
        if k not in done:
            done.add(k)
            check_roundtrips(acc, "SequenceCollection (degap() of the alignment)", klass, coll, observe_coll, dict(case, sub="degap"), nontrivial=nt)


def alns_explore(spec, acc):
    mol, rows0, depth = spec["mol"], dict(spec["rows"]), spec["depth"]
    m0 = c3.Model(rows0, mol)
    case0 = {"part": "alignments", "mol": mol, "rows": list(rows0.items())}
    for array in (False, True):
        try:
            a0 = c3.make_aln(rows0, mol, array)
        except Exception:  # noqa: BLE001
            acc.count("states_not_entered_owning_property_disagrees")
            continue
        if c3.basic_problems(a0, m0):
            acc.count("states_not_entered_owning_property_disagrees")
            continue
        seen = {(c3.internal_key(a0), m0.key())}
        acc.state(0)
        check_aln_state(a0, m0, case0, [], acc)
        frontier = [(a0, m0, [])]
        for d in range(1, depth + 1):
            nxt = []
            for aln, m, hist in frontier:
                for op in aln_ops(m, spec.get("ops", "all")):
                    acc.transitions += 1
                    r, m2, probs, outcome = c3.step(aln, m, op)
                    if probs:
                        acc.count("states_not_entered_owning_property_disagrees")
                        continue
                    if r is None:
                        continue
                    k = (c3.internal_key(r), m2.key())
                    if k in seen:
                        continue
                    seen.add(k)
                    acc.state(d)
                    h2 = hist + [c3.jsonop(op)]
                    check_aln_state(r, m2, case0, h2, acc)
                    if d < depth:
                        nxt.append((r, m2, h2))
            frontier = nxt
    acc.sample({"part": "alignments", "moltype": mol, "rows": rows0, "depth": depth}, "alignments")


VIEW_KINDS = {"slice", "int", "rc", "to_dna", "to_rna", "take_positions", "take_seqs", "degapped_relative_to", "concat", "to_type", "copy", "deepcopy"}


def aln_ops(m, which):
    """C03's alphabet; 'views' = the operations that make a structurally new object (slices, rc, selections, conversions, concatenation) -
    the content filters (omit_gap_pos, no_degenerates, filtered, sample, omit_gap_seqs) select columns / rows through the same constructors"""
    for op in c3.alphabet(m):
        if which == "views" and (op[0] not in VIEW_KINDS or (op[0] == "take_positions" and op[2])):
            continue
        yield op


def alns_shards(b):
    out = []
    for mol in b["moltypes"]:
        nrows = b["rows"]
        for L in range(1, b["shallow_len"] + 1):
            depth = b["deep_depth"] if L <= b["deep_len"] else b["shallow_depth"]
            n = len(list(c3.initial_rows(mol, nrows, L)))
            nchunks = max(1, min(n, (n * (16 if depth > 1 else 2)) // 8))
            for c in range(nchunks):
                out.append({"part": "alignments", "mol": mol, "nrows": nrows, "L": L, "depth": depth, "chunk": c, "of": nchunks, "ops": b.get("ops", "all")})
    return out


def alns_run(spec, acc):
    for i, rows in enumerate(c3.initial_rows(spec["mol"], spec["nrows"], spec["L"])):
        if i % spec["of"] == spec["chunk"]:
            alns_explore({"mol": spec["mol"], "rows": rows, "depth": spec["depth"], "ops": spec.get("ops", "all")}, acc)


def alns_replay(case, acc):
    mol, rows0 = case["mol"], dict((n, s) for n, s in case["rows"])
    aln = c3.make_aln(rows0, mol, case["cls"] == "ArrayAlignment")
    m = c3.Model(rows0, mol)
    for op in case["history"]:
        r, m2, probs, outcome = c3.step(aln, m, c3.unjson(op))
        if probs or r is None:
            return
        aln, m = r, m2
    check_aln_state(aln, m, {"part": "alignments", "mol": mol, "rows": case["rows"]}, case["history"], acc)


# ============================================================================= shards / dispatch
PARTS = {
    "views": (views_shards, views_explore, views_replay),
    "alignments": (alns_shards, alns_run, alns_replay),
}


def shards(tier, seed):
    b = bounds(tier)
    out = []
    for part, (mk, _, _) in PARTS.items():
        out.extend(mk(b[part]))
    return out


def run_shard(spec, acc):
    with warnings.catch_warnings():
        warnings.simplefilter("ignore")
        PARTS[spec["part"]][1](spec, acc)


def replay(case):
    from vf.kernel.runner import Acc

    acc = Acc()
    with warnings.catch_warnings():
        warnings.simplefilter("ignore")
        PARTS[case["part"]][2](case, acc)
    return [(sig, rec["cases"][0]["detail"]) for sig, rec in acc.failures.items()]


LEVEL_TEXT = (
    "Explicit-state model checking by state-graph reuse: the reachable states of the view, alignment, annotation, annotation-db, tree and "
    "likelihood-function drivers are re-enumerated at small bounds and in each of them the object is serialised and deserialised through every "
    "channel it offers; the result is compared, observation by observation, with the original."
)
LEVEL_NOTE = (
    "Trusted: the owning drivers' models (only used to reach and name states), CPython json / pickle. Observational equality on the listed "
    "observations only; objects are as small as in the owning drivers."
)
