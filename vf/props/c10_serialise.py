"""C10 - every serialisable object round-trips, whatever state it is in.

K1 by state-graph reuse: the (small-bound) state graphs of the K1 drivers of C01 (sequence views, old / new
implementation, new-style collection member), C03 (both alignment classes, collections), C04 (annotated
sequences / alignments), C07 (likelihood-function controller histories), C17 (annotation dbs) are re-explored
with their own models and operation alphabets; in every reachable canonical state the transition that is checked
is  serialise -> deserialise  through every channel the object offers

    to_json() -> deserialise_object            ("json")
    to_rich_dict() -> deserialise_object       ("rich dict", the dict is handed over without passing through json)
    to_rich_dict() -> cls.from_rich_dict / from_dict   (where offered)
    pickle.dumps -> pickle.loads
    copy.deepcopy

and the result must be observationally equal to the original (strings, names, moltype, parent coordinates,
annotation offsets, feature slices, records, rows, parameter values, lnL, nfp); the json round trip must also be
idempotent (rt(rt(x)) serialises to the same dict as rt(x)).  Maps (every gap layout / span list, after every
slice / reversal), trees (every shape <= n tips, after re-rooting / unrooting / sub-tree histories) and a static
registry list (alphabets, molecular types, genetic codes, DictArray, DistanceMatrix, Table, all named substitution
models, likelihood functions, app results, NotCompleted) complete the list of registered serialisable types.
"""

from __future__ import annotations

import copy
import itertools
import json
import pickle
import warnings

PID = "C10"
LEVEL = "model_checking"
TECHNIQUE = (
    "explicit-state BFS over view / alignment / annotation / tree / likelihood-function histories (state graphs of the K1 drivers "
    "re-explored at small bounds) with the serialise->deserialise transition checked through every offered channel in every reachable state"
)
RULE = (
    "states = the canonical states of the reused K1 drivers (C01 view record + index model; C03 gap arrays + row model; C04 view model; "
    "C17 record multiset + source kind; C07 controller settings; tree structure key) reached by every history of their operation alphabets up to "
    "the depth bound, plus every gap layout / span list (maps) and a static list of registry objects; in each state every offered channel "
    "(json, rich dict, from_rich_dict, pickle, deepcopy) is one evaluation; a state is non-trivial when the object is not empty and not freshly "
    "constructed (history length >= 1) or, for enumerated inputs, has at least one gap / span / row"
)
ASSUMPTIONS = [
    "observational equality only: class name, strings, names, moltype label, parent_coordinates(), annotation offset, info (modulo the 'Refs' entry the serialisers drop on purpose), "
    "feature names / slices, db records, table rows, tree tip names / path sums / splits, parameter values, lnL, nfp - never object identity or private fields",
    "derived observations (str and coordinates of x.rc() and x[1:], rows of aln[1:]) are observations of x: a deserialised object has to behave like the original under later operations",
    "empty sequences / views are exempt from coordinate comparisons (as in C01)",
    "new-style Sequence.to_rich_dict / SequenceCollection.to_rich_dict document that the annotation db is not serialised: features are compared for pickle / deepcopy only on new-style objects",
    "likelihood functions: lnL and parameter values are compared with an absolute tolerance of 1e-9, everything else exactly (json floats round-trip exactly in CPython)",
    "states whose producing operation already disagrees with the owning property's model (C01 / C03 / C04 findings; new-style collections lose rc() in later operations) are not entered - counted as states_not_entered_owning_property_disagrees",
    "a view that carries no seqid (None, after a re-basing conversion) is taken to refer to its own sequence name",
    "trees: names the library generates for unnamed nodes (edge.N) are free; names given by the user must stay on the node with the same tips; newick text is an additional channel",
    "a failure of a likelihood function that its model's freshly constructed function shows too is classed by model family, otherwise by the state (differential classification, as in C17)",
    "one defect seen through json / rich dict / from_rich_dict (shared code) or through pickle / deepcopy (shared __reduce_ex__) is reported once per state, under the first channel showing it",
    "the rich-dict channel hands to_rich_dict() directly to deserialise_object (documented to accept a dict)",
    "the library's process-wide lost-span cache (cogent3.core.location._lost_span_cache) is emptied at the start of every shard so that verdicts do not depend on shard order; "
    "the situation 'an alignment's gap map was turned into a feature map earlier in the process' is entered deliberately as a state class of the FeatureMap part",
    "optimise() is run with local=True, max_evaluations=5, limit_action='ignore' (deterministic Powell), so the optimised state is reproducible",
]
EXHAUSTIVE = True
SHARD_TIMEOUT = {"quick": 600, "thorough": 3600}
LNL_TOL = 1e-9


def bounds(tier):
    return {
        "quick": {
            "views": {"max_parent_len": 3, "depth": 2, "steps": [1, 2, -1, -2], "offsets": [0, 3]},
            "alignments": {"rows": 2, "configs (moltype, columns, depth, operations)": [["dna", 1, 2, "views"], ["dna", 2, 2, "views"], ["dna", 3, 0, "views"]]},
            "new_collections": {"max_len": 3, "depth": 2},
            "annotated": {"L": 4, "depth": 2, "steps": [1, 2], "offsets": [0, 3], "aln_len": 2},
            "annotation_dbs": {"depth": 1},
            "maps": {"indel_len": 5, "fmap_parent": 4, "fmap_spans": 2},
            "trees": {"max_tips": 4, "depth": 2},
            "lf": {"depth": 1, "alphabet": "reduced", "models": ["HKY85", "GN", "MG94HKY", "JTT92", "BH"]},
            "static": {"distance_names": 3, "table_rows": 2, "table_cols": 2, "models": ["MG94HKY", "Y98", "H04G"], "genetic_codes": "all"},
        },
        "thorough": {
            "views": {"max_parent_len": 5, "depth": 2, "deep_parent_len": 3, "deep_depth": 3, "steps": [1, 2, 3, -1, -2, -3], "offsets": [0, 3]},
            "alignments": {"rows": 2, "configs (moltype, columns, depth, operations)": [["dna", 1, 2, "all"], ["dna", 2, 2, "all"], ["dna", 3, 2, "views"], ["dna", 3, 1, "all"],
                                                                                          ["dna", 4, 0, "views"], ["rna", 2, 2, "views"], ["protein", 2, 2, "views"]]},
            "new_collections": {"max_len": 4, "depth": 3},
            "annotated": {"L": 6, "depth": 2, "steps": [1, 2, 3], "offsets": [0, 3], "aln_len": 3},
            "annotation_dbs": {"depth": 2},
            "maps": {"indel_len": 8, "fmap_parent": 5, "fmap_spans": 2},
            "trees": {"max_tips": 5, "depth": 2},
            "lf": {"depth": 2, "alphabet": "reduced", "models": "all"},
            "static": {"distance_names": 4, "table_rows": 2, "table_cols": 2, "models": "all", "genetic_codes": "all"},
        },
    }[tier]


# ============================================================================= common machinery
def plain(x, depth=0):
    """comparison-stable, JSON-able normal form of an observed value"""
    import numpy

    if depth > 60:
        return repr(x)
    if isinstance(x, numpy.generic):
        return plain(x.item(), depth + 1)
    if x is None or isinstance(x, bool):
        return x
    if isinstance(x, str):
        return str(x)
    if isinstance(x, int):
        return int(x)
    if isinstance(x, float):
        return float(x)
    if isinstance(x, numpy.ndarray):
        return plain(x.tolist(), depth + 1)
    if isinstance(x, bytes):
        return x.decode("latin1")
    if isinstance(x, dict):
        return {"__dict__": sorted(([plain(k, depth + 1), plain(v, depth + 1)] for k, v in x.items()), key=lambda kv: repr(kv[0]))}
    if isinstance(x, (set, frozenset)):
        return {"__set__": sorted((plain(v, depth + 1) for v in x), key=repr)}
    if isinstance(x, (list, tuple)):
        return [plain(v, depth + 1) for v in x]
    return str(x)


def same(a, b, tol=None):
    if callable(tol):
        return tol(a, b)
    if isinstance(a, float) or isinstance(b, float):
        if isinstance(a, bool) or isinstance(b, bool) or not isinstance(a, (int, float)) or not isinstance(b, (int, float)):
            return False
        if a != a or b != b:
            return a != a and b != b
        if tol is None:
            return a == b
        return abs(a - b) <= tol or a == b
    if type(a) is not type(b):
        return False
    if isinstance(a, list):
        return len(a) == len(b) and all(same(x, y, tol) for x, y in zip(a, b))
    if isinstance(a, dict):
        return a.keys() == b.keys() and all(same(a[k], b[k], tol) for k in a)
    return a == b


class Obs(list):
    """ordered list of (observable name, plain value, tolerance)"""

    def add(self, name, fn, tol=None):
        try:
            v = plain(fn())
        except Exception as e:  # noqa: BLE001 - an observation that raises is an observation
            v = {"raised": type(e).__name__}
        self.append((name, v, tol))


def first_difference(want: Obs, got: Obs):
    """first observable (in the order the original lists them) that the round-tripped object does not reproduce"""
    g = {name: v for name, v, _ in got}
    for name, w, tol in want:
        if name not in g:
            return name, "<not observable>", w
        if not same(w, g[name], tol):
            return name, g[name], w
    extra = [name for name, _, _ in got if name not in {w[0] for w in want}]
    if extra:
        return extra[0], g[extra[0]], "<not observable>"
    return None


def strip_version(d):
    """a rich dict without its 'version' entries, as a canonical json string"""
    def walk(x):
        if isinstance(x, dict):
            return {str(k): walk(v) for k, v in x.items() if k != "version"}
        if isinstance(x, (list, tuple)):
            return [walk(v) for v in x]
        return plain(x)

    return json.dumps(walk(d), sort_keys=True, default=repr)


DICT_FAMILY = ("json", "rich dict", "from_rich_dict")
COPY_FAMILY = ("pickle", "deepcopy")  # copy.deepcopy goes through the same __reduce_ex__ protocol as pickle


def family_of(ch):
    return "dict" if ch in DICT_FAMILY else "copy"


def first_changed_entry(a, b, key="<top>"):
    """name of the first dict entry (schema key, not an input value) whose value differs between two rich dicts"""
    if isinstance(a, dict) and isinstance(b, dict):
        if sorted(a) != sorted(b):
            return key
        for k in sorted(a):
            r = first_changed_entry(a[k], b[k], k if k in SCHEMA_KEYS else key)
            if r:
                return r
        return None
    if isinstance(a, list) and isinstance(b, list):
        if len(a) != len(b):
            return key
        for x, y in zip(a, b):
            r = first_changed_entry(x, y, key)
            if r:
                return r
        return None
    return None if a == b else key


SCHEMA_KEYS = {"dtype", "values", "columns", "order", "data", "init_table", "seq", "seqs", "init_args", "moltype", "info", "name", "annotation_offset", "annotation_db", "map_init",
               "seq_init", "gap_pos", "cum_gap_lengths", "parent_length", "termini_unknown", "spans", "newick", "edge_attributes", "length", "param_rules", "motif_probs", "lnL", "nfp",
               "alignment", "tree", "model", "likelihood_construction", "array", "names", "dists", "invalid", "items", "result_construction", "seqs_data", "alphabet", "reversed_seqs",
               "step", "start", "stop", "offset", "seqid", "seq_len", "words", "monomers", "gap", "missing", "chars", "k", "title", "legend", "index_name", "DLC", "unique_Q", "tables", "user", "gff", "gb"}


def channels(obj):
    """[(label, callable)] - every serialisation channel the object offers"""
    from cogent3.util.deserialise import deserialise_object

    out = []
    if hasattr(obj, "to_json"):
        out.append(("json", lambda o: deserialise_object(o.to_json())))
    if hasattr(obj, "to_rich_dict"):
        out.append(("rich dict", lambda o: deserialise_object(o.to_rich_dict())))
        if callable(getattr(type(obj), "from_rich_dict", None)):
            out.append(("from_rich_dict", lambda o: type(o).from_rich_dict(o.to_rich_dict())))
        elif callable(getattr(type(obj), "from_dict", None)):
            out.append(("from_rich_dict", lambda o: type(o).from_dict(o.to_rich_dict())))
    out.append(("pickle", lambda o: pickle.loads(pickle.dumps(o))))
    out.append(("deepcopy", copy.deepcopy))
    return out


def check_roundtrips(acc, what, cls, obj, observe, case, nontrivial=True, idempotent=True, kinds_out=None):
    """the checked transition: serialise -> deserialise through every channel, compare observations.

    observe(obj, channel) -> Obs (evaluated once for the original unless observe.per_channel).  cls is the structural class of the
    state for signatures: a string, or a callable(kind) with kind = (channel family, what went wrong).  One defect in the dict family
    (json / rich dict / from_rich_dict share their code) or in the copy family (pickle / deepcopy share __reduce_ex__) is reported once
    per state, under the first channel that shows it."""
    failed = set()  # channel families already reported for this state
    want_once = None

    def klass(kind):
        if kinds_out is not None:
            kinds_out.add(kind)
        return cls(kind) if callable(cls) else cls

    for ch, fn in channels(obj):
        acc.case({"what": what, "channel": ch, **case}, nontrivial=nontrivial)
        acc.transitions += 1
        fam = family_of(ch)
        with warnings.catch_warnings():
            warnings.simplefilter("ignore")
            if getattr(observe, "per_channel", False):
                want = observe(obj, ch)
            else:
                if want_once is None:
                    want_once = observe(obj, ch)
                want = want_once
            try:
                r = fn(obj)
            except Exception as e:  # noqa: BLE001
                acc.outcome((what, ch, "raised", type(e).__name__))
                if fam in failed:
                    continue
                failed.add(fam)
                acc.fail(f"{what}: {ch} round trip raised {type(e).__name__} [{klass((fam, 'raised ' + type(e).__name__))}]", dict(case, channel=ch),
                         {"error": f"{type(e).__name__}: {e}"[:300], "original": [list(w[:2]) for w in want][:4]})
                continue
            got = observe(r, ch)
            diff = first_difference(want, got)
            if diff:
                acc.outcome((what, ch, "differs", diff[0]))
                if fam in failed:
                    continue
                failed.add(fam)
                acc.fail(f"{what}: {ch} round trip: {diff[0]} differs [{klass((fam, 'differs ' + diff[0]))}]", dict(case, channel=ch),
                         {"observable": diff[0], "got": diff[1], "want": diff[2]})
                continue
            acc.outcome((what, ch, "equal", strip_version([w[:2] for w in want])))
            if ch == "json" and idempotent:
                try:
                    d1 = strip_version(r.to_rich_dict())
                    r2 = fn(r)
                    d2 = strip_version(r2.to_rich_dict())
                except Exception as e:  # noqa: BLE001
                    acc.fail(f"{what}: second json round trip raised {type(e).__name__} [{klass(('idem', 'raised ' + type(e).__name__))}]", dict(case, channel=ch), {"error": str(e)[:300]})
                    continue
                if d1 != d2:
                    entry = first_changed_entry(json.loads(d1), json.loads(d2))
                    klass(("idem", entry))
                    acc.fail(f"{what}: json round trip is not idempotent: entry '{entry}' of rt(rt(x)).to_rich_dict() differs from that of rt(x)", dict(case, channel=ch),
                             {"rt(x)": d1[:600], "rt(rt(x))": d2[:600]})


def info_of(obj):
    info = getattr(obj, "info", None)
    if not info:
        return {}
    return {k: v for k, v in dict(info).items() if k != "Refs"}


# ============================================================================= part: sequence views (C01 state graph)
from vf.props import c01_views as c1  # noqa: E402


def view_class(m):
    parts = []
    whole = len(m.idx) == len(m.parent)
    if m.rev:
        parts.append("reversed")
    else:
        parts.append("whole parent, forward" if whole and m.stride == 1 else "sliced, forward")
    if m.off:
        parts.append("offset")
    if m.pmol != m.mol:
        parts.append("converted DNA<->RNA")
    return ", ".join(parts)


def coords_of(x):
    """parent_coordinates(); a view that carries no seqid refers to its own sequence name"""
    seqid, start, stop, strand = x.parent_coordinates()
    return [x.name if seqid is None else seqid, int(start), int(stop), int(strand)]


def observe_seq(seq, nucleic):
    def f(x, ch):
        o = Obs()
        o.add("class", lambda: type(x).__name__)
        o.add("str", lambda: str(x))
        o.add("len", lambda: len(x))
        o.add("name", lambda: x.name)
        o.add("moltype", lambda: x.moltype.label)
        n = len(str(x))
        if n:
            o.add("parent_coordinates", lambda: coords_of(x))
            o.add("annotation_offset", lambda: int(x.annotation_offset))
            if nucleic:
                o.add("rc(): str and parent_coordinates", lambda: [str(x.rc()), coords_of(x.rc())])
            if n > 1:
                o.add("[1:]: str and parent_coordinates", lambda: [str(x[1:]), coords_of(x[1:])])
        return o

    return f


def check_view_state(seq, m, impl, base_case, hist, acc):
    check_roundtrips(acc, f"{impl} sequence", view_class(m), seq, observe_seq(seq, m.nucleic), dict(base_case, history=hist),
                     nontrivial=bool(m.idx) and bool(hist))


def views_explore(spec, acc):
    impl, mol, parent, off, depth, steps = spec["impl"], spec["mol"], spec["parent"], spec["off"], spec["depth"], spec["steps"]
    root = c1.make_root(impl, mol, parent, off, "s1")
    m0 = c1.M(parent, mol, off, "s1", range(len(parent)))
    base_case = {"part": "views", "impl": impl, "mol": mol, "parent": parent, "off": off}
    if c1.basic_problems(root, m0):
        acc.count("states_not_entered_owning_property_disagrees")
        return
    seen = {(c1.view_record(root), m0.key())}
    acc.state(0)
    check_view_state(root, m0, impl, base_case, [], acc)
    frontier = [(root, m0, [])]
    for d in range(1, depth + 1):
        nxt = []
        for seq, m, hist in frontier:
            for op in view_ops(m, steps):
                acc.transitions += 1
                m2 = c1.model_apply(m, op)
                try:
                    s2 = c1.real_apply(seq, op)
                except Exception:  # noqa: BLE001 - what an operation raises is C01's subject
                    if m2 is not IndexError:
                        acc.count("states_not_entered_owning_property_disagrees")
                    continue
                if m2 is IndexError:
                    acc.count("states_not_entered_owning_property_disagrees")
                    continue
                k = (c1.view_record(s2), m2.key())
                if k in seen:
                    continue
                seen.add(k)
                if c1.basic_problems(s2, m2):
                    # the operation itself broke the view algebra (C01): not a state of this property; a converted sequence may be re-based
                    s2b, m2b, probs = c1.step(seq, m, op)
                    if probs or s2b is None:
                        acc.count("states_not_entered_owning_property_disagrees")
                        continue
                    s2, m2 = s2b, m2b
                acc.state(d)
                h2 = hist + [list(op)]
                check_view_state(s2, m2, impl, base_case, h2, acc)
                if d < depth:
                    nxt.append((s2, m2, h2))
                elif len(seen) % 50 == 0:
                    acc.sample({"part": "views", "impl": impl, "moltype": mol, "parent": parent, "offset": off, "history": h2, "displays": m2.string()}, f"views-{impl}")
        frontier = nxt


def view_ops(m, steps):
    """C01's operation alphabet restricted to in-range slice bounds (a bound outside [-L, L] clamps to a state that an in-range bound also reaches)"""
    L = len(m.idx)
    for op in c1.alphabet(m, steps):
        if op[0] == "slice" and any(v is not None and abs(v) > L for v in op[1:3]):
            continue
        yield op


def views_shards(b):
    out = []
    for impl in c1.IMPLS:
        for mol in ("dna", "rna", "protein"):
            for w in c1.WITNESS[mol]:
                for L in range(0, b["max_parent_len"] + 1):
                    for off in b["offsets"]:
                        if L == 0 and (off or w != c1.WITNESS[mol][0]):
                            continue
                        if impl == "newcoll" and (off or L == 0):
                            continue
                        depth = b["depth"]
                        if L <= b.get("deep_parent_len", -1):
                            depth = b["deep_depth"]
                        out.append({"part": "views", "impl": impl, "mol": mol, "parent": w[:L], "off": off, "depth": depth, "steps": b["steps"]})
    return out


def views_replay(case, acc):
    impl, mol, parent, off = case["impl"], case["mol"], case["parent"], case["off"]
    seq = c1.make_root(impl, mol, parent, off)
    m = c1.M(parent, mol, off, "s1", range(len(parent)))
    for op in case["history"]:
        s2, m2, probs = c1.step(seq, m, tuple(op))
        if probs or s2 is None:
            return
        seq, m = s2, m2
    check_view_state(seq, m, impl, {k: case[k] for k in ("part", "impl", "mol", "parent", "off")}, case["history"], acc)


# ============================================================================= part: alignments (C03 state graph)
from vf.props import c03_alignments as c3  # noqa: E402


def observe_aln(nucleic):
    def f(a, ch):
        o = Obs()
        o.add("class", lambda: type(a).__name__)
        o.add("moltype", lambda: a.moltype.label)
        o.add("names", lambda: list(a.names))
        o.add("rows", lambda: {n: str(s) for n, s in a.to_dict().items()})
        o.add("len", lambda: len(a))
        o.add("info", lambda: info_of(a))
        o.add("get_gapped_seq", lambda: {n: str(a.get_gapped_seq(n)) for n in a.names})
        o.add("get_seq: str", lambda: {n: str(a.get_seq(n)) for n in a.names})
        if type(a).__name__ == "Alignment":
            o.add("get_seq: parent_coordinates", lambda: {n: coords_of(a.get_seq(n)) for n in a.names if len(str(a.get_seq(n)))})
        if len(a) > 1:
            o.add("[1:]: rows", lambda: {n: str(s) for n, s in a[1:].to_dict().items()})
        if nucleic and len(a):
            o.add("rc(): rows", lambda: {n: str(s) for n, s in a.rc().to_dict().items()})
        return o

    return f


def observe_aligned(x, ch):
    o = Obs()
    o.add("class", lambda: type(x).__name__)
    o.add("str", lambda: str(x))
    o.add("name", lambda: x.name)
    o.add("moltype", lambda: x.moltype.label)
    o.add("len", lambda: len(x))
    o.add("sequence: str", lambda: str(x.data))
    o.add("map: gap coordinates", lambda: x.map.get_gap_coordinates())
    if len(str(x.data)):
        o.add("sequence: parent_coordinates", lambda: coords_of(x.data))
    return o


def observe_coll(c, ch):
    o = Obs()
    o.add("class", lambda: type(c).__name__)
    o.add("moltype", lambda: c.moltype.label)
    o.add("names", lambda: list(c.names))
    o.add("seqs", lambda: {n: str(s) for n, s in c.to_dict().items()})
    o.add("info", lambda: info_of(c))
    o.add("get_seq: name and parent_coordinates", lambda: {n: [c.get_seq(n).name, coords_of(c.get_seq(n))] for n in c.names if len(str(c.get_seq(n)))})
    return o


def aln_class(aln, m, hist):
    """structural class: the class and, for the annotatable class, what its rows' sequence views look like"""
    f = [type(aln).__name__]
    if type(aln).__name__ == "Alignment":
        views = [getattr(a.data, "_seq", None) for a in aln.named_seqs.values()]
        views = [v for v in views if v is not None]
        if any(getattr(v, "is_reversed", False) for v in views):
            f.append("rows are reversed views")
        elif any(len(v) != v.seq_len for v in views):
            f.append("rows are sliced views")
        else:
            f.append("rows are whole sequences")
    else:
        f.append("as constructed" if not hist else "derived")
    return ", ".join(f)


def check_aln_state(aln, m, case0, hist, acc):
    if not m.rows:
        return
    cls = type(aln).__name__
    nucleic = m.mol in ("dna", "rna")
    case = dict(case0, cls=cls, history=hist)
    klass = aln_class(aln, m, hist)
    nt = bool(hist) and m.L > 0 and any("-" in s for s in m.rows.values())
    check_roundtrips(acc, cls, klass, aln, observe_aln(nucleic), case, nontrivial=nt)
    done = acc.notes.setdefault("_aln_sub_done", set())
    if cls == "Alignment":
        for n in aln.names:
            a = aln.named_seqs[n]
            k = ("aligned", n, repr(a.map), repr(getattr(a.data, "_seq", None)), m.mol)
            if k in done:
                continue
            done.add(k)
            check_roundtrips(acc, "Aligned (alignment row)", klass, a, observe_aligned, dict(case, row=n), nontrivial=nt)
    if m.L:
        try:
            coll = aln.degap()
        except Exception:  # noqa: BLE001 - degap itself is C03's subject
            return
        k = ("coll", cls, repr([(n, repr(getattr(coll.named_seqs[n], "_seq", None))) for n in coll.names]), m.mol)
        if k not in done:
            done.add(k)
            check_roundtrips(acc, "SequenceCollection (degap() of the alignment)", klass, coll, observe_coll, dict(case, sub="degap"), nontrivial=nt)


def alns_explore(spec, acc):
    mol, rows0, depth = spec["mol"], dict(spec["rows"]), spec["depth"]
    m0 = c3.Model(rows0, mol)
    for array in (False, True):
        case0 = {"part": "alignments", "mol": mol, "rows": list(rows0.items()), "array": array}
        try:
            a0 = c3.make_aln(rows0, mol, array)
        except Exception:  # noqa: BLE001
            acc.count("states_not_entered_owning_property_disagrees")
            continue
        if c3.basic_problems(a0, m0):
            acc.count("states_not_entered_owning_property_disagrees")
            continue
        seen = {(c3.internal_key(a0), m0.key())}
        acc.state(0)
        check_aln_state(a0, m0, case0, [], acc)
        frontier = [(a0, m0, [])]
        for d in range(1, depth + 1):
            nxt = []
            for aln, m, hist in frontier:
                for op in aln_ops(m, spec.get("ops", "all")):
                    acc.transitions += 1
                    r, m2, probs, outcome = c3.step(aln, m, op)
                    if probs:
                        acc.count("states_not_entered_owning_property_disagrees")
                        continue
                    if r is None:
                        continue
                    k = (c3.internal_key(r), m2.key())
                    if k in seen:
                        continue
                    seen.add(k)
                    acc.state(d)
                    h2 = hist + [c3.jsonop(op)]
                    check_aln_state(r, m2, case0, h2, acc)
                    if d < depth:
                        nxt.append((r, m2, h2))
            frontier = nxt
    acc.sample({"part": "alignments", "moltype": mol, "rows": rows0, "depth": depth}, "alignments")


VIEW_KINDS = {"slice", "int", "rc", "to_dna", "to_rna", "take_positions", "take_seqs", "degapped_relative_to", "concat", "to_type", "copy", "deepcopy"}


def aln_ops(m, which):
    """C03's alphabet; 'views' = the operations that make a structurally new object (slices, rc, selections, conversions, concatenation) -
    the content filters (omit_gap_pos, no_degenerates, filtered, sample, omit_gap_seqs) select columns / rows through the same constructors"""
    for op in c3.alphabet(m):
        if which == "views" and (op[0] not in VIEW_KINDS or (op[0] == "take_positions" and op[2])):
            continue
        yield op


def alns_shards(b):
    out = []
    nrows = b["rows"]
    for mol, L, depth, ops in b["configs (moltype, columns, depth, operations)"]:
        n = len(list(c3.initial_rows(mol, nrows, L)))
        nchunks = max(1, min(n, {0: n // 64, 1: n // 4, 2: n}[depth] * (2 if ops == "all" and depth else 1)))
        nchunks = min(nchunks, n)
        for c in range(nchunks):
            out.append({"part": "alignments", "mol": mol, "nrows": nrows, "L": L, "depth": depth, "chunk": c, "of": nchunks, "ops": ops})
    return out


def alns_run(spec, acc):
    for i, rows in enumerate(c3.initial_rows(spec["mol"], spec["nrows"], spec["L"])):
        if i % spec["of"] == spec["chunk"]:
            alns_explore({"mol": spec["mol"], "rows": rows, "depth": spec["depth"], "ops": spec.get("ops", "all")}, acc)


def alns_replay(case, acc):
    mol, rows0 = case["mol"], dict((n, s) for n, s in case["rows"])
    aln = c3.make_aln(rows0, mol, case["array"])
    m = c3.Model(rows0, mol)
    for op in case["history"]:
        r, m2, probs, outcome = c3.step(aln, m, c3.unjson(op))
        if probs or r is None:
            return
        aln, m = r, m2
    check_aln_state(aln, m, {"part": "alignments", "mol": mol, "rows": case["rows"], "array": case["array"]}, case["history"], acc)


# ============================================================================= part: new-style SequenceCollection (own small K1)
COLL_SEQS = {"s1": "ACRM", "s2": "TGYK", "s3": "BDAC"}


def _rc(s, mol):
    return c1.rc_string(s, mol)


def coll_model_apply(model, op):
    mol, rows = model
    k = op[0]
    if k == "rc":
        return (mol, tuple((n, _rc(s, mol)) for n, s in rows))
    if k == "take_seqs":
        names = list(op[1])
        if op[2]:
            names = [n for n, _ in rows if n not in set(op[1])]
        d = dict(rows)
        return (mol, tuple((n, d[n]) for n in names))
    if k == "rename":
        return (mol, tuple((n.upper(), s) for n, s in rows))
    if k in ("to_rna", "to_dna"):
        new = k[3:]
        tr = str.maketrans("TU", "UT") if new != mol else {}
        return (new, tuple((n, s.translate(tr)) for n, s in rows))
    if k == "add_seqs":
        return (mol, rows + (("zz", "AC" if mol == "dna" else "AC"),))
    if k == "degap":
        return (mol, tuple((n, s.replace("-", "")) for n, s in rows))
    raise ValueError(op)


def coll_real_apply(c, op):
    k = op[0]
    if k == "rc":
        return c.rc()
    if k == "take_seqs":
        return c.take_seqs(list(op[1]), negate=op[2])
    if k == "rename":
        return c.rename_seqs(lambda n: n.upper())
    if k == "to_rna":
        return c.to_rna()
    if k == "to_dna":
        return c.to_dna()
    if k == "add_seqs":
        return c.add_seqs({"zz": "AC"})
    if k == "degap":
        return c.degap()
    raise ValueError(op)


def coll_ops(model):
    names = [n for n, _ in model[1]]
    ops = [("rc",), ("to_rna",), ("to_dna",), ("degap",)]
    if all(n == n.lower() for n in names):
        ops.append(("rename",))
    if "zz" not in [n.lower() for n in names]:
        ops.append(("add_seqs",))
    for r in range(1, len(names) + 1):
        for sub in itertools.permutations(names, r):
            if len(sub) < len(names) or list(sub) != names:
                ops.append(("take_seqs", sub, False))
    for n in names:
        if len(names) > 1:
            ops.append(("take_seqs", (n,), True))
    return ops


def coll_key(c):
    """content key of a new-style collection: names, moltype, stored strings, reversal flags and each member's view fields"""
    sd = c.seqs
    parts = [type(c).__name__, c.moltype.label, tuple(c.names)]
    for n in c.names:
        seq = c.seqs[n]
        v = seq._seq
        parts.append((type(seq).__name__, type(v).__name__) + tuple(getattr(v, a, None) for a in ("start", "stop", "step", "offset", "seq_len", "seqid")) + (str(seq), seq.name))
    rev = getattr(sd, "reversed", None)
    parts.append(tuple(sorted(rev)) if isinstance(rev, (set, frozenset)) else repr(rev))
    parts.append(tuple(sorted((str(k), str(sd.get_seq_str(seqid=k))) for k in getattr(sd, "names", []))))
    return tuple(parts)


def coll_rows(c):
    d = c.to_dict()
    return tuple((n, str(d[n])) for n in c.names)


def check_coll_state(c, model, case, acc):
    hist = case["history"]
    klass = "as constructed" if not hist else "after " + "/".join(sorted({op[0] for op in hist}))
    check_roundtrips(acc, "new-style SequenceCollection", klass, c, observe_coll, case, nontrivial=bool(hist))


def newcoll_explore(spec, acc):
    from cogent3 import make_unaligned_seqs

    L, nseqs, depth = spec["L"], spec["nseqs"], spec["depth"]
    data = {n: (s[:L] if i != 1 else s[: max(1, L - 1)]) for i, (n, s) in enumerate(list(COLL_SEQS.items())[:nseqs])}
    if spec.get("gapped"):
        data = {n: s[:1] + "-" + s[1:] for n, s in data.items()}
    c0 = make_unaligned_seqs(dict(data), moltype="dna", new_type=True, info={"k": "v"})
    model0 = ("dna", tuple(data.items()))
    base = {"part": "new_collections", "L": L, "nseqs": nseqs, "gapped": bool(spec.get("gapped"))}
    seen = {(coll_key(c0), model0)}
    acc.state(0)
    check_coll_state(c0, model0, dict(base, history=[]), acc)
    frontier = [(c0, model0, [])]
    for d in range(1, depth + 1):
        nxt = []
        for c, model, hist in frontier:
            for op in coll_ops(model):
                acc.transitions += 1
                m2 = coll_model_apply(model, op)
                try:
                    c2 = coll_real_apply(c, op)
                    ok = coll_rows(c2) == m2[1] and c2.moltype.label == m2[0]
                except Exception:  # noqa: BLE001
                    ok = False
                if not ok:
                    acc.count("states_not_entered_owning_property_disagrees")
                    continue
                k = (coll_key(c2), m2)
                if k in seen:
                    continue
                seen.add(k)
                acc.state(d)
                h2 = hist + [[list(x) if isinstance(x, tuple) else x for x in op]]
                check_coll_state(c2, m2, dict(base, history=h2), acc)
                if d < depth:
                    nxt.append((c2, m2, h2))
        frontier = nxt
    acc.sample({"part": "new_collections", "seqs": data, "depth": depth, "states": len(seen)}, "new_collections")


def newcoll_shards(b):
    out = []
    for L in range(1, b["max_len"] + 1):
        for nseqs in (1, 2, 3):
            for gapped in (False, True):
                if gapped and L < 2:
                    continue
                out.append({"part": "new_collections", "L": L, "nseqs": nseqs, "depth": b["depth"], "gapped": gapped})
    return out


def newcoll_replay(case, acc):
    from cogent3 import make_unaligned_seqs

    L, nseqs = case["L"], case["nseqs"]
    data = {n: (s[:L] if i != 1 else s[: max(1, L - 1)]) for i, (n, s) in enumerate(list(COLL_SEQS.items())[:nseqs])}
    if case.get("gapped"):
        data = {n: s[:1] + "-" + s[1:] for n, s in data.items()}
    c = make_unaligned_seqs(dict(data), moltype="dna", new_type=True, info={"k": "v"})
    model = ("dna", tuple(data.items()))
    for op in case["history"]:
        op = tuple(tuple(x) if isinstance(x, list) else x for x in op)
        model = coll_model_apply(model, op)
        c = coll_real_apply(c, op)
    check_coll_state(c, model, {k: case[k] for k in ("part", "L", "nseqs", "gapped", "history")}, acc)


# ============================================================================= part: annotated sequences / alignments (C04 state graph)
from vf.props import c04_annotations as c4  # noqa: E402


def feature_obs(x, on_alignment=None):
    kw = {"biotype": "gene", "allow_partial": True}
    if on_alignment is not None:
        kw["on_alignment"] = on_alignment
    out = []
    for f in x.get_features(**kw):
        try:
            sl = f.get_slice()
            sl = {n: str(v) for n, v in sl.to_dict().items()} if hasattr(sl, "to_dict") and hasattr(sl, "names") else str(sl)
        except Exception as e:  # noqa: BLE001
            sl = {"raised": type(e).__name__}
        out.append([f.name, f.biotype, bool(getattr(f, "reversed", False)), str(f.map), sl])
    return sorted(out, key=repr)


def observe_annotated(impl, with_features_in_dicts):
    def f(x, ch):
        o = Obs()
        o.add("class", lambda: type(x).__name__)
        o.add("str", lambda: str(x))
        o.add("name", lambda: x.name)
        if len(str(x)):
            o.add("parent_coordinates", lambda: coords_of(x))
        if with_features_in_dicts or ch not in DICT_FAMILY:
            o.add("features (name, biotype, reversed, map, slice)", lambda: feature_obs(x))
            o.add("number of db records", lambda: len(x.annotation_db) if x.annotation_db is not None else 0)
        return o

    f.per_channel = True
    return f


def check_annot_state(seq, v, impl, attach, case, acc):
    cls = ("reversed view" if v.rev else ("sliced or strided view" if case["history"] else "whole parent")) + f"; features via {attach}"
    # old-style to_rich_dict carries the annotation db; new-style documents that it does not
    check_roundtrips(acc, f"{impl} annotated sequence", cls, seq, observe_annotated(impl, impl == "old"), case, nontrivial=bool(case["history"]))


def annot_explore(spec, acc):
    impl, off, attach, L, depth, steps = spec["impl"], spec["off"], spec["attach"], spec["L"], spec["depth"], spec["steps"]
    parent = c4.PARENT[:L]
    feats = [f for i, f in enumerate(c4.feature_lattice(L)) if i % spec["fchunks"] == spec["fchunk"]]
    root = c4.make_root(impl, parent, off, feats, attach)
    v0 = c4.V(range(L))
    base = {"part": "annotated", "impl": impl, "off": off, "attach": attach, "L": L, "fchunk": [spec["fchunk"], spec["fchunks"]]}
    seen = {v0.key()}
    acc.state(0)
    check_annot_state(root, v0, impl, attach, dict(base, history=[]), acc)
    frontier = [(root, v0, [])]
    for d in range(1, depth + 1):
        nxt = []
        for seq, v, hist in frontier:
            for op in c4.view_alphabet(v, steps):
                acc.transitions += 1
                v2 = v.apply(op)
                try:
                    s2 = c4.real_apply(seq, op)
                except Exception:  # noqa: BLE001
                    acc.count("states_not_entered_owning_property_disagrees")
                    continue
                if str(s2) != v2.string(parent):
                    acc.count("states_not_entered_owning_property_disagrees")
                    continue
                if not v2.idx or v2.key() in seen:
                    continue
                seen.add(v2.key())
                acc.state(d)
                h2 = hist + [list(op)]
                check_annot_state(s2, v2, impl, attach, dict(base, history=h2), acc)
                if d < depth:
                    nxt.append((s2, v2, h2))
        frontier = nxt
    acc.sample({"part": "annotated", "impl": impl, "offset": off, "attach": attach, "parent": parent, "features": feats[:3], "views": len(seen)}, f"annot-{impl}")


def observe_annot_aln(a, ch):
    o = Obs()
    o.add("class", lambda: type(a).__name__)
    o.add("rows", lambda: {n: str(s) for n, s in a.to_dict().items()})
    o.add("row features (name, biotype, reversed, map, slice)", lambda: feature_obs(a, on_alignment=False))
    o.add("alignment features (name, biotype, reversed, map, slice)", lambda: feature_obs(a, on_alignment=True))
    o.add("number of db records", lambda: len(a.annotation_db) if a.annotation_db is not None else 0)
    return o


def annot_aln_build(rows, feature):
    from cogent3 import make_aligned_seqs

    aln = make_aligned_seqs(dict(rows), moltype="dna", array_align=False)
    if "seq" in feature:
        aln.get_seq(feature["seq"]).add_feature(biotype="gene", name="f", spans=[tuple(feature["span"])], strand=feature["strand"])
        aln.annotation_db = aln.get_seq(feature["seq"]).annotation_db
    else:
        aln.add_feature(biotype="gene", name="f", spans=[tuple(feature["on_alignment"])], on_alignment=True)
    return aln


def annot_aln_view(aln, view):
    a, b, do_rc = view
    v = aln if a is None else aln[a:b]
    return v.rc() if do_rc else v


def annot_aln_explore(spec, acc):
    L = spec["L"]
    res = ["ACRMBDWS", "SWDBMRCA"]
    for masks in itertools.product(itertools.product((0, 1), repeat=L), repeat=2):
        rows = {f"s{r + 1}": "".join("-" if masks[r][c] else res[r][c] for c in range(L)) for r in range(2)}
        if any(not r.replace("-", "") for r in rows.values()):
            continue
        if sum(map(sum, masks)) % spec["of"] != spec["chunk"]:
            continue
        n1 = len(rows["s1"].replace("-", ""))
        features = [{"seq": "s1", "span": [s, e], "strand": strand} for s in range(n1) for e in range(s + 1, n1 + 1) for strand in "+-"]
        features += [{"on_alignment": [s, e]} for s in range(L) for e in range(s + 1, L + 1)]
        views = [[None, None, False], [None, None, True]] + [[a, b, r] for a in range(L) for b in range(a + 1, L + 1) for r in (False, True) if (a, b) != (0, L)]
        for feature in features:
            for view in views:
                case = {"part": "annotated", "aln": rows, "feature": feature, "view": view}
                try:
                    v = annot_aln_view(annot_aln_build(rows, feature), view)
                except Exception:  # noqa: BLE001
                    acc.count("states_not_entered_owning_property_disagrees")
                    continue
                acc.state(0 if view[0] is None and not view[2] else (2 if view[0] is not None and view[2] else 1))
                cls = ("alignment-level feature" if "on_alignment" in feature else "row feature") + "; " + (
                    "whole alignment" if view[0] is None and not view[2] else ("rc" if view[0] is None else ("rc of slice" if view[2] else "slice")))
                check_roundtrips(acc, "annotated Alignment", cls, v, observe_annot_aln, case, nontrivial=view != [None, None, False])
    acc.sample({"part": "annotated", "alignment_length": L, "features": "every span on row s1 (both strands), every column span on the alignment", "views": "whole, rc, every slice, rc of every slice"}, "annot-aln")


def annot_shards(b):
    out = []
    for impl in ("old", "new"):
        for off, attach in [(0, "add_feature")] + [(o, "attached db") for o in b["offsets"]]:
            for fc in range(2):
                out.append({"part": "annotated", "kind": "seq", "impl": impl, "off": off, "attach": attach, "L": b["L"], "depth": b["depth"], "steps": b["steps"], "fchunk": fc, "fchunks": 2})
    n = 2 if b["aln_len"] < 3 else 5
    for c in range(n):
        out.append({"part": "annotated", "kind": "aln", "L": b["aln_len"], "chunk": c, "of": n})
    return out


def annot_run(spec, acc):
    if spec["kind"] == "seq":
        annot_explore(spec, acc)
    else:
        annot_aln_explore(spec, acc)


def annot_replay(case, acc):
    if "aln" in case:
        v = annot_aln_view(annot_aln_build(case["aln"], case["feature"]), case["view"])
        view, feature = case["view"], case["feature"]
        cls = ("alignment-level feature" if "on_alignment" in feature else "row feature") + "; " + (
            "whole alignment" if view[0] is None and not view[2] else ("rc" if view[0] is None else ("rc of slice" if view[2] else "slice")))
        check_roundtrips(acc, "annotated Alignment", cls, v, observe_annot_aln, {k: case[k] for k in ("part", "aln", "feature", "view")})
        return
    L = case["L"]
    parent = c4.PARENT[:L]
    feats = [f for i, f in enumerate(c4.feature_lattice(L)) if i % case["fchunk"][1] == case["fchunk"][0]]
    seq = c4.make_root(case["impl"], parent, case["off"], feats, case["attach"])
    v = c4.V(range(L))
    for op in case["history"]:
        op = tuple(op)
        seq, v = c4.real_apply(seq, op), v.apply(op)
    check_annot_state(seq, v, case["impl"], case["attach"], {k: case[k] for k in ("part", "impl", "off", "attach", "L", "fchunk", "history")}, acc)


# ============================================================================= part: annotation dbs (C17 state graph)
from vf.props import c17_annotation_db as c17  # noqa: E402


def observe_db(db, ch):
    o = Obs()
    got = c17.call(c17.observe, db)
    if got[0] != "ok":
        o.append(("records", {"raised": got[1]}, None))
        return o
    for k, v in got[1].items():
        o.append((k if k in ("class", "len") else ("records" if k == "rows" else f"query answers ({k})"), plain(v), None))
    return o


def db_ops(cls):
    return [op for op in c17.history_ops(cls) if op[0] not in ("deepcopy", "pickle", "rich_dict", "json", "init_db")]


def check_db_state(cls, init_name, hist, acc):
    init = c17.initial_dbs(cls)[init_name]
    r = c17.replay_history(cls, init, [tuple(tuple(x) if isinstance(x, list) else x for x in op) if not isinstance(op, tuple) else op for op in hist])
    if r[0] != "ok":
        return None
    db = r[1]
    hidden = c17.hidden_of(db)
    klass = f"{cls} db, " + ("file-backed" if hidden[0] == "file" else "in memory") + (", open transaction" if hidden[1] else "") + (
        "" if not hist else ", after " + "/".join(sorted({op[0] for op in hist})))
    case = {"part": "annotation_dbs", "cls": cls, "init": init_name, "history": [jsonable_op(op) for op in hist]}
    check_roundtrips(acc, "annotation db", klass, db, observe_db, case, nontrivial=bool(len(db)), idempotent=True)
    return db


def jsonable_op(op):
    return [x if not isinstance(x, tuple) else list(x) for x in op]


def dbs_explore(spec, acc):
    cls, init_name, depth = spec["cls"], spec["init"], spec["depth"]
    init = c17.initial_dbs(cls)[init_name]
    s0 = (cls, init, None)
    seen = set()
    frontier = [(s0, [])]
    for d in range(0, depth + 1):
        nxt = []
        for state, hist in frontier:
            if d > 0:
                acc.transitions += 1
            db = check_db_state(cls, init_name, hist, acc) if state[0] != "err" else None
            if db is None:
                continue
            k = c17.canon(state, c17.hidden_of(db))
            if k in seen:
                continue
            seen.add(k)
            acc.state(d)
            if d < depth:
                for op in db_ops(state[0]):
                    m = c17.model_apply(state, op)
                    if m[0] == "err" or len(m[1]) > 4:
                        continue
                    nxt.append((m, hist + [op]))
        frontier = nxt
    acc.sample({"part": "annotation_dbs", "class": cls, "initial": init_name, "depth": depth, "states": len(seen)}, "annotation_dbs")


def dbs_shards(b):
    return [{"part": "annotation_dbs", "cls": cls, "init": init, "depth": b["depth"]} for cls in c17.CLASSES for init in c17.initial_dbs(cls)]


def dbs_replay(case, acc):
    def un(op):
        out = []
        for x in op:
            out.append(x)
        return tuple(out)

    check_db_state(case["cls"], case["init"], [un(op) for op in case["history"]], acc)


# ============================================================================= part: maps (C08 input space + derived states)
from vf.props import c08_maps as c8  # noqa: E402


def observe_indel(m, ch):
    o = Obs()
    o.add("class", lambda: type(m).__name__)
    o.add("gap layout", lambda: c8.render(m))
    o.add("len", lambda: len(m))
    o.add("parent_length", lambda: int(m.parent_length))
    o.add("gap_pos", lambda: m.gap_pos.tolist())
    o.add("cum_gap_lengths", lambda: m.cum_gap_lengths.tolist())
    o.add("termini_unknown", lambda: bool(m.termini_unknown))
    o.add("get_gap_coordinates", lambda: m.get_gap_coordinates())
    return o


def observe_fmap(m, ch):
    o = Obs()
    o.add("class", lambda: type(m).__name__)
    o.add("positions", lambda: c8.table_of_map(m))
    o.add("len", lambda: len(m))
    o.add("parent_length", lambda: int(m.parent_length))
    o.add("spans", lambda: [[type(sp).__name__, bool(sp.lost), len(sp)] + ([int(sp.start), int(sp.end), bool(sp.reverse)] if not sp.lost else []) for sp in m.spans])
    o.add("get_coordinates", lambda: [list(map(int, c)) for c in m.get_coordinates()])
    return o


def indel_states(s):
    """(label, map) - the map of s and every map derived from it by one operation"""
    m = c8.build_map(s)
    yield ["construct"], m
    L = len(s)
    for a in range(L + 1):
        for b in range(a, L + 1):
            if (a, b) != (0, L):
                yield ["slice", a, b], m[a:b]
    yield ["nucleic_reversed"], m.nucleic_reversed()
    yield ["with_termini_unknown"], m.with_termini_unknown()
    yield ["mul", 3], m * 3
    if L:
        yield ["joined", [[0, 1], [L - 1, L]]], m.joined_segments([(0, 1), (L - 1, L)])


PRIMER = "A-C--D"  # gap runs of length 1 and 2


def prime_lost_span_cache():
    """what any gapped Alignment does when its features are queried: IndelMap.to_feature_map() creates lost spans from numpy integers"""
    c8.build_map(PRIMER).to_feature_map()


def fmap_states(desc, P, primed=False):
    if primed:
        reset_library_caches()
        prime_lost_span_cache()
    fm = c8.make_fmap(desc, P)
    yield ["construct"], fm
    if primed:
        return
    n = len(fm)
    for a in range(n + 1):
        for b in range(a, n + 1):
            if (a, b) != (0, n):
                yield ["slice", a, b], fm[a:b]
    for name in ("nucleic_reversed", "covered", "gaps", "without_gaps", "shadow", "inverse", "get_covering_span"):
        try:
            yield [name], getattr(fm, name)()
        except Exception:  # noqa: BLE001 - not defined for this map (C08's subject)
            continue


def maps_run(spec, acc):
    if spec["kind"] == "indel":
        for i, s in enumerate(c8.mask_strings(spec["n"])):
            if i % spec["of"] != spec["chunk"]:
                continue
            seen = set()
            for label, m in indel_states(s):
                k = (m.gap_pos.tolist().__repr__(), m.cum_gap_lengths.tolist().__repr__(), int(m.parent_length), bool(m.termini_unknown))
                acc.transitions += label != ["construct"]
                if k in seen:
                    continue
                seen.add(k)
                acc.state(0 if label == ["construct"] else 1)
                cls = "as constructed" if label == ["construct"] else f"after {label[0]}"
                check_roundtrips(acc, "IndelMap", cls, m, observe_indel, {"part": "maps", "kind": "indel", "s": s, "op": label},
                                 nontrivial="-" in s and bool(c8.degap(s)))
            # the feature map of the gap layout
            reset_library_caches()
            acc.state(1)
            acc.transitions += 1
            check_roundtrips(acc, "FeatureMap", "made by IndelMap.to_feature_map()", c8.build_map(s).to_feature_map(), observe_fmap,
                             {"part": "maps", "kind": "indel", "s": s, "op": ["to_feature_map"]}, nontrivial="-" in s and bool(c8.degap(s)))
            reset_library_caches()
        acc.sample({"part": "maps", "kind": "IndelMap", "length": spec["n"], "states": "construct, every slice, reversal, termini unknown, x3, joined segments"}, "maps-indel")
    else:
        P, k = spec["P"], spec["k"]
        for i, desc in enumerate(itertools.product(c8.all_spans(P), repeat=k)):
            if i % spec["of"] != spec["chunk"]:
                continue
            seen = set()
            desc = [list(d) for d in desc]
            for label, fm in fmap_states(desc, P):
                key = repr([[bool(sp.lost), len(sp)] + ([int(sp.start), int(sp.end), bool(sp.reverse)] if not sp.lost else []) for sp in fm.spans]) + str(fm.parent_length)
                acc.transitions += label != ["construct"]
                if key in seen:
                    continue
                seen.add(key)
                acc.state(0 if label == ["construct"] else 1)
                cls = "as constructed" if label == ["construct"] else f"after {label[0]}"
                check_roundtrips(acc, "FeatureMap", cls, fm, observe_fmap, {"part": "maps", "kind": "fmap", "desc": desc, "P": P, "op": label},
                                 nontrivial=len(desc) > 1)
            if any(d[0] == "l" for d in desc):
                # the same map built after the library's shared lost-span cache was filled by an alignment's gap map
                for label, fm in fmap_states(desc, P, primed=True):
                    acc.state(1)
                    acc.transitions += 1
                    check_roundtrips(acc, "FeatureMap", "has a lost span; an IndelMap.to_feature_map() call came first in the process", fm, observe_fmap,
                                     {"part": "maps", "kind": "fmap", "desc": desc, "P": P, "op": label, "primed": True}, nontrivial=True)
                reset_library_caches()
        acc.sample({"part": "maps", "kind": "FeatureMap", "parent_length": P, "spans": k}, "maps-fmap")


def maps_shards(b):
    out = []
    for n in range(0, b["indel_len"] + 1):
        nchunks = 1 if n < 5 else (4 if n < 7 else 16)
        for c in range(nchunks):
            out.append({"part": "maps", "kind": "indel", "n": n, "chunk": c, "of": nchunks})
    for P in range(1, b["fmap_parent"] + 1):
        for k in range(0, b["fmap_spans"] + 1):
            nchunks = 1 if k < 2 else 4
            for c in range(nchunks):
                out.append({"part": "maps", "kind": "fmap", "P": P, "k": k, "chunk": c, "of": nchunks})
    return out


def maps_replay(case, acc):
    if case["kind"] == "indel" and case["op"] == ["to_feature_map"]:
        check_roundtrips(acc, "FeatureMap", "made by IndelMap.to_feature_map()", c8.build_map(case["s"]).to_feature_map(), observe_fmap, {k: case[k] for k in ("part", "kind", "s", "op")})
    elif case["kind"] == "indel":
        for label, m in indel_states(case["s"]):
            if label == case["op"]:
                cls = "as constructed" if label == ["construct"] else f"after {label[0]}"
                check_roundtrips(acc, "IndelMap", cls, m, observe_indel, {k: case[k] for k in ("part", "kind", "s", "op")})
                return
    else:
        for label, fm in fmap_states(case["desc"], case["P"], primed=bool(case.get("primed"))):
            if label == case["op"]:
                cls = "as constructed" if label == ["construct"] else f"after {label[0]}"
                if case.get("primed"):
                    cls = "has a lost span; an IndelMap.to_feature_map() call came first in the process"
                check_roundtrips(acc, "FeatureMap", cls, fm, observe_fmap, {k: case[k] for k in ("part", "kind", "desc", "P", "op", "primed") if k in case})
                return


# ============================================================================= part: trees (shapes and operations of C09)
from vf.models import treegraph as tg  # noqa: E402
from vf.props import c09_trees as c9  # noqa: E402


def _clades(t):
    """[sorted tips below, node] for every node, root first"""
    out = []

    def walk(n):
        below = [n.name] if not n.children else sorted(x for c in n.children for x in walk(c))
        out.append((below, n))
        return below

    walk(t)
    return out[::-1]


def _user_names_kept(want, got):
    """every internal node the user named (name_loaded) keeps its name on the node with the same tips below it;
    names the library generates for unnamed nodes (edge.N) are free"""
    if not isinstance(want, list) or not isinstance(got, list):
        return want == got
    g = {}
    for tips, name, _ in got:
        g.setdefault(json.dumps(tips), []).append(name)  # nodes with one child share their tips
    return all(name in g.get(json.dumps(tips), []) for tips, name, loaded in want if loaded and name is not None)


def observe_tree(t, ch):
    o = Obs()
    model = None
    try:
        model = c9.from_real(t)
    except Exception:  # noqa: BLE001
        pass
    o.add("class", lambda: type(t).__name__)
    o.add("tip names", lambda: sorted(tg.tips(model)))
    o.add("tip order", lambda: list(tg.tips(model)))
    o.add("path lengths", lambda: sorted([list(k) if isinstance(k, tuple) else k, v] for k, v in tg.path_sums(model).items()))
    o.add("splits", lambda: tg.splits_jsonable(tg.splits(model)))
    o.add("names of user-named internal nodes", lambda: [[tips, n.name, bool(n.name_loaded)] for tips, n in _clades(t) if n.children and n.parent is not None], tol=_user_names_kept)
    o.add("edge lengths by clade", lambda: [[tips, n.length] for tips, n in _clades(t) if n.parent is not None])
    if ch != "newick":
        o.add("root length", lambda: t.length)
        o.add("other edge params by clade", lambda: [[tips, sorted((str(k), plain(v)) for k, v in n.params.items() if v is not None and k != "length")] for tips, n in _clades(t)])
    return o


observe_tree.per_channel = True


def tree_ops(model):
    ops = []
    tips = tg.tips(model)
    internal = [n[0] for n in tg.nodes(model)[1:] if n[2] and n[0] is not None]
    ops.append(["unrooted"])
    for name in tips:
        ops.append(["rooted_with_tip", name])
    for name in internal:
        ops.append(["rooted_at", name])
    for r in range(2, len(tips)):
        for S in itertools.combinations(tips, r):
            ops.append(["subtree", list(S), False, False, False])
    ops.append(["midpoint"])
    ops.append(["bifurcating"])
    ops.append(["sorted", tips[::-1]])
    return ops


def tree_class(model, hist):
    names = [n[0] for n in tg.nodes(model)][1:]
    f = []
    if any(x is None for x in names):
        f.append("node without a name")
    named = [x for x in names if x is not None]
    if len(set(named)) != len(named):
        f.append("duplicate node names")
    return ", ".join(f) or "all nodes uniquely named"


def check_tree_state(t, init, hist, acc):
    model = c9.from_real(t)
    case = {"part": "trees", "init": tg.to_jsonable(init), "history": hist}
    klass = tree_class(model, hist)
    check_roundtrips(acc, "PhyloNode", klass, t, observe_tree, case, nontrivial=len(tg.tips(model)) >= 3)
    if len(hist) <= 1:
        # the same tree with values on the root node itself (a stem length, a calibration)
        tr = t.deepcopy()
        tr.length = 0.5
        tr.params["calibration"] = [1, 2]
        check_roundtrips(acc, "PhyloNode", klass + "; root node carries a length and a parameter", tr, observe_tree, dict(case, root_params=True), nontrivial=len(tg.tips(model)) >= 3)
    # newick text as a serialisation channel of its own
    from cogent3 import make_tree

    acc.case(dict(case, channel="newick"), nontrivial=len(tg.tips(model)) >= 3)
    acc.transitions += 1
    want = observe_tree(t, "newick")
    try:
        r = make_tree(t.get_newick(with_distances=True, with_node_names=True))
    except Exception as e:  # noqa: BLE001
        acc.fail(f"PhyloNode: newick round trip raised {type(e).__name__} [{klass}]", dict(case, channel="newick"), {"error": str(e)[:300]})
        return
    diff = first_difference(want, observe_tree(r, "newick"))
    if diff:
        acc.fail(f"PhyloNode: newick round trip: {diff[0]} differs [{klass}]", dict(case, channel="newick"), {"observable": diff[0], "got": diff[1], "want": diff[2]})
    acc.outcome(("tree", "newick", bool(diff)))


def trees_build(init):
    from cogent3 import make_tree

    return make_tree(tg.newick(init))


def trees_explore(spec, acc):
    shape = tg.from_jsonable(spec["shape"]) if False else spec["shape"]
    init = c9.initial_model(_tuplify(shape), spec["scheme"])
    t0 = trees_build(init)
    seen = {c9.real_key(t0)}
    acc.state(0)
    check_tree_state(t0, init, [], acc)
    frontier = [(t0, [])]
    for d in range(1, spec["depth"] + 1):
        nxt = []
        for t, hist in frontier:
            model = c9.from_real(t)
            for op in tree_ops(model):
                acc.transitions += 1
                try:
                    # operations documented to return new trees; rebuilt from the history so the receiver is never shared
                    t2 = c9.apply_real(trees_rebuild(init, hist), op)
                    c9.from_real(t2)
                except Exception:  # noqa: BLE001 - what the operation does is C09's subject
                    acc.count("states_not_entered_owning_property_disagrees")
                    continue
                k = c9.real_key(t2)
                if k in seen:
                    continue
                seen.add(k)
                acc.state(d)
                h2 = hist + [op]
                check_tree_state(t2, init, h2, acc)
                if d < spec["depth"]:
                    nxt.append((t2, h2))
        frontier = nxt
    acc.sample({"part": "trees", "newick": tg.newick(init), "depth": spec["depth"], "states": len(seen)}, "trees")


def trees_rebuild(init, hist):
    t = trees_build(init)
    for op in hist:
        t = c9.apply_real(t, op)
    return t


def _tuplify(x):
    return tuple(_tuplify(v) for v in x)


def _listify(x):
    return [_listify(v) for v in x]


def trees_shards(b):
    out = []
    for n in range(2, b["max_tips"] + 1):
        for shape in tg.shapes(n):
            for scheme in ("pow2-named", "ones-unnamed") + (("nodelike-mixed",) if n >= 4 else ()):
                out.append({"part": "trees", "shape": _listify(shape), "scheme": scheme, "depth": b["depth"], "tips": n})
    out.sort(key=lambda s: -s["tips"])
    return out


def trees_replay(case, acc):
    init = tg.from_jsonable(case["init"])
    t = trees_rebuild(init, case["history"])
    check_tree_state(t, init, case["history"], acc)


# ============================================================================= part: likelihood functions (C07 controller histories + per-model states)
TREE3 = "(a:0.1,b:0.2,c:0.3)"
NT3 = {"a": "ACGTACGTTACG", "b": "ACGTACGCTACA", "c": "ATGTACGTCACG"}
NT3B = {"a": "ACGTAAGTTACG", "b": "ACGTACGCTTCA", "c": "ATGTACGTCACG"}
CODON3 = {"a": "ATGGCTCGTAAC", "b": "ATGGCCCGTAAT", "c": "ATGGCTCGGAAC"}
PROT3 = {"a": "MARNDCQEGH", "b": "MARNDCQEGW", "c": "MSRNDCKEGH"}


def _stats_dict(lf):
    out = {}
    for t in lf.get_statistics(with_motif_probs=False, with_titles=True):
        out[str(t.title)] = [[h, plain(t.columns[h].tolist())] for h in t.header]
    return out


def _rules(lf):
    rules = []
    for r in lf.get_param_rules():
        r = dict(r)
        for k in ("edges", "loci", "bins"):
            if isinstance(r.get(k), (list, tuple)):
                r[k] = sorted(r[k])
        rules.append(plain(r))
    return sorted(rules, key=lambda r: json.dumps(r, sort_keys=True, default=repr))


def _mprobs(lf):
    mp = lf.get_motif_probs()
    if isinstance(mp, dict):
        return {k: v.to_dict() for k, v in mp.items()}
    return mp.to_dict()


def observe_lf(lf, ch):
    o = Obs()
    o.add("class", lambda: type(lf).__name__)
    o.add("lnL", lambda: float(lf.get_log_likelihood()), tol=LNL_TOL)
    o.add("nfp", lambda: int(lf.get_num_free_params()))
    o.add("name", lambda: lf.get_name())
    o.add("motif probs", lambda: _mprobs(lf), tol=LNL_TOL)
    o.add("parameter values (get_statistics)", lambda: _stats_dict(lf), tol=LNL_TOL)
    o.add("parameter rules", lambda: _rules(lf), tol=LNL_TOL)
    o.add("tree tips and edge names", lambda: [sorted(lf.tree.get_tip_names()), sorted(str(e.name) for e in lf.tree.get_edge_vector())])
    o.add("alignment", lambda: _aln_rows(lf))
    return o


def _aln_rows(lf):
    defn = lf.defn_for["alignment"]
    if len(defn.index) == 1:
        a = lf.get_param_value("alignment")
        return {n: str(s) for n, s in a.to_dict().items()}
    return {r["locus"]: {n: str(s) for n, s in r["value"].to_dict().items()} for r in defn.get_param_rules()}


def lf_key(lf):
    d = lf.to_rich_dict()
    return strip_version(d)


def lf_hist_class(hist):
    if not hist:
        return "as constructed"
    kinds = set()
    for op in hist:
        ops = op[1:] if op[0] == "postponed" else [op]
        for x in ops:
            kinds.add(x[0] if x[0] != "rule" else f"rule {x[1]}")
    return "after " + "/".join(sorted(kinds))


def lf_hist_build(hist, reduced=True):
    from vf.props import c07_recalc as c7

    sysm = c7.LfSystem({"reduced": reduced})
    lf = sysm.fresh()
    for op in hist:
        if sysm.apply(lf, op)[0] != "ok":
            return None
    return lf


def lf_hist_explore(spec, acc):
    from vf.props import c07_recalc as c7

    reduced = spec["alphabet"] == "reduced"
    ops = [op for op in c7.lf_ops(reduced=reduced)]
    first = [ops[i] for i in range(len(ops)) if i % spec["of"] == spec["chunk"]]
    seen = set()

    def visit(hist, d):
        lf = lf_hist_build(hist, reduced)
        if lf is None:
            acc.count("histories_refused_by_the_controller")
            return False
        try:
            k = lf_key(lf)
        except Exception as e:  # noqa: BLE001
            acc.fail(f"likelihood function: to_rich_dict raised {type(e).__name__} [{lf_hist_class(hist)}]", {"part": "lf", "kind": "history", "history": hist}, {"error": str(e)[:300]})
            return False
        if k in seen:
            return False
        seen.add(k)
        acc.state(d)
        check_roundtrips(acc, "likelihood function", lf_hist_class(hist), lf, observe_lf, {"part": "lf", "kind": "history", "history": hist, "alphabet": spec["alphabet"]}, nontrivial=bool(hist))
        return True

    if spec["chunk"] == 0:
        visit([], 0)
    for op in first:
        acc.transitions += 1
        if not visit([op], 1):
            continue
        if spec["depth"] >= 2:
            for op2 in ops:
                acc.transitions += 1
                visit([op, op2], 2)
    acc.sample({"part": "lf", "model": "HKY85", "first operations": first[:3], "depth": spec["depth"], "states": len(seen)}, "lf-history")


def model_data(name):
    """(alignment rows, moltype) suited to the model"""
    fam = model_family(name)
    if "protein" in fam:
        return PROT3, "protein"
    if "codon" in fam:
        return CODON3, "dna"
    return NT3, "dna"


LF_STATES = ("default", "named", "optimised", "independent", "constant length", "motif probs set")


def lf_static_build(name, state):
    from cogent3 import get_model, make_aligned_seqs, make_tree

    kw = {}
    if state == "gamma bins":
        kw = dict(ordered_param="rate", distribution="gamma")
    sm = get_model(name, **kw)
    rows, mol = model_data(name)
    tree = make_tree(TREE3)
    if state == "two loci":
        lf = sm.make_likelihood_function(tree, loci=["l1", "l2"])
        lf.set_alignment([make_aligned_seqs(NT3, moltype="dna"), make_aligned_seqs(NT3B, moltype="dna")])
        lf.set_param_rule("kappa", loci=["l1"], init=3.0)
        return lf
    lf = sm.make_likelihood_function(tree, bins=2) if state == "gamma bins" else sm.make_likelihood_function(tree)
    lf.set_alignment(make_aligned_seqs(rows, moltype=mol, info={"source": "mem"}))
    if state == "gamma bins":
        lf.set_param_rule("rate_shape", init=0.7)
    elif state == "named":
        lf.set_name("my-lf")
    elif state == "optimised":
        lf.optimise(local=True, max_evaluations=5, limit_action="ignore", show_progress=False)
    elif state == "independent":
        pars = [p for p in lf.get_param_names() if p not in ("length", "mprobs", "psubs")]
        if not pars:
            return None
        lf.set_param_rule(pars[0], is_independent=True)
        lf.set_param_rule(pars[0], edge="a", init=1.7)
    elif state == "constant length":
        if "length" not in lf.get_param_names():
            return None
        lf.set_param_rule("length", edges=["a", "b"], is_constant=True, value=0.25)
        lf.set_param_rule("length", edge="c", init=0.6, upper=5.0)
    elif state == "motif probs set":
        mp = lf.get_motif_probs().to_dict()
        keys = sorted(mp)
        w = {k: 1.0 + (i % 3) for i, k in enumerate(keys)}
        tot = sum(w.values())
        lf.set_motif_probs({k: v / tot for k, v in w.items()})
    return lf


_DEFAULT_KINDS = {}


def default_state_kinds(name):
    """what goes wrong (if anything) with the round trips of the model's likelihood function as constructed"""
    if name not in _DEFAULT_KINDS:
        from vf.kernel.runner import Acc

        kinds = set()
        try:
            check_roundtrips(Acc(), "likelihood function", "", lf_static_build(name, "default"), observe_lf, {}, kinds_out=kinds)
        except Exception:  # noqa: BLE001
            pass
        _DEFAULT_KINDS[name] = kinds
    return _DEFAULT_KINDS[name]


def lf_state_class(name, state):
    """minimal structural class: a failure the freshly constructed function of the model shows too is a property of the model
    family, otherwise of the state"""
    family = model_family(name)
    if state == "default":
        return f"{family} model"
    return lambda kind: f"{family} model" if kind in default_state_kinds(name) else state


def lf_static_run(spec, acc):
    name, state = spec["model"], spec["state"]
    case = {"part": "lf", "kind": "model", "model": name, "state": state}
    try:
        lf = lf_static_build(name, state)
    except Exception as e:  # noqa: BLE001 - building the state is not this property's subject
        acc.count("lf_states_not_constructible")
        acc.notes.setdefault("lf_states_not_constructible", []).append(f"{name}/{state}: {type(e).__name__}")
        return
    if lf is None:
        return
    acc.state(0 if state == "default" else 1)
    check_roundtrips(acc, "likelihood function", lf_state_class(name, state), lf, observe_lf, case, nontrivial=state != "default")
    acc.sample({"part": "lf", "model": name, "state": state}, "lf-model")


_MODEL_TYPES = {}
DISCRETE = {"BH", "DT"}
NON_REVERSIBLE = {"GN", "ssGN", "GNC"}


def model_family(name):
    """family of a named model, from the library's own model table (constructing a codon model takes seconds)"""
    if not _MODEL_TYPES:
        from cogent3 import available_models

        for typ, abbr, _ in available_models().to_list():
            _MODEL_TYPES[str(abbr)] = str(typ)
    typ = _MODEL_TYPES[name]
    if name in DISCRETE:
        return "discrete-time nucleotide"
    if typ == "protein":
        return "empirical protein"
    return ("non-reversible " if name in NON_REVERSIBLE else "") + typ


def all_model_names():
    from cogent3 import available_models

    return [str(x) for x in available_models().to_list("Abbreviation")]


def lf_shards(b):
    out = []
    nchunks = 8 if b["depth"] < 2 else 16
    for c in range(nchunks):
        out.append({"part": "lf", "kind": "history", "alphabet": b["alphabet"], "depth": b["depth"], "chunk": c, "of": nchunks})
    names = all_model_names() if b["models"] == "all" else b["models"]
    for name in names:
        for state in list(LF_STATES) + (["gamma bins", "two loci"] if name == "HKY85" else []):
            out.append({"part": "lf", "kind": "model", "model": name, "state": state})
    return out


def lf_run(spec, acc):
    if spec["kind"] == "history":
        lf_hist_explore(spec, acc)
    else:
        lf_static_run(spec, acc)


def lf_replay(case, acc):
    if case["kind"] == "history":
        lf = lf_hist_build(case["history"], case.get("alphabet", "reduced") == "reduced")
        if lf is not None:
            check_roundtrips(acc, "likelihood function", lf_hist_class(case["history"]), lf, observe_lf, {k: case[k] for k in ("part", "kind", "history") if k in case})
    else:
        lf = lf_static_build(case["model"], case["state"])
        if lf is not None:
            check_roundtrips(acc, "likelihood function", lf_state_class(case["model"], case["state"]), lf, observe_lf, {k: case[k] for k in ("part", "kind", "model", "state")})


# ============================================================================= part: static registry list
def observe_old_alphabet(a, ch):
    o = Obs()
    o.add("class", lambda: type(a).__name__)
    o.add("motifs", lambda: [str(m) if not isinstance(m, (str, int)) else m for m in a])
    o.add("moltype", lambda: a.moltype.label if getattr(a, "moltype", None) is not None else None)
    o.add("motif length", lambda: a.get_motif_len())
    o.add("gap motif", lambda: a.get_gap_motif() if hasattr(a, "get_gap_motif") else None)
    o.add("to_indices(first three motifs)", lambda: [int(i) for i in a.to_indices(list(a)[:3])])
    return o


def observe_new_alphabet(a, ch):
    o = Obs()
    o.add("class", lambda: type(a).__name__)
    o.add("motifs", lambda: list(a))
    o.add("len", lambda: len(a))
    o.add("motif length", lambda: a.motif_len if hasattr(a, "motif_len") else a.motif_length)
    o.add("gap_char, missing_char", lambda: [a.gap_char, a.missing_char])
    o.add("gap_index, missing_index", lambda: [a.gap_index, a.missing_index])
    o.add("num_canonical", lambda: a.num_canonical)
    o.add("moltype", lambda: getattr(getattr(a, "moltype", None), "label", None))
    o.add("to_indices(first two motifs joined)", lambda: a.to_indices("".join(str(m) for m in list(a)[:2])).tolist())
    return o


def observe_old_moltype(m, ch):
    o = Obs()
    o.add("class", lambda: type(m).__name__)
    o.add("label", lambda: m.label)
    o.add("alphabet", lambda: list(m.alphabet))
    o.add("degen gapped alphabet", lambda: list(m.alphabets.degen_gapped))
    o.add("ambiguities", lambda: {k: sorted(v) for k, v in m.ambiguities.items()})
    o.add("complements", lambda: dict(m.complements) if m.complements else {})
    o.add("gaps, missing", lambda: [sorted(m.gaps), m.missing])
    o.add("make_seq('ACG'): class, str, moltype", lambda: [type(m.make_seq("ACG")).__name__, str(m.make_seq("ACG")), m.make_seq("ACG").moltype.label])
    return o


def observe_new_moltype(m, ch):
    o = Obs()
    o.add("class", lambda: type(m).__name__)
    o.add("label", lambda: m.label)
    o.add("alphabet", lambda: list(m.alphabet))
    o.add("all alphabets", lambda: [list(a) for a in m.iter_alphabets()])
    o.add("ambiguities", lambda: {k: sorted(v) for k, v in (m.ambiguities or {}).items()})
    o.add("complements", lambda: dict(m.complements) if m.complements else {})
    o.add("gap, missing", lambda: [m.gap, m.missing])
    o.add("make_seq('ACG'): class, str, moltype", lambda: [type(m.make_seq(seq="ACG")).__name__, str(m.make_seq(seq="ACG")), m.make_seq(seq="ACG").moltype.label])
    return o


ALL_CODONS = "".join(a + b + c for a in "TCAG" for b in "TCAG" for c in "TCAG")


def observe_code(g, ch):
    o = Obs()
    o.add("class", lambda: type(g).__name__)
    o.add("ID", lambda: g.ID)
    o.add("name", lambda: g.name)
    o.add("translate(all 64 codons)", lambda: str(g.translate(ALL_CODONS)))
    o.add("start codons", lambda: sorted(g.start_codons if not isinstance(g.start_codons, dict) else g.start_codons))
    o.add("sense codons", lambda: sorted(g.sense_codons))
    o.add("is_stop('TAA'), is_stop('TGA')", lambda: [bool(g.is_stop("TAA")), bool(g.is_stop("TGA"))])
    o.add("codon alphabet", lambda: [str(c) for c in g.get_alphabet()])
    return o


def observe_dictarray(d, ch):
    o = Obs()
    o.add("class", lambda: type(d).__name__)
    o.add("names", lambda: [list(n) for n in d.template.names])
    o.add("array", lambda: d.array.tolist())
    o.add("to_dict", lambda: d.to_dict())
    o.add("dtype kind", lambda: d.array.dtype.kind)
    return o


def observe_dm(d, ch):
    o = Obs()
    o.add("class", lambda: type(d).__name__)
    o.add("names", lambda: list(d.names))
    o.add("distances", lambda: {f"{a}|{b}": v for (a, b), v in d.to_dict().items()})
    o.add("array", lambda: d.array.tolist())
    return o


def observe_table(t, ch):
    o = Obs()
    o.add("class", lambda: type(t).__name__)
    o.add("header", lambda: list(t.header))
    o.add("shape", lambda: list(t.shape))
    o.add("columns", lambda: [[h, plain(t.columns[h].tolist())] for h in t.header])
    o.add("cell types", lambda: [[h, [type(plain(v)).__name__ for v in t.columns[h].tolist()]] for h in t.header])
    o.add("title, legend", lambda: [t.title, t.legend])
    o.add("index_name", lambda: t.index_name)
    return o


def observe_model(name_hint=None):
    def f(sm, ch):
        from cogent3 import make_aligned_seqs, make_tree

        o = Obs()
        o.add("class", lambda: type(sm).__name__)
        o.add("name", lambda: sm.name)
        o.add("alphabet", lambda: [str(m) for m in sm.get_alphabet()])
        o.add("genetic code", lambda: getattr(getattr(sm, "gc", None), "ID", None))
        o.add("moltype", lambda: sm.get_alphabet().moltype.label)
        o.add("word length", lambda: sm.get_word_length())
        o.add("parameter names", lambda: sorted(sm.get_param_list()))
        o.add("rate-matrix predicates", lambda: {str(k): v.tolist() for k, v in sm.predicate_masks.items()})
        o.add("motif-prob model", lambda: type(sm.mprob_model).__name__)

        def lnl():
            rows, mol = model_data(name_hint)
            lf = sm.make_likelihood_function(make_tree(TREE3))
            lf.set_alignment(make_aligned_seqs(rows, moltype=mol))
            return [float(lf.get_log_likelihood()), int(lf.get_num_free_params()), sorted(lf.get_param_names())]

        o.add("default likelihood function: lnL, nfp, parameter names", lnl, tol=LNL_TOL)
        return o

    return f


def observe_nc(x, ch):
    o = Obs()
    o.add("class", lambda: type(x).__name__)
    o.add("truth value", lambda: bool(x))
    o.add("type", lambda: x.type)
    o.add("origin", lambda: x.origin)
    o.add("message", lambda: x.message)
    o.add("source", lambda: x.source)
    o.add("str", lambda: str(x))
    return o


def _result_value(v):
    """observable content of a value stored in a result object"""
    if hasattr(v, "get_log_likelihood"):
        return {"lf": [(w[0], w[1]) for w in observe_lf(v, None)]}
    if hasattr(v, "to_dict") and hasattr(v, "header"):
        return {"table": [[h, plain(v.columns[h].tolist())] for h in v.header]}
    if hasattr(v, "to_dict") and hasattr(v, "names") and hasattr(v, "moltype"):
        return {"seqs": {n: str(s) for n, s in v.to_dict().items()}}
    if hasattr(v, "template") and hasattr(v, "array"):
        return {"dictarray": v.to_dict()}
    if hasattr(v, "keys") and hasattr(v, "deserialised_values"):
        return {"result": {str(k): _result_value(v[k]) for k in v}}
    return plain(v)


def observe_result(r, ch):
    o = Obs()
    if hasattr(r, "deserialised_values"):
        try:
            r.deserialised_values()
        except Exception:  # noqa: BLE001 - shows up in the observations below
            pass
    o.add("class", lambda: type(r).__name__)
    o.add("keys", lambda: [plain(k) for k in r])
    o.add("source", lambda: r.source)
    for attr in ("name", "lnL", "nfp", "DLC", "unique_Q", "LR", "df", "pvalue", "num_evaluations", "elapsed_time", "evaluation_limit"):
        if hasattr(type(r), attr) or hasattr(r, attr):
            o.add(attr, lambda attr=attr: getattr(r, attr), tol=LNL_TOL)
    o.add("values", lambda: {str(plain(k)): _result_value(r[k]) for k in r}, tol=LNL_TOL)
    return o


def _tiny_aln(kind="nt"):
    from cogent3 import make_aligned_seqs

    if kind == "codon":
        return make_aligned_seqs(CODON3, moltype="dna", info={"source": "codon.fa"})
    return make_aligned_seqs(NT3, moltype="dna", info={"source": "nt.fa"})


OPT = dict(max_evaluations=5, limit_action="ignore")


def static_items(family, b):
    """yields (item id, what, class text, builder, observer, nontrivial)"""
    import numpy

    from cogent3 import get_app, get_model, make_aligned_seqs, make_table
    from cogent3.app.composable import NotCompleted
    from cogent3.core import alphabet as old_alpha
    from cogent3.core import genetic_code as old_gc
    from cogent3.core import moltype as old_mt
    from cogent3.core import new_genetic_code as new_gc
    from cogent3.core import new_moltype as new_mt
    from cogent3.evolve.fast_distance import DistanceMatrix
    from cogent3.util.dict_array import DictArrayTemplate

    labels = ["dna", "rna", "protein", "protein_with_stop", "text", "bytes"]
    if family == "alphabets":
        for lab in labels:
            m = old_mt.get_moltype(lab)
            for kind in ("base", "degen", "gapped", "degen_gapped"):
                if lab in ("text", "bytes"):
                    continue  # these molecular types have one alphabet
                yield (f"old:{lab}:{kind}", "old-style alphabet", "character alphabet", lambda m=m, kind=kind: getattr(m.alphabets, kind), observe_old_alphabet, True)
            yield (f"old:{lab}:alphabet", "old-style alphabet", "character alphabet", lambda m=m: m.alphabet, observe_old_alphabet, True)
            if lab in ("dna", "rna", "protein"):
                for k in (2, 3):
                    if lab == "protein" and k == 3:
                        continue
                    yield (f"old:{lab}:word{k}", "old-style alphabet", "word alphabet", lambda m=m, k=k: m.alphabet.get_word_alphabet(k), observe_old_alphabet, True)
        for i in (1, 2, 11):
            yield (f"old:codon:{i}", "old-style alphabet", "codon alphabet of a genetic code", lambda i=i: old_gc.get_code(i).get_alphabet(), observe_old_alphabet, True)
        for lab in labels:
            m = new_mt.get_moltype(lab)
            for j, _ in enumerate(m.iter_alphabets()):
                yield (f"new:{lab}:{j}", "new-style CharAlphabet", "character alphabet", lambda m=m, j=j: list(m.iter_alphabets())[j], observe_new_alphabet, True)
            if lab in ("dna", "rna", "protein"):
                for k in (2, 3):
                    if lab == "protein" and k == 3:
                        continue
                    for gap in (False, True):
                        yield (f"new:{lab}:kmer{k}:{gap}", "new-style KmerAlphabet", "k-mer alphabet",
                               lambda m=m, k=k, gap=gap: (m.gapped_alphabet if gap else m.alphabet).get_kmer_alphabet(k, include_gap=gap), observe_new_alphabet, True)
        for i in (1, 2, 11):
            for gap in (False, True):
                yield (f"new:codon:{i}:{gap}", "new-style CodonAlphabet", "codon alphabet of a genetic code" + (", gap state included" if gap else ""),
                       lambda i=i, gap=gap: new_gc.get_code(i).get_alphabet(include_gap=gap), observe_new_alphabet, True)
    elif family == "moltypes":
        for lab in labels:
            yield (f"old:{lab}", "old-style MolType", "built-in molecular type", lambda lab=lab: old_mt.get_moltype(lab), observe_old_moltype, True)
            yield (f"new:{lab}", "new-style MolType", "built-in molecular type", lambda lab=lab: new_mt.get_moltype(lab), observe_new_moltype, True)
    elif family == "genetic_codes":
        ids = [int(i) for i in old_gc.available_codes().to_list("Code ID")]
        for i in ids:
            yield (f"old:{i}", "old-style GeneticCode", "built-in code", lambda i=i: old_gc.get_code(i), observe_code, True)
        ids = [int(i) for i in new_gc.available_codes().to_list("Code ID")]
        for i in ids:
            yield (f"new:{i}", "new-style GeneticCode", "built-in code", lambda i=i: new_gc.get_code(i), observe_code, True)
    elif family == "dictarrays":
        shapes = {"1d": (["a", "b", "c"],), "2d": (["a", "b"], ["x", "y", "z"]), "3d": (["a", "b"], ["x", "y"], ["p", "q"]), "int names": ([0, 1], ["x", "y"])}
        for sname, names in shapes.items():
            n = 1
            for dim in names:
                n *= len(dim)
            for dt, vals in (("int", list(range(n))), ("float", [0.5 * i - 1 for i in range(n)]), ("float with nan", [float("nan")] + [0.25 * i for i in range(1, n)])):
                arr = numpy.array(vals).reshape([len(d) for d in names])
                yield (f"{sname}:{dt}", "DictArray", f"{len(names)}-dimensional, as constructed", lambda names=names, arr=arr: DictArrayTemplate(*names).wrap(arr), observe_dictarray, True)
                if len(names) > 1:
                    yield (f"{sname}:{dt}:row", "DictArray", f"{len(names)}-dimensional, after selecting a row", lambda names=names, arr=arr: DictArrayTemplate(*names).wrap(arr)[names[0][1]], observe_dictarray, True)
                    yield (f"{sname}:{dt}:rows", "DictArray", f"{len(names)}-dimensional, after selecting a list of rows", lambda names=names, arr=arr: DictArrayTemplate(*names).wrap(arr)[[names[0][1], names[0][0]]], observe_dictarray, True)
        aln = lambda: make_aligned_seqs({"a": "ACGT-", "b": "ACGAA", "c": "GCG-A"}, moltype="dna")  # noqa: E731
        yield ("profile:counts", "profile array (DictArray subclass)", "MotifCountsArray / MotifFreqsArray / PSSM", lambda: aln().counts_per_pos(), observe_dictarray, True)
        yield ("profile:freqs", "profile array (DictArray subclass)", "MotifCountsArray / MotifFreqsArray / PSSM", lambda: aln().counts_per_pos().to_freq_array(), observe_dictarray, True)
        yield ("profile:pssm", "profile array (DictArray subclass)", "MotifCountsArray / MotifFreqsArray / PSSM", lambda: aln().counts_per_pos(allow_gap=False).to_pssm(), observe_dictarray, True)
        yield ("counts_per_seq", "profile array (DictArray subclass)", "MotifCountsArray / MotifFreqsArray / PSSM", lambda: aln().counts_per_seq(), observe_dictarray, True)
    elif family == "distance_matrices":
        pool = ["s1", "s10", "a b", "Z"]
        for n in range(2, b["distance_names"] + 1):
            for names in itertools.permutations(pool, n):
                dists = {}
                for i, x in enumerate(names):
                    for j, y in enumerate(names):
                        if i < j:
                            dists[(x, y)] = dists[(y, x)] = 2.0 ** -(i + 2 * j)
                yield (f"{'|'.join(names)}", "DistanceMatrix", "as constructed", lambda dists=dists: DistanceMatrix(dict(dists)), observe_dm, True)
                if n > 2:
                    yield (f"{'|'.join(names)}:take", "DistanceMatrix", "after take_dists", lambda dists=dists, names=names: DistanceMatrix(dict(dists)).take_dists(list(names[1:])), observe_dm, True)
                    yield (f"{'|'.join(names)}:take_negate", "DistanceMatrix", "after take_dists", lambda dists=dists, names=names: DistanceMatrix(dict(dists)).take_dists([names[0]], negate=True), observe_dm, True)
        nan = {("a", "b"): 0.1, ("b", "a"): 0.1, ("a", "c"): float("nan"), ("c", "a"): float("nan"), ("b", "c"): 0.3, ("c", "b"): 0.3}
        yield ("invalid", "DistanceMatrix", "with an invalid (nan) distance", lambda: DistanceMatrix(dict(nan)), observe_dm, True)
        yield ("invalid:dropped", "DistanceMatrix", "after drop_invalid", lambda: DistanceMatrix(dict(nan)).drop_invalid(), observe_dm, True)
        yield ("from alignment", "DistanceMatrix", "computed by Alignment.distance_matrix", lambda: make_aligned_seqs(NT3, moltype="dna").distance_matrix(calc="pdist"), observe_dm, True)
        yield ("from alignment:hamming", "DistanceMatrix", "computed by Alignment.distance_matrix", lambda: make_aligned_seqs(NT3, moltype="dna").distance_matrix(calc="hamming"), observe_dm, True)
    elif family == "tables":
        from vf.props import c20_tables as c20

        i = 0
        for nrows in range(0, b["table_rows"] + 1):
            for ncols in range(1, b["table_cols"] + 1):
                for types, header, rows in c20.tables(c20.OPS_DOMAIN_SMALL, nrows, ncols):
                    i += 1
                    ident = f"{nrows}x{ncols}:{i}"
                    mkt = lambda header=header, rows=rows, **kw: c20.mk(header, rows, **kw)  # noqa: E731
                    yield (ident, "Table", "as constructed", mkt, observe_table, nrows > 0)
                    if nrows == 2 and ncols == 2 and "bool" not in types:
                        yield (ident + ":sorted", "Table", "after sorted", lambda mkt=mkt, header=header: mkt().sorted(columns=[header[-1]], reverse=[header[-1]]), observe_table, True)
                        yield (ident + ":filtered", "Table", "after filtered", lambda mkt=mkt, header=header, rows=rows: mkt().filtered(lambda v, x=rows[0][0]: v == x, columns=header[0]), observe_table, True)
                        yield (ident + ":get_columns", "Table", "after get_columns", lambda mkt=mkt, header=header: mkt().get_columns([header[-1]]), observe_table, True)
                        yield (ident + ":titled", "Table", "with title, legend and index", lambda mkt=mkt, header=header, rows=rows: mkt(title="T i", legend="L,\"x\"", index_name=header[0] if rows[0][0] != rows[1][0] else None), observe_table, True)
        def _idx_hist(steps):
            t = make_table(header=["k", "x", "y"], data=[["r1", 1, "p"], ["r2", 3, "q"]], index_name=steps[0])
            for st in steps[1:]:
                t.index_name = st
            return t

        # the index column is mutable state of a table: set at construction or later, moved to another column, removed again
        for steps in (["k", None], [None, "k"], [None, "k", None], ["k", "x"], ["k", "x", None], [None, "y", "k"]):
            yield ("index history " + ">".join(str(x) for x in steps), "Table", "after its index column was set / moved / removed",
                   lambda steps=steps: _idx_hist(steps), observe_table, True)
        yield ("missing", "Table", "with None cells", lambda: make_table(header=["a", "b"], data=[[1, None], [None, "x"]]), observe_table, True)
        yield ("nan", "Table", "with nan cells", lambda: make_table(header=["a", "b"], data=[[1.5, float("nan")], [float("nan"), 2.0]]), observe_table, True)
        yield ("formatted", "Table", "with column formats and digits", lambda: make_table(header=["a", "b"], data=[[1.23456, 2], [3.0, 4]], digits=2, space=2, column_templates={"a": "%.1f"}), observe_table, True)
        yield ("transposed", "Table", "after transposed", lambda: make_table(header=["k", "x", "y"], data=[["r1", 1, 2], ["r2", 3, 4]]).transposed("new", select_as_header="k"), observe_table, True)
    elif family == "models":
        names = all_model_names()
        if b["models"] != "all":
            # codon models take seconds to construct (and every dict round trip constructs one): the quick tier keeps three of them
            names = [n for n in names if "codon" not in model_family(n) or n in b["models"]]
        for name in names:
            yield (name, "substitution model", f"{model_family(name)} model", lambda name=name: get_model(name), observe_model(name), True)
        yield ("HKY85:gamma", "substitution model", "nucleotide model with rate heterogeneity", lambda: get_model("HKY85", ordered_param="rate", distribution="gamma"), observe_model("HKY85"), True)
        yield ("GTR:recode_gaps", "substitution model", "nucleotide model with constructor options", lambda: get_model("GTR", recode_gaps=True, optimise_motif_probs=True), observe_model("GTR"), True)
        yield ("MG94HKY:gc=2", "substitution model", "codon model of a non-standard genetic code", lambda: get_model("MG94HKY", gc=2), observe_model("MG94HKY"), True)
        if b["models"] == "all":
            yield ("GNC:gc=4", "substitution model", "codon model of a non-standard genetic code", lambda: get_model("GNC", gc=4), observe_model("GNC"), True)
        yield ("MG94HKY:tuple", "substitution model", "codon model with constructor options", lambda: get_model("MG94HKY", optimise_motif_probs=True), observe_model("MG94HKY"), True)
    elif family == "not_completed":
        app = get_app("omit_degenerates", moltype="dna")
        for typ in ("ERROR", "FAIL", "FALSE"):
            for oname, origin in (("str", "some_app"), ("app instance", app)):
                for mname, msg in (("plain", "something failed"), ("quotes, newline, unicode", 'x "y"\n\'z\' é')):
                    for sname, src in (("str", "data/a.fa"), ("None", None), ("alignment with info.source", _tiny_aln())):
                        yield (f"{typ}:{oname}:{mname}:{sname}", "NotCompleted", f"origin given as {oname}, source given as {sname}",
                               lambda typ=typ, origin=origin, msg=msg, src=src: NotCompleted(typ, origin, msg, source=src), observe_nc, True)
        yield ("from app", "NotCompleted", "returned by an app", lambda: get_app("take_named_seqs", "zz")(_tiny_aln()), observe_nc, True)
        yield ("from exception", "NotCompleted", "returned by an app that raised", lambda: get_app("model", "HKY85", show_progress=False)(make_aligned_seqs({"a": "ACGT", "b": "ACGT"}, moltype="dna", info={"source": "two.fa"})), observe_nc, True)
    elif family == "results":
        def model_res(**kw):
            return get_app("model", kw.pop("sm", "HKY85"), tree=TREE3, opt_args=OPT, show_progress=False, **kw)(_tiny_aln(kw.get("kind", "nt")))

        yield ("model_result", "model_result", "from a nucleotide fit", lambda: model_res(), observe_result, True)
        yield ("model_result:split_codons", "model_result", "from a split-codon fit (three likelihood functions)",
               lambda: get_app("model", "HKY85", tree=TREE3, opt_args=OPT, show_progress=False, split_codons=True)(_tiny_aln("codon")), observe_result, True)
        yield ("model_result:codon", "model_result", "from a codon fit", lambda: get_app("model", "MG94HKY", tree=TREE3, opt_args=OPT, show_progress=False)(_tiny_aln("codon")), observe_result, True)

        def hyp():
            null = get_app("model", "F81", tree=TREE3, opt_args=OPT, show_progress=False)
            alt = get_app("model", "HKY85", tree=TREE3, opt_args=OPT, show_progress=False)
            return get_app("hypothesis", null, alt)(_tiny_aln())

        def coll():
            null = get_app("model", "F81", tree=TREE3, opt_args=OPT, show_progress=False)
            alt = get_app("model", "HKY85", tree=TREE3, opt_args=OPT, show_progress=False)
            return get_app("model_collection", null, alt)(_tiny_aln())

        yield ("hypothesis_result", "hypothesis_result", "from two nested fits", hyp, observe_result, True)
        yield ("model_collection_result", "model_collection_result", "from two fits", coll, observe_result, True)
        yield ("tabular_result", "tabular_result", "tabulate_stats of a model_result", lambda: get_app("tabulate_stats")(model_res()), observe_result, True)

        def generic():
            from cogent3.app.result import generic_result

            r = generic_result(source="mem.fa")
            r["number"] = 3
            r["list"] = [1, 2.5, "x"]
            r["dictarray"] = DictArrayTemplate(["a", "b"]).wrap([1, 2])
            r["alignment"] = _tiny_aln()
            r["table"] = make_table(header=["a"], data=[[1], [2]])
            return r

        yield ("generic_result", "generic_result", "holding plain values and cogent3 objects", generic, observe_result, True)

        def generic_after_refusal():
            # the history of the object contains assignments that were refused (values that cannot be serialised): a new
            # key, and a replacement of an existing one; the caller handled the TypeError
            r = generic()
            for key, bad in (("bad", {0, 23}), ("number", {"nested": {1, 2}})):
                try:
                    r[key] = bad
                except TypeError:
                    pass
            return r

        yield ("generic_result:refused", "generic_result", "after assignments that were refused", generic_after_refusal, observe_result, True)

        def boot():
            null = get_app("model", "F81", tree=TREE3, opt_args=OPT, show_progress=False)
            alt = get_app("model", "HKY85", tree=TREE3, opt_args=OPT, show_progress=False)
            return get_app("bootstrap", get_app("hypothesis", null, alt), num_reps=1, parallel=False)(_tiny_aln())

        yield ("bootstrap_result", "bootstrap_result", "one replicate", boot, observe_result, True)


STATIC_FAMILIES = ("alphabets", "moltypes", "genetic_codes", "dictarrays", "distance_matrices", "tables", "models", "not_completed", "results")


def static_check(item, family, acc):
    ident, what, cls, build, observer, nontrivial = item
    case = {"part": "static", "family": family, "item": ident}
    try:
        with warnings.catch_warnings():
            warnings.simplefilter("ignore")
            obj = build()
    except Exception as e:  # noqa: BLE001 - constructing the object is not this property's subject
        acc.count("static_items_not_constructible")
        acc.notes.setdefault("static_items_not_constructible", []).append(f"{family}/{ident}: {type(e).__name__}")
        return
    acc.state(0)
    check_roundtrips(acc, what, cls, obj, observer, case, nontrivial=nontrivial)
    if family == "results" and hasattr(obj, "to_json"):
        check_lazy_result(acc, what, cls, build, observer, case)


def check_lazy_result(acc, what, cls, build, observer, case):
    """a result read back from json keeps its members un-deserialised until they are used: that state is serialised
    again, and the copy and the original are then used in either order; both must read as the eagerly built object"""
    from cogent3.util.deserialise import deserialise_object

    with warnings.catch_warnings():
        warnings.simplefilter("ignore")
        try:
            text = build().to_json()
            eager = observer(deserialise_object(text), "json")  # the same text read into an object that is used on its own
        except Exception:  # noqa: BLE001 - the plain json round trip of this object fails: reported by check_roundtrips
            return
        for ch, fn in (("rich dict", lambda o: deserialise_object(o.to_rich_dict())), ("json", lambda o: deserialise_object(o.to_json())),
                       ("deepcopy", copy.deepcopy), ("pickle", lambda o: pickle.loads(pickle.dumps(o)))):
            for first in ("copy", "original"):
                acc.case({"what": what, "channel": ch, "lazy": True, "used first": first, **case})
                acc.transitions += 1
                try:
                    lazy = deserialise_object(text)
                    dup = fn(lazy)
                    order = (dup, lazy) if first == "copy" else (lazy, dup)
                    obs = [observer(x, ch) for x in order]
                except Exception as e:  # noqa: BLE001
                    acc.fail(f"{what}: {ch} round trip of an object whose members are not yet deserialised raised {type(e).__name__}", dict(case, channel=ch, used_first=first),
                             {"error": f"{type(e).__name__}: {e}"[:300]})
                    continue
                for who, o in zip(("the one used first", "the one used second"), obs):
                    diff = first_difference(eager, o)
                    if diff:
                        acc.fail(f"{what}: {ch} round trip of an object whose members are not yet deserialised: {diff[0]} differs on {who} ({first} used first)",
                                 dict(case, channel=ch, used_first=first), {"observable": diff[0], "got": diff[1], "want": diff[2]})
                        break
                acc.outcome((what, ch, "lazy", first))


def static_run(spec, acc):
    b = spec["bounds"]
    n = 0
    for i, item in enumerate(static_items(spec["family"], b)):
        if i % spec["of"] == spec["chunk"]:
            static_check(item, spec["family"], acc)
            n += 1
    acc.sample({"part": "static", "family": spec["family"], "items": n}, f"static-{spec['family']}")


def static_shards(b):
    out = []
    chunks = {"tables": 8, "models": len(list(static_items("models", b))), "results": 8, "distance_matrices": 2, "not_completed": 2, "genetic_codes": 2, "alphabets": 2}
    for fam in STATIC_FAMILIES:
        n = chunks.get(fam, 1)
        for c in range(n):
            out.append({"part": "static", "family": fam, "chunk": c, "of": n, "bounds": b})
    return out


def static_replay(case, acc):
    from vf.kernel.runner import Acc  # noqa: F401

    for tier in ("thorough", "quick"):
        for item in static_items(case["family"], bounds(tier)["static"]):
            if item[0] == case["item"]:
                static_check(item, case["family"], acc)
                return


# ============================================================================= shards / dispatch
PARTS = {
    "views": (views_shards, views_explore, views_replay),
    "alignments": (alns_shards, alns_run, alns_replay),
    "new_collections": (newcoll_shards, newcoll_explore, newcoll_replay),
    "annotated": (annot_shards, annot_run, annot_replay),
    "annotation_dbs": (dbs_shards, dbs_explore, dbs_replay),
    "maps": (maps_shards, maps_run, maps_replay),
    "trees": (trees_shards, trees_explore, trees_replay),
    "lf": (lf_shards, lf_run, lf_replay),
    "static": (static_shards, static_run, static_replay),
}


def shards(tier, seed):
    b = bounds(tier)
    out = []
    for part, (mk, _, _) in PARTS.items():
        out.extend(mk(b[part]))
    return out


def reset_library_caches():
    """cogent3.core.location keeps one shared _LostSpan per length; which instance is in the cache depends on everything the process
    did before.  Every shard / replay starts from the empty cache; the maps part re-creates the 'primed' situation on purpose."""
    from cogent3.core import location

    location._lost_span_cache.clear()


def run_shard(spec, acc):
    reset_library_caches()
    with warnings.catch_warnings():
        warnings.simplefilter("ignore")
        PARTS[spec["part"]][1](spec, acc)


def replay(case):
    from vf.kernel.runner import Acc

    acc = Acc()
    reset_library_caches()
    with warnings.catch_warnings():
        warnings.simplefilter("ignore")
        PARTS[case["part"]][2](case, acc)
    return [(sig, rec["cases"][0]["detail"]) for sig, rec in acc.failures.items()]


LEVEL_TEXT = (
    "Explicit-state model checking by state-graph reuse: the reachable states of the view (C01), alignment (C03), annotation (C04), annotation-db (C17), "
    "tree (C09 operations) and likelihood-function (C07 controller) drivers are re-enumerated completely at small bounds - every history of their operation "
    "alphabets up to the depth bound, de-duplicated on their canonical keys - and in each state the object is serialised and deserialised through every channel "
    "it offers (json, rich dict, from_rich_dict, pickle, deepcopy; newick for trees); the result is compared, observation by observation, with the original, and the "
    "json round trip is required to be idempotent. Every gap layout / span list for the map classes and a static list of every registered type (alphabets, molecular "
    "types, genetic codes, dict arrays, distance matrices, tables, all named substitution models, app results, NotCompleted) complete the registry. This is the right "
    "level because the serialisers' defects depend on the history that produced the object (offsets, strand, gap maps, parameter scopes, process-wide caches), which only "
    "state enumeration reaches."
)
LEVEL_NOTE = (
    "Trusted: the owning drivers' models (used only to reach and name states; the oracle is the original object itself), CPython json / pickle / copy. Observational "
    "equality on the observations listed in ASSUMPTIONS only; objects are as small as in the owning drivers; app results and multi-locus / rate-heterogeneity likelihood "
    "functions are limited to the static list; nothing is claimed above the bounds recorded in the evidence file."
)
