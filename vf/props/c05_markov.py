"""C05 - substitution processes are valid, calibrated Markov processes.

K2: for every model x parameter vector (lattice incl. the declared bounds and, for the general
models, every {lower,upper} corner) x motif-probability choice, the real likelihood function is
built on a star tree whose edges carry the branch-length lattice (and sums of pairs of lattice
values); the rate matrices and transition matrices it reports are checked against the defining
algebraic identities, against scipy.linalg.expm, across every `expm=` setting and against every
exponentiator class of cogent3.maths.matrix_exponentiation called directly.
"""

from __future__ import annotations

import itertools
import warnings

import numpy

from vf.models import felsenstein as F
from vf.props import c02_lnl as D

PID = "C05"
LEVEL = "exploration"
TECHNIQUE = "exhaustive lattice enumeration of rate / transition matrices checked against Markov-process identities and scipy expm"
RULE = (
    "case = (model, parameter vector, motif probabilities, configuration); parameter vectors = full lattice product for <= 3 "
    "parameters, else base vector + every (parameter, lattice value) substitution + all-equal vectors + every {lower bound, upper bound} "
    "corner (quick: models with <= 11 nucleotide parameters; thorough: also codon models); configurations = global scope with each "
    "expm setting (default, eigen, checked, pade, either), per-edge scope, gamma / free / ordered rate classes (2-4 bins x shape lattice); "
    "each case carries all branch lengths of the length lattice (one star-tree edge per length) and all listed (s,t) pairs; direct "
    "exponentiators are called on the function's own Q for every t of the direct lattice; cases are distinct by construction; "
    "non-trivial = the model has a free rate parameter or unequal motif probabilities"
)
ASSUMPTIONS = [
    "numpy / scipy.linalg.expm are trusted as the reference exponential",
    "tolerances: Q identities 1e-10 * max(1, max|Q|); P identities and back-end agreement 1e-8 (1e-6 for t = 100); mean rate / bprobs 1e-10",
    "the model's motif probabilities over states are computed by the oracle (product of monomer probabilities renormalised over sense "
    "codons for monomer models)",
    "an eigen-decomposition back-end (Fast / CheckedExponentiator, expm=eigen / checked) raising ArithmeticError or LinAlgError is an "
    "accepted outcome (it refuses instead of answering; expm=either then falls back to Pade)",
    "the UNCHECKED eigen route (expm='eigen', FastExponentiator) is documented as valid only for matrices that are 'not too asymmetric': "
    "it is judged only where Q is well conditioned = condition number of the eigenvector matrix cond(V) <= 1e6 AND positive rates span "
    "<= 9 orders of magnitude; the skipped evaluations are counted (unchecked_eigen_not_judged_ill_conditioned_Q). The checked routes "
    "(expm='either' / 'checked', CheckedExponentiator) are judged at the flat 1e-8 everywhere",
    "TaylorExponentiator is only executed for |Q t|_inf <= 200 (it needs ~e*|Qt| matrix products and overflows beyond ~700)",
    "branch lengths through the likelihood function stay inside the declared bounds [0, 10]; t = 100 only with direct exponentiators",
    "discrete-time models (BH, DT) have no rate matrix: only row-stochasticity of their psubs is checked",
    "rate-class multipliers must average to one only for distribution-defined classes (gamma, free); explicit per-bin 'rate' parameters are user values",
]
SHARD_TIMEOUT = {"quick": 900, "thorough": 3600}

LF_LENGTHS = [0.0, 1e-8, 1e-3, 1e-3 + 1e-8, 0.1, 0.2, 0.101, 1.0, 1.1, 2.0, 5.0, 10.0]
CK_PAIRS = [(0.0, 0.1), (0.1, 0.1), (1e-3, 0.1), (0.1, 1.0), (1.0, 1.0), (5.0, 5.0), (1e-8, 1e-3)]
DIRECT_T = [0.0, 1e-8, 1e-3, 0.1, 1.0, 10.0, 100.0]
PAR_LATTICE = {"quick": [1e-6, 0.4, 1.0, 3.0, 1e6], "thorough": [1e-6, 1e-3, 0.4, 1.0, 3.0, 50.0, 1e6]}
GAMMA_SHAPES = [0.01, 0.2, 1.0, 5.0, 100.0]
TIPS = [f"t{i}" for i in range(len(LF_LENGTHS))]
TREE = ("root", TIPS)
LENGTHS = dict(zip(TIPS, LF_LENGTHS))


def bounds(tier):
    lat = {"thorough": PAR_LATTICE["thorough"],
           "quick": {"nuc/dinuc/protein": PAR_LATTICE["quick"], "codon": [1e-6, 3.0, 1e6]}}[tier]
    return {
        "models": sorted(F.MODELS) + ["BH", "DT"],
        "param_lattice": lat,
        "corners": "all {1e-6,1e6}^k: quick k<=11 (nucleotide/dinucleotide models); thorough also codon models (k<=12)",
        "lf_branch_lengths": LF_LENGTHS, "chapman_kolmogorov_pairs": CK_PAIRS, "direct_t": DIRECT_T,
        "expm_settings": ["default", "eigen", "checked", "pade", "either"],
        "direct_backends": ["FastExponentiator", "CheckedExponentiator", "PadeExponentiator", "RobustExponentiator",
                            "TaylorExponentiator", "SemiSymmetricExponentiator (reversible models)"],
        "bins": {"gamma": {"n": [2, 3, 4], "shapes": GAMMA_SHAPES}, "free": [2, 3, 4], "ordered": [2, 3]},
    }


# ----------------------------------------------------------------------------- enumeration
def param_vectors(name, tier):
    kind, terms, form, eq = F.MODELS[name]
    lattice = D.lattice_for(kind, tier) if tier == "quick" else PAR_LATTICE[tier]
    if not terms:
        return [{}]
    if len(terms) <= 3 and (kind != "codon" or tier == "thorough"):
        out = [dict(zip(terms, v)) for v in itertools.product(lattice, repeat=len(terms))]
    else:
        out = D.param_vectors(terms, lattice) if len(terms) > 2 else [dict(zip(terms, v)) for v in itertools.product(lattice, repeat=len(terms))]
        alt = {t: (lattice[-1] if i % 2 else lattice[0]) for i, t in enumerate(terms)}
        out.append(alt)
        out.append({t: (lattice[0] if i % 2 else lattice[-1]) for i, t in enumerate(terms)})
    if len(terms) > 3 and (kind != "codon" or tier == "thorough"):
        for v in itertools.product((lattice[0], lattice[-1]), repeat=len(terms)):
            out.append(dict(zip(terms, v)))
    # drop exact duplicates, keep order
    seen, uniq = set(), []
    for d in out:
        k = tuple(d[t] for t in terms)
        if k not in seen:
            seen.add(k)
            uniq.append(d)
    return uniq


def cases_for(name, tier):
    """all (params, pi, config) cases of a model"""
    kind, terms, form, eq = F.MODELS[name]
    pis = D.pi_choices(name)
    pvs = param_vectors(name, tier)
    out = []
    big = kind == "codon"
    for i, pv in enumerate(pvs):
        for j, pi in enumerate(pis):
            if big and tier == "quick" and i > 0 and j != i % len(pis):
                continue
            if big and len(terms) > 6 and i > 8 * len(terms) + 6 and j != 1:
                continue  # the 2^12 corners of GNC: one (unequal) motif-prob choice
            out.append({"params": pv, "pi": pi, "config": "default"})
    base = D.base_params(terms)
    pi1 = pis[min(1, len(pis) - 1)]
    ext = {t: (1e6 if i % 2 else 1e-6) for i, t in enumerate(terms)}
    for pv in ([base, ext] if terms else [base]):
        for pi in (pis if not big or tier == "thorough" else [pi1]):
            for ex in ("eigen", "checked", "pade", "either"):
                out.append({"params": pv, "pi": pi, "config": "expm", "expm": ex})
    if D.spec_is_directed_nuc(name, terms):
        # nearly defective generators inside the bounds (a one-way chain of equal large rates, the rest on the lower bound),
        # under every exponentiation setting: "checked" must refuse or be right, "either" must fall back
        chain = {"T>C", "C>A", "A>G"}
        for big_rate in (1e3, 1e6):
            pv = {t: (big_rate if t in chain else 1e-6) for t in terms}
            for ex in ("checked", "pade", "either"):
                out.append({"params": pv, "pi": pis[0], "config": "expm", "expm": ex})
    if terms:
        for pi in pis:
            out.append({"params": base, "pi": pi, "config": "per-edge"})
    for n in (2, 3, 4):
        for shape in GAMMA_SHAPES:
            for bp in (None, [0.1, 0.9], [0.2, 0.3, 0.5], [0.1, 0.2, 0.3, 0.4]):
                if bp is not None and len(bp) != n:
                    continue
                if big and (shape not in (0.01, 1.0) or tier == "quick" and n != 4):
                    continue
                out.append({"params": base, "pi": pi1, "config": "bins", "bins": {"mode": "gamma", "n": n, "shape": shape, "bprobs": bp}})
        for bp in (None, [0.1, 0.9], [0.2, 0.3, 0.5], [0.1, 0.2, 0.3, 0.4]):
            if bp is not None and len(bp) != n:
                continue
            if big and tier == "quick" and n != 3:
                continue
            out.append({"params": base, "pi": pi1, "config": "bins", "bins": {"mode": "free", "n": n, "bprobs": bp}})
            if terms and n < 4:
                out.append({"params": base, "pi": pi1, "config": "bins", "bins": {"mode": "ordered", "param": terms[0], "n": n, "bprobs": bp}})
    # rate classes named by the user in an order that is not the sorted one
    out.append({"params": base, "pi": pi1, "config": "bins", "bins": {"mode": "gamma", "n": 2, "shape": 1.0, "bprobs": [0.3, 0.7], "names": ["slow", "fast"]}})
    out.append({"params": base, "pi": pi1, "config": "bins", "bins": {"mode": "free", "n": 3, "bprobs": [0.2, 0.3, 0.5], "names": ["b", "c", "a"]}})
    return out


def shards(tier, seed):
    out = []
    order = F.CODON_MODELS + [m for m in F.MODELS if m not in F.CODON_MODELS]
    for name in order:
        n = len(cases_for(name, tier))
        kind = F.MODELS[name][0]
        per = 40 if kind == "codon" else (200 if kind in ("protein", "dinuc") else 400)
        k = max(1, -(-n // per))
        for c in range(k):
            out.append({"model": name, "chunk": c, "of": k, "tier": tier})
    out.append({"model": "BH", "discrete": True, "tier": tier})
    out.append({"model": "DT", "discrete": True, "tier": tier})
    out.append({"model": "reversible-refusal", "refusals": True, "tier": tier})
    out.append({"model": "GS", "gs": True, "tier": tier})
    return out


# ----------------------------------------------------------------------------- the checks
ILL = "nearly defective / badly scaled Q"
WELL = "well-conditioned Q"


def cond_class(Q):
    """structural class of a rate matrix for signatures: eigenvector condition number > 1e6 or
    positive rates spanning more than 9 orders of magnitude"""
    Q = numpy.asarray(Q, float)
    off = Q[~numpy.eye(len(Q), dtype=bool)]
    pos = off[off > 0]
    spread = float(pos.max() / pos.min()) if len(pos) else 1.0
    return ILL if D.eig_condition(Q) > 1e6 or spread > 1e9 else WELL


def norm_class(a):
    return "|Q t| <= 15" if a <= 15 else "|Q t| > 15"


def spec_of(name, case):
    kind = F.MODELS[name][0]
    spec = {"model": name, "model_kw": None, "kind": kind, "tree": TREE, "tips": TIPS, "lengths": LENGTHS,
            "params": case["params"], "pi": case["pi"]}
    if case.get("expm"):
        spec["expm"] = case["expm"]
    if case.get("bins"):
        spec["bins"] = case["bins"]
    if case["config"] == "per-edge":
        terms = F.MODELS[name][1]
        spec["edge_params"] = {e: D.base_params(terms, shift=n + 1) for n, e in enumerate(TIPS)}
    return spec


def _size_class(err):
    """size class of an exponentiation error, part of the signature: the recorded finding (the checked eigen route accepts an
    inaccurate decomposition: its precision test compares the rebuilt Q at rtol 1e-5) reaches about 2e-5 on the thorough
    lattice; an error above 1e-3 is a different failure and must not share its signature"""
    if err <= 1e-6:
        return ""
    if err <= 1e-3:
        return "; error 1e-6..1e-3"
    return "; error > 1e-3"


def check_case(name, case, acc, report=True):
    fails, seen = [], set()
    kind, terms, form, eq = F.MODELS[name]
    full = {"model": name, **case}

    def fail(sig, detail):
        if sig in seen:
            return
        seen.add(sig)
        fails.append((sig, detail))
        if report:
            acc.fail(sig, full, detail)

    acc.case(full, nontrivial=bool(terms) or case["pi"] is not None or form == "empirical")
    spec = spec_of(name, case)
    setting = case.get("expm") or "default expm"
    try:
        with warnings.catch_warnings():
            warnings.simplefilter("ignore")
            lf = D.make_lf(spec)
            all_ps = lf.get_all_psubs()
    except Exception as e:  # noqa: BLE001
        if case.get("expm") in ("checked", "eigen") and isinstance(e, (ArithmeticError, numpy.linalg.LinAlgError)):
            acc.outcome(("checked refused",))
            return fails
        fail(f"building matrices raised {type(e).__name__} [{case['config']}; {setting}]", {"error": str(e)[:300]})
        return fails
    pi = D.oracle_pi(spec)
    wp = F.word_probs(kind, form, pi)
    n = len(wp)
    eye = numpy.eye(n)
    binset = D.bin_setup(spec)
    nb = len(binset)
    bin_names = (case.get("bins") or {}).get("names") or [f"bin{i}" for i in range(nb)]

    # ---- rate classes
    if nb > 1:
        bp = numpy.asarray(lf.get_param_value("bprobs"), float)
        if abs(bp.sum() - 1) > 1e-10 or (bp < 0).any():
            fail("bin probabilities do not sum to one", {"bprobs": bp})
        mode = case["bins"]["mode"]
        if mode in ("gamma", "free"):
            rates = numpy.array([lf.get_param_value("rate", bin=b) for b in bin_names], float)
            if not abs((bp * rates).sum() - 1) <= 1e-10:
                fail(f"rate-class multipliers do not average to one [{mode}]", {"rates": rates, "bprobs": bp, "mean": float((bp * rates).sum())})
            if (rates <= 0).any() or (numpy.diff(rates) < 0).any():
                fail(f"rate-class multipliers not positive and increasing [{mode}]", {"rates": rates})
            acc.outcome(("rates", mode, tuple(numpy.round(rates, 6))))
        else:
            rates = numpy.ones(nb)
            fac = numpy.array([lf.get_param_value(case["bins"]["param"] + "_factor", bin=b) for b in bin_names], float)
            if not abs((bp * fac).sum() - 1) <= 1e-10:
                fail("ordered-parameter factors do not average to one", {"factors": fac, "bprobs": bp})
    else:
        rates = numpy.ones(1)

    # ---- Q identities, per (bin, edge) scope actually distinct
    q_scopes = []
    per_edge = case["config"] == "per-edge"
    q_by_bin = nb > 1 and case["bins"]["mode"] == "ordered"
    for bi in (range(nb) if q_by_bin else [0]):
        for e in (TIPS if per_edge else TIPS[:1]):
            q_scopes.append((bi, e))
    Qs = {}
    for bi, e in q_scopes:
        kw = {"bin": bin_names[bi]} if q_by_bin else {}
        try:
            Q = numpy.asarray(lf.get_rate_matrix_for_edge(e, calibrated=True, **kw).array, float)
        except Exception as ex:  # noqa: BLE001
            fail(f"get_rate_matrix_for_edge raised {type(ex).__name__} [{case['config']}]", {"error": str(ex)[:200]})
            return fails
        Qs[bi, e] = Q
        scale = max(1.0, float(numpy.abs(Q).max()))
        tolq = 1e-10 * scale
        if not numpy.isfinite(Q).all():
            fail(f"Q has non-finite entries [{form}]", {})
            return fails
        if numpy.abs(Q.sum(axis=1)).max() > tolq:
            fail(f"Q row sums are not zero [{form}]", {"max": float(numpy.abs(Q.sum(axis=1)).max())})
        off = Q - numpy.diag(numpy.diag(Q))
        if off.min() < 0:
            fail(f"Q has a negative off-diagonal rate [{form}]", {"min": float(off.min())})
        cal = float(-(wp * numpy.diag(Q)).sum())
        if abs(cal - 1) > 1e-10:
            fail(f"Q not calibrated: expected rate at the motif probabilities != 1 [{form}]", {"rate": cal})
        if name in F.STATIONARY:
            if numpy.abs(wp @ Q).max() > tolq:
                fail(f"motif probabilities are not stationary: pi Q != 0 [{form}]", {"max": float(numpy.abs(wp @ Q).max())})
            flux = wp[:, None] * Q
            if numpy.abs(flux - flux.T).max() > tolq:
                fail(f"detailed balance violated: pi_i q_ij != pi_j q_ji [{form}]", {"max": float(numpy.abs(flux - flux.T).max())})
        acc.outcome(("Q", name, round(float(numpy.abs(Q).max()), 6)))
    # un-calibrated = calibrated * length (* rate) ; get_all_rate_matrices agrees
    try:
        allq = lf.get_all_rate_matrices(calibrated=False)
        allc = lf.get_all_rate_matrices(calibrated=True)
        for key, val in allq.items():
            key = tuple(str(k) for k in key)
            e = next(k for k in key if k in LENGTHS)
            b = next((bin_names.index(k) for k in key if k in bin_names), 0)
            Q = Qs.get((b if q_by_bin else 0, e if per_edge else TIPS[0]))
            want = Q * LENGTHS[e] * (rates[b] if nb > 1 and not q_by_bin else 1.0)
            if numpy.abs(numpy.asarray(val.array) - want).max() > 1e-10 * max(1.0, numpy.abs(want).max()):
                fail(f"get_all_rate_matrices(calibrated=False) != Q * length * rate [{case['config']}]", {"scope": key})
                break
        for key, val in allc.items():
            key = tuple(str(k) for k in key)
            e = next((k for k in key if k in LENGTHS), TIPS[0])
            b = next((bin_names.index(k) for k in key if k in bin_names), 0)
            Q = Qs.get((b if q_by_bin else 0, e if per_edge else TIPS[0]))
            if numpy.abs(numpy.asarray(val.array) - Q).max() > 1e-12 * max(1.0, numpy.abs(Q).max()):
                fail(f"get_all_rate_matrices(calibrated=True) != get_rate_matrix_for_edge [{case['config']}]", {"scope": key})
                break
        Qu = numpy.asarray(lf.get_rate_matrix_for_edge(TIPS[7], calibrated=False, **({"bin": bin_names[0]} if q_by_bin else {})).array)
        Q6 = Qs.get((0, TIPS[7] if per_edge else TIPS[0]))
        if numpy.abs(Qu - Q6 * LENGTHS[TIPS[7]]).max() > 1e-10 * max(1.0, numpy.abs(Q6).max()):
            fail("get_rate_matrix_for_edge(calibrated=False) != Q * length", {})
    except Exception as ex:  # noqa: BLE001
        fail(f"get_all_rate_matrices raised {type(ex).__name__} [{case['config']}]", {"error": str(ex)[:200]})

    # ---- P identities, every (bin, edge)
    ref = {}
    eigen_route = setting in ("default expm", "either", "checked", "eigen")

    def pfail(sig_text, cls, detail):
        """one root cause (eigen-decomposition on a nearly defective Q) -> one signature per route"""
        if setting == "eigen" and cls == ILL:
            # unchecked eigen route outside its documented precondition ("not too asymmetric"): not judged
            acc.count("unchecked_eigen_not_judged_ill_conditioned_Q")
            return
        if eigen_route and cls == ILL:
            detail = dict(detail, symptom=sig_text)
            route = "either" if setting == "default expm" else setting
            # the recorded finding is an error of 1e-8 .. 1e-6 accepted by the checked route; a larger error is a different
            # failure (e.g. the check not being applied at all) and must not share its signature
            err = max((abs(float(v)) for k, v in detail.items() if k in ("max", "min") and isinstance(v, (int, float))), default=0.0)
            gross = _size_class(err if sig_text != "P has non-finite entries" else float("inf"))
            fail(f"eigen-decomposition exponentiation inaccurate (> 1e-8) on nearly defective / badly scaled Q [expm={route}{gross}]", detail)
        else:
            fail(f"{sig_text} [{setting}; {cls}]", detail)

    for bi in range(nb):
        P = {}
        for e in TIPS:
            kw = {"bin": bin_names[bi]} if nb > 1 else {}
            P[e] = numpy.asarray(lf.get_psub_for_edge(e, **kw).array, float)
            key = (bin_names[bi], e) if nb > 1 else (e,)
            got = all_ps.get(key)
            if got is None:
                got = next((v for k, v in all_ps.items() if tuple(str(x) for x in k) == key), None)
            if got is None or numpy.abs(numpy.asarray(got.array) - P[e]).max() > 0:
                fail("get_all_psubs disagrees with get_psub_for_edge", {"key": key})
        for e in TIPS:
            Q = Qs[(bi if q_by_bin else 0), (e if per_edge else TIPS[0])]
            t = LENGTHS[e] * (rates[bi] if nb > 1 else 1.0)
            cls = cond_class(Q)
            p = P[e]
            if not numpy.isfinite(p).all():
                pfail("P has non-finite entries", cls, {"edge": e})
                continue
            if numpy.abs(p.sum(axis=1) - 1).max() > 1e-8:
                pfail("P rows do not sum to one", cls, {"t": t, "max": float(numpy.abs(p.sum(axis=1) - 1).max())})
            if p.min() < -1e-12:
                pfail("P has a negative entry", cls, {"t": t, "min": float(p.min())})
            if t == 0 and numpy.abs(p - eye).max() > 1e-8:
                pfail("P(0) is not the identity", cls, {"max": float(numpy.abs(p - eye).max())})
            rk = (id(Q), t)
            if rk not in ref:
                ref[rk] = F.expm(Q * t)
            if numpy.abs(p - ref[rk]).max() > 1e-8:
                pfail("psub differs from scipy expm(Q t)", cls, {"t": t, "max": float(numpy.abs(p - ref[rk]).max())})
            if name in F.STATIONARY and numpy.abs(wp @ p - wp).max() > 1e-8:
                pfail("pi P != pi for a stationary model", cls, {"t": t})
        if not per_edge:
            Q = Qs[(bi if q_by_bin else 0), TIPS[0]]
            cls = cond_class(Q)
            for s, t in CK_PAIRS:
                es, et = TIPS[LF_LENGTHS.index(s)], TIPS[LF_LENGTHS.index(t)]
                tot = min(LF_LENGTHS, key=lambda x: abs(x - (s + t)))
                est = TIPS[LF_LENGTHS.index(tot)]
                if abs(tot - (s + t)) > 1e-15:
                    continue
                d = float(numpy.abs(P[es] @ P[et] - P[est]).max())
                if d > 1e-8:
                    pfail("Chapman-Kolmogorov P(s)P(t) != P(s+t)", cls, {"s": s, "t": t, "max": d})
    # ---- direct back-ends on the function's own Q
    if case["config"] == "default":
        direct_backends(name, full, Qs[0, TIPS[0]], wp, fail, acc)
    acc.outcome((name, case["config"], setting, len(fails)))
    return fails


def direct_backends(name, full, Q, wp, fail, acc):
    from cogent3.maths import matrix_exponentiation as me

    cls = cond_class(Q)
    qn = float(numpy.abs(Q).sum(axis=1).max())
    builders = [("FastExponentiator", me.FastExponentiator), ("CheckedExponentiator", me.CheckedExponentiator),
                ("PadeExponentiator", me.PadeExponentiator), ("RobustExponentiator", me.RobustExponentiator),
                ("TaylorExponentiator", me.TaylorExponentiator)]
    if name in F.REVERSIBLE:
        builders.append(("SemiSymmetricExponentiator", lambda q: me.SemiSymmetricExponentiator(wp, q)))
    refs = {t: F.expm(Q * t) for t in DIRECT_T}
    for bname, mk in builders:
        if bname == "FastExponentiator" and cls == ILL:
            # unchecked eigen route outside its documented precondition ("not too asymmetric"): not judged
            acc.count("unchecked_eigen_not_judged_ill_conditioned_Q", len(DIRECT_T))
            continue
        try:
            with warnings.catch_warnings():
                warnings.simplefilter("ignore")
                ex = mk(Q.copy())
        except (ArithmeticError, numpy.linalg.LinAlgError) as e:
            if bname in ("CheckedExponentiator", "FastExponentiator"):
                # the eigen routes may refuse (the 'either' setting then falls back to Pade)
                acc.outcome((bname, "refused"))
                acc.count(f"{bname}_refused")
                continue
            fail(f"{bname}: construction raised {type(e).__name__} [{cls}]", {"error": str(e)[:200]})
            continue
        except Exception as e:  # noqa: BLE001
            fail(f"{bname}: construction raised {type(e).__name__} [{cls}]", {"error": str(e)[:200]})
            continue
        for t in DIRECT_T:
            if bname == "TaylorExponentiator" and qn * t > 200:
                acc.count("taylor_not_executed_norm_gt_200")
                continue
            try:
                with warnings.catch_warnings():
                    warnings.simplefilter("ignore")
                    p = numpy.asarray(ex(t), float)
            except Exception as e:  # noqa: BLE001
                fail(f"{bname}: call raised {type(e).__name__} [{cls}]", {"t": t, "error": str(e)[:200]})
                break
            tol = 1e-6 if t >= 100 else 1e-8
            d = numpy.abs(p - refs[t]).max() if numpy.isfinite(p).all() else float("inf")
            if not d <= tol:
                if bname == "TaylorExponentiator":
                    c = norm_class(qn * t)
                elif bname == "SemiSymmetricExponentiator":
                    c = "reversible Q"
                else:
                    c = cls
                if bname in ("FastExponentiator", "CheckedExponentiator") and cls == ILL:
                    gross = _size_class(d)
                    fail(f"eigen-decomposition exponentiation inaccurate (> 1e-8) on nearly defective / badly scaled Q [{bname}{gross}]",
                         {"t": t, "max_abs_diff": float(d)})
                else:
                    fail(f"{bname}: differs from scipy expm(Q t) [{c}]", {"t": t, "max_abs_diff": float(d), "|Q t|_inf": qn * t})
        acc.count("direct_backend_evaluations", len(DIRECT_T))
        # history: the same exponentiator object is asked for its times in the opposite order (long first); whatever an
        # earlier call leaves behind must not change a later answer
        if bname in ("TaylorExponentiator",) or (bname in ("FastExponentiator", "CheckedExponentiator") and cls == ILL):
            continue
        try:
            with warnings.catch_warnings():
                warnings.simplefilter("ignore")
                ex2 = mk(Q.copy())
                for t in DIRECT_T[::-1]:
                    p2 = numpy.asarray(ex2(t), float)
                    p1 = numpy.asarray(mk(Q.copy())(t), float)
                    if not (numpy.abs(p2 - p1).max() <= 1e-12):
                        fail(f"{bname}: the answer for a time depends on the times the same object was asked for before", {"t": t, "max_abs_diff": float(numpy.abs(p2 - p1).max())})
                        break
                p3 = numpy.asarray(ex(DIRECT_T[0]), float)  # `ex` has now seen every time in ascending order
                if not (numpy.abs(p3 - numpy.asarray(mk(Q.copy())(DIRECT_T[0]), float)).max() <= 1e-12):
                    fail(f"{bname}: the answer for a time depends on the times the same object was asked for before", {"t": DIRECT_T[0]})
        except Exception as e:  # noqa: BLE001
            fail(f"{bname}: re-used exponentiator raised {type(e).__name__} [{cls}]", {"error": str(e)[:200]})
        acc.count("reused_exponentiator_evaluations", len(DIRECT_T) + 1)


def check_discrete(name, acc, report=True):
    """BH / DT: psubs are free row-stochastic matrices"""
    from cogent3 import get_model, make_aligned_seqs, make_tree

    fails = []
    case = {"model": name, "discrete": True}
    acc.case(case)
    lf = get_model(name).make_likelihood_function(make_tree("(a:0.1,b:0.2,c:0.3)"))
    lf.set_alignment(make_aligned_seqs({"a": "ACGTAC", "b": "ACGTTC", "c": "AAGTTC"}, moltype="dna"))
    for key, p in lf.get_all_psubs().items():
        p = numpy.asarray(p.array, float)
        if numpy.abs(p.sum(axis=1) - 1).max() > 1e-10 or p.min() < 0:
            fails.append((f"discrete-time psub not row-stochastic [{name}]", {"key": [str(k) for k in key]}))
    for sig, d in fails:
        if report:
            acc.fail(sig, case, d)
    acc.outcome((name, len(fails)))
    return fails


def check_reversible_refusals(acc, report=True):
    """the time-reversible model classes must not take predicates under which detailed balance cannot hold: a directed
    predicate alone, and - the pair that sums to a symmetric mask - a directed predicate together with its mirror image"""
    from cogent3.evolve import substitution_model as sm
    from cogent3.evolve.predicate import MotifChange

    fails = []
    ag = MotifChange("A", "G", forward_only=True)
    ga = MotifChange("G", "A", forward_only=True)
    ct = MotifChange("C", "T", forward_only=True)
    gc_ = MotifChange("G", "C", forward_only=True)
    ca = MotifChange("C", "A", forward_only=True)
    ta = MotifChange("T", "A", forward_only=True)
    for label, preds in (("one directed predicate", [ag]), ("a directed predicate and its mirror image", [ag, ga]),
                         ("two mirrored pairs", [ag, ga, ct, MotifChange("T", "C", forward_only=True)]),
                         # every state is left once and entered once: row sums equal column sums, yet nothing is mirrored
                         ("one predicate that is a one-way cycle over three states", [ag | gc_ | ca]),
                         ("one predicate that is a one-way cycle over four states", [ag | gc_ | ct | ta])):
        for cls_name in ("TimeReversibleNucleotide",):
            case = {"model": "reversible-refusal", "class": cls_name, "predicates": label}
            acc.case(case)
            try:
                m = getattr(sm, cls_name)(predicates=list(preds), recode_gaps=True, model_gaps=False)
            except ValueError:
                acc.outcome(("refused", label))
                continue
            except Exception as e:  # noqa: BLE001
                sig = f"{cls_name}: raised {type(e).__name__} for {label}"
                fails.append((sig, {"error": str(e)[:200]}))
                if report:
                    acc.fail(sig, case, {"error": str(e)[:200]})
                continue
            # accepted: then the process it defines must be reversible - it cannot be when the two rates differ
            sig = f"{cls_name} accepted {label}: the parameters act on (i,j) and (j,i) separately, so detailed balance cannot hold"
            fails.append((sig, {"parameters": list(m.get_param_list())}))
            if report:
                acc.fail(sig, case, {"parameters": list(m.get_param_list())})
    return fails


def check_general_stationary(acc, report=True):
    """GeneralStationary derives some exchangeabilities from the others so that the given motif probabilities are
    stationary; for parameter vectors it cannot balance it refuses (ParameterOutOfBoundsError).  No oracle for the values
    is needed: whatever it accepts must be a calibrated generator under which pi is stationary, for Q and for P(t)."""
    from cogent3 import DNA, make_aligned_seqs, make_tree
    from cogent3.evolve.ns_substitution_model import GeneralStationary

    fails = []
    for word in (1, 2):
        fails += _general_stationary(acc, report, word)
    acc.sample({"model": "GeneralStationary", "word lengths": [1, 2]}, "GS")
    return fails


def _general_stationary(acc, report, word):
    from cogent3 import DNA, make_aligned_seqs, make_tree
    from cogent3.evolve.ns_substitution_model import GeneralStationary

    fails = []
    if word == 1:
        sm = GeneralStationary(DNA.alphabet, recode_gaps=True)
        pis = [{"T": 0.25, "C": 0.25, "A": 0.25, "G": 0.25}, {"T": 0.1, "C": 0.2, "A": 0.3, "G": 0.4}]
        values = (1e-6, 0.05, 3.0, 20.0, 1e6)
    else:
        # a word alphabet: the instantaneous mask is sparse (one position changes at a time); motif probs over the words
        sm = GeneralStationary(DNA.alphabet.get_word_alphabet(2), recode_gaps=True, mprob_model="tuple")
        words = [a + b for a in "TCAG" for b in "TCAG"]
        sk = [1.0 + (i % 5) for i in range(16)]
        pis = [{w: 1 / 16 for w in words}, {w: v / sum(sk) for w, v in zip(words, sk)}]
        values = (0.05, 3.0)
    pars = list(sm.get_param_list())
    aln = make_aligned_seqs({"a": "ACGTAC", "b": "ACGAAC", "c": "ATGTAG"}, moltype="dna")
    vectors = [{q: 1.0 for q in pars}]
    for pname in pars:
        for v in values:
            vectors.append({q: (v if q == pname else 1.0) for q in pars})
    if word == 1:
        for p1, p2 in itertools.combinations(pars, 2):
            vectors.append({q: (5.0 if q == p1 else 0.2 if q == p2 else 1.0) for q in pars})
    for pi in pis:
        for vec in vectors:
            case = {"model": "GS", "word_length": word, "pi": pi, "params": vec}
            acc.case(case)
            try:
                lf = sm.make_likelihood_function(make_tree("(a:0.1,b:0.7,c:2.5)"))
                lf.set_motif_probs(dict(pi))
                lf.set_alignment(aln)
                with lf.updates_postponed():
                    for q, v in vec.items():
                        lf.set_param_rule(q, value=float(v), is_constant=True)
                Q = numpy.asarray(lf.get_rate_matrix_for_edge("a", calibrated=True).array, float)
                P = numpy.asarray(lf.get_psub_for_edge("b").array, float)
                w = numpy.asarray(lf.get_motif_probs().array, float)
            except Exception as e:  # noqa: BLE001
                if type(e).__name__ in ("ParameterOutOfBoundsError",):
                    acc.outcome(("GS", "refused"))
                    continue
                sig = f"GeneralStationary: raised {type(e).__name__}"
                fails.append((sig, {"error": str(e)[:200]}))
                if report:
                    acc.fail(sig, case, {"error": str(e)[:200]})
                continue
            acc.outcome(("GS", "accepted"))
            probs = []
            if (Q - numpy.diag(numpy.diag(Q)) < -1e-12).any():
                probs.append(("a negative off-diagonal rate", float((Q - numpy.diag(numpy.diag(Q))).min())))
            if abs(Q.sum(axis=1)).max() > 1e-9:
                probs.append(("rows of Q do not sum to zero", float(abs(Q.sum(axis=1)).max())))
            if abs(float(-(w * numpy.diag(Q)).sum()) - 1) > 1e-9:
                probs.append(("Q is not calibrated", float(-(w * numpy.diag(Q)).sum())))
            if abs(w @ Q).max() > 1e-9:
                probs.append(("pi Q != 0: the motif probabilities are not stationary", float(abs(w @ Q).max())))
            if abs(w @ P - w).max() > 1e-8:
                probs.append(("pi P(t) != pi", float(abs(w @ P - w).max())))
            for what, val in probs:
                sig = f"GeneralStationary accepted a parameter vector: {what}"
                if sig not in [f[0] for f in fails]:
                    fails.append((sig, {"value": val}))
                if report:
                    acc.fail(sig, case, {"value": val})
    return fails


def run_shard(spec, acc):
    if spec.get("gs"):
        check_general_stationary(acc)
        return
    if spec.get("refusals"):
        check_reversible_refusals(acc)
        return
    if spec.get("discrete"):
        check_discrete(spec["model"], acc)
        return
    cases = cases_for(spec["model"], spec["tier"])
    for i, case in enumerate(cases):
        if i % spec["of"] != spec["chunk"]:
            continue
        check_case(spec["model"], case, acc)
        if i < 2 * spec["of"]:
            acc.sample({"model": spec["model"], **case, "lf_branch_lengths": LF_LENGTHS}, spec["model"][:3] + case["config"])


def replay(case):
    from vf.kernel.runner import Acc

    case = dict(case)
    name = case.pop("model")
    if name == "reversible-refusal":
        return check_reversible_refusals(Acc(), report=False)
    if name == "GS":
        return check_general_stationary(Acc(), report=False)
    if case.get("discrete"):
        return check_discrete(name, Acc(), report=False)
    return check_case(name, case, Acc(), report=False)


LEVEL_TEXT = (
    "Bounded exhaustive exploration of the real rate-matrix / transition-matrix machinery: every named continuous-time model (plus "
    "user-built nucleotide and dinucleotide predicate models) x every parameter vector of the lattice (declared bounds included; every "
    "{lower,upper} corner for the general models, i.e. the badly scaled / nearly defective matrices) x motif-probability choice x scope / "
    "rate-class configuration x every branch length of the lattice is built through the likelihood function and checked against the "
    "defining identities (zero row sums, non-negative rates, calibration, stationarity, detailed balance, stochastic P, P(0)=I, "
    "Chapman-Kolmogorov, mean-one rate classes), against scipy expm, across all expm settings and against every exponentiator class "
    "called directly. Complete on the lattice; nothing is claimed between lattice points."
)
LEVEL_NOTE = (
    "Trusted: numpy, scipy.linalg.expm, the oracle's computation of state probabilities from monomer probabilities. Tolerances 1e-10 (Q) "
    "and 1e-8 (P). Q is the function's own matrix here (its agreement with the published definition is C02's subject)."
)
