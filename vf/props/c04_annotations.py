"""C04 - annotations keep denoting the same residues through every view.

K1: features (every single span, two-span features on a grid, both strands) are attached to a witness
parent (symbols and complements pairwise distinct), either through ``add_feature`` or by attaching a
database holding genomic coordinates to a sequence with an annotation offset ("loaded for").  A BFS over
view histories (slices with steps 1 / 2 / -1, rc, copy, degap; a copy / degapped object is a state of its own) reuses the index model of C01; in every reachable
state every window query (start, stop, allow_partial) is issued and compared with a model of the
feature set, and every returned feature's slice with the feature's original residues restricted to what
the view retains, read on the feature's strand.  Alignments: features on a row and on the alignment,
through alignment slices and rc, and projection onto the other row.
"""

import itertools

from vf.props.c01_views import DNA_COMP

PID = "C04"
LEVEL = "model_checking"
TECHNIQUE = "explicit-state BFS over view histories x exhaustive feature / query-window enumeration against an index-set model"
RULE = (
    "states = canonical views (parent index list, orientation, how the object was last materialised: root / copy sliced / copy unsliced / degap) reached by slice / rc / copy / degap histories; per state every feature of the lattice "
    "(all single spans, two-span grid, both strands) x every query window (start, stop in [0, L]) x allow_partial is evaluated; "
    "transitions = view operations; evaluations = feature-query observations"
)
ASSUMPTIONS = [
    "a feature's residues are parent[s:e] over its spans in order, reverse-complemented as a whole for a '-' strand feature",
    "feature queries are extent based: a feature matches a window when its extent [min start, max stop) overlaps (allow_partial) or lies inside the window's parent extent",
    "two-sided windows are proper (start < stop); a window is given in view coordinates and denotes the parent extent of the view positions it covers",
    "strided views (|step| > 1) are judged for feature slices only, not for window membership (their extent semantics is not stated)",
    "slices with a negative step deliberately drop the annotation database (Sequence.__getitem__ keeps it only for a positive stride), so reversal enters histories through rc() only",
    "features are attached to the un-sliced parent; db coordinates for the offset case are genomic (offset + position)",
]

PARENT = "ACRMBDWS"


def bounds(tier):
    return {
        "quick": {"L": 6, "depth": 2, "steps": [1, 2], "offsets": [0, 3], "impls": ["old", "new"], "aln_len": 4, "coll_len": 4},
        "thorough": {"L": 8, "depth": 3, "steps": [1, 2, 3], "offsets": [0, 3], "impls": ["old", "new"], "aln_len": 5, "coll_len": 6},
    }[tier]


def rc(s):
    return "".join(DNA_COMP[c] for c in reversed(s))


# ----------------------------------------------------------------------------- features
def feature_lattice(L):
    feats = []
    for s in range(L):
        for e in range(s + 1, L + 1):
            feats.append([(s, e)])
    grid = [0, 1, L // 2, L - 1, L]
    grid = sorted(set(grid))
    for a, b, c, d in itertools.combinations(grid, 4):
        feats.append([(a, b), (c, d)])
    for a, b, c in itertools.combinations(grid, 3):
        if c - b >= 1 and b - a >= 1:
            feats.append([(a, b), (b + 1, c + 1)] if c + 1 <= L and b + 1 < c + 1 else [(a, b), (b, c)])
    out = []
    seen = set()
    for sp in feats:
        sp = [(s, e) for s, e in sp if s < e]
        if all(sp[i][1] <= sp[i + 1][0] for i in range(len(sp) - 1)):
            for strand in "+-":
                key = (tuple(sp), strand)
                if key not in seen:
                    seen.add(key)
                    out.append({"spans": sp, "strand": strand})
    return out


def feature_positions(f):
    return [p for s, e in f["spans"] for p in range(s, e)]


def feature_residues(parent, f, retained=None):
    pos = feature_positions(f)
    if retained is not None:
        pos = [p for p in pos if p in retained]
    s = "".join(parent[p] for p in pos)
    return rc(s) if f["strand"] == "-" else s


# ----------------------------------------------------------------------------- view model (subset of C01's)
class V:
    __slots__ = ("idx", "rev", "stride", "mat")

    def __init__(self, idx, rev=False, stride=1, mat=""):
        # mat: how the object this view hangs off was last materialised ("" = the annotated root, "copy sliced",
        # "copy unsliced", "degap"): the model value is the same, the implementation object is not, so it is part of the state
        self.idx, self.rev, self.stride, self.mat = tuple(idx), rev, stride, mat

    def key(self):
        return (self.idx, self.rev, self.stride, self.mat)

    def apply(self, op):
        if op[0] == "slice":
            _, a, b, c = op
            idx = self.idx[a:b:c]
            cc = c or 1
            return V(idx, self.rev ^ (cc < 0), self.stride * abs(cc) if idx else 1, self.mat)
        if op[0] == "rc":
            return V(self.idx[::-1], not self.rev, self.stride, self.mat)
        if op[0] == "copy":
            return V(self.idx, self.rev, self.stride, "copy sliced" if op[1] else "copy unsliced")
        if op[0] == "degap":
            return V(self.idx, self.rev, self.stride, "degap")
        raise ValueError(op)

    def string(self, parent):
        s = "".join(parent[i] for i in self.idx)
        return "".join(DNA_COMP[c] for c in s) if self.rev else s


def real_apply(seq, op):
    if op[0] == "slice":
        return seq[op[1] : op[2] : op[3]]
    if op[0] == "rc":
        return seq.rc()
    if op[0] == "copy":
        return seq.copy(sliced=op[1])
    if op[0] == "degap":
        return seq.degap()
    raise ValueError(op)


def view_alphabet(v, steps):
    L = len(v.idx)
    ops = []
    for c in steps:
        for a in [None] + list(range(0, L + 1)):
            for b in [None] + list(range(0, L + 1)):
                ops.append(("slice", a, b, None if c == 1 else c))
    ops.append(("rc",))
    ops.append(("copy", True))
    ops.append(("copy", False))
    ops.append(("degap",))
    return ops


# ----------------------------------------------------------------------------- implementation access
def make_root(impl, parent, off, feats, attach):
    from cogent3 import make_seq
    from cogent3.core.annotation_db import BasicAnnotationDb

    new = impl == "new"
    if attach == "add_feature":
        seq = make_seq(parent, name="s1", moltype="dna", new_type=new)
        for i, f in enumerate(feats):
            seq.add_feature(biotype="gene", name=f"f{i}", spans=[list(s) for s in f["spans"]], strand=f["strand"])
        return seq
    db = BasicAnnotationDb()
    for i, f in enumerate(feats):
        db.add_feature(seqid="s1", biotype="gene", name=f"f{i}", spans=[(s + off, e + off) for s, e in f["spans"]], strand=f["strand"])
    seq = make_seq(parent, name="s1", moltype="dna", new_type=new, annotation_offset=off)
    seq.annotation_db = db
    return seq


def query(seq, start, stop, partial):
    kw = {"biotype": "gene", "allow_partial": partial}
    if start is not None:
        kw["start"] = start
    if stop is not None:
        kw["stop"] = stop
    return {f.name: f for f in seq.get_features(**kw)}


# ----------------------------------------------------------------------------- oracle
def expected_names(v: V, feats, start, stop, partial):
    """names of the features a query on view v must return"""
    L = len(v.idx)
    a = 0 if start is None else start
    b = L if stop is None else stop
    win = v.idx[a:b]
    if not win:
        return None  # empty window: not judged
    lo, hi = min(win), max(win) + 1
    out = set()
    for i, f in enumerate(feats):
        pos = feature_positions(f)
        flo, fhi = min(pos), max(pos) + 1
        if partial:
            if flo < hi and lo < fhi:
                out.add(f"f{i}")
        elif lo <= flo and fhi <= hi:
            out.add(f"f{i}")
    return out


def check_view(seq, v: V, parent, feats, impl, attach, case, acc):
    L = len(v.idx)
    retained = set(v.idx)
    flags = ("reversed view" if v.rev else "forward view") + (f" after {v.mat}" if v.mat else "")
    windows = [(None, None)] + [(a, b) for a in range(0, L) for b in range(a + 1, L + 1)]
    if v.stride > 1:
        windows = [(None, None)]
    cls = f"{impl} sequence"
    for (a, b) in windows:
        for partial in (False, True):
            acc.case(None, nontrivial=bool(v.idx))
            want = expected_names(v, feats, a, b, partial)
            if want is None:
                continue
            wkind = "whole view" if a is None else "window"
            try:
                got = query(seq, a, b, partial)
            except Exception as e:  # noqa: BLE001
                acc.fail(f"get_features raised {type(e).__name__} ({wkind}, allow_partial={partial}) [{cls}; {flags}]",
                         dict(case, query=[a, b, partial]), {"error": str(e)[:200], "view": v.string(parent)})
                acc.outcome(("raise", type(e).__name__))
                continue
            acc.outcome((len(got), partial))
            if v.stride == 1 and set(got) != want:
                extra, missing = sorted(set(got) - want), sorted(want - set(got))
                what = "returned a feature outside the window" if extra else "missed a matching feature"
                acc.fail(f"get_features {what} ({wkind}, allow_partial={partial}) [{cls}; {flags}]",
                         dict(case, query=[a, b, partial]), {"extra": extra, "missing": missing, "view_parent_indices": list(v.idx),
                                                            "features": {f"f{i}": f for i, f in enumerate(feats) if f"f{i}" in extra + missing}})
                continue
            # the slice of every returned feature (only for the whole-view query, slices do not depend on the window)
            if a is None:
                for name, feat in got.items():
                    f = feats[int(name[1:])]
                    want_s = feature_residues(parent, f, retained)
                    try:
                        got_s = str(feat.get_slice()).replace("-", "").replace("?", "")
                        via_getitem = str(seq[feat]).replace("-", "").replace("?", "")
                    except Exception as e:  # noqa: BLE001
                        acc.fail(f"feature.get_slice raised {type(e).__name__} [{cls}; {flags}; {'partly inside' if set(feature_positions(f)) - retained else 'inside'}]",
                                 dict(case, query=[a, b, partial], feature=f), {"error": str(e)[:200]})
                        continue
                    inside = "partly inside" if set(feature_positions(f)) - retained else "inside"
                    spans = "multi-span" if len(f["spans"]) > 1 else "single span"
                    if got_s != want_s:
                        acc.fail(f"feature slice does not equal the feature's residues retained by the view [{cls}; {flags}; {f['strand']} strand {spans} feature {inside}]",
                                 dict(case, query=[a, b, partial], feature=f), {"got": got_s, "want": want_s, "view": v.string(parent)})
                    elif via_getitem != want_s:
                        acc.fail(f"seq[feature] differs from feature.get_slice() [{cls}; {flags}]", dict(case, feature=f), {"got": via_getitem, "want": want_s})


def explore(spec, acc):
    impl, off, attach, L, depth, steps = spec["impl"], spec["off"], spec["attach"], spec["L"], spec["depth"], spec["steps"]
    parent = PARENT[:L]
    feats = feature_lattice(L)
    feats = [f for i, f in enumerate(feats) if i % spec["fchunks"] == spec["fchunk"]]
    root = make_root(impl, parent, off, feats, attach)
    v0 = V(range(L))
    base = {"impl": impl, "off": off, "attach": attach, "L": L, "fchunk": [spec["fchunk"], spec["fchunks"]]}
    seen = {v0.key()}
    acc.state(0)
    check_view(root, v0, parent, feats, impl, attach, dict(base, history=[]), acc)
    frontier = [(root, v0, [])]
    for d in range(1, depth + 1):
        nxt = []
        for seq, v, hist in frontier:
            for op in view_alphabet(v, steps):
                acc.transitions += 1
                v2 = v.apply(op)
                try:
                    s2 = real_apply(seq, op)
                except Exception as e:  # noqa: BLE001
                    acc.fail(f"view operation {op[0]} raised {type(e).__name__} on an annotated sequence [{impl}]", dict(base, history=hist + [list(op)]), {"error": str(e)[:200]})
                    continue
                if str(s2) != v2.string(parent):
                    continue  # view algebra itself is C01's subject
                if not v2.idx or v2.key() in seen:
                    continue
                seen.add(v2.key())
                acc.state(d)
                h2 = hist + [list(op)]
                check_view(s2, v2, parent, feats, impl, attach, dict(base, history=h2), acc)
                if d < depth:
                    nxt.append((s2, v2, h2))
        frontier = nxt
    acc.sample({"impl": impl, "offset": off, "attach": attach, "parent": parent, "features": feats[:4], "views": len(seen)}, f"{impl}-{attach}")


# ----------------------------------------------------------------------------- alignments
def explore_alignment(spec, acc):
    """features on a row / on the alignment, through alignment slices and rc; projection onto the other row"""
    from cogent3 import make_aligned_seqs

    L = spec["L"]
    res = ["ACRMBDWS", "SWDBMRCA"]
    for masks in itertools.product(itertools.product((0, 1), repeat=L), repeat=2):
        rows = {f"s{r + 1}": "".join("-" if masks[r][c] else res[r][c] for c in range(L)) for r in range(2)}
        if any(not r.replace("-", "") for r in rows.values()):
            continue
        if sum(map(sum, masks)) % spec["of"] != spec["chunk"]:
            continue
        s1 = rows["s1"]
        cols1 = [i for i, c in enumerate(s1) if c != "-"]
        n1 = len(cols1)
        case0 = {"aln": rows}
        # ---- sequence-level features on row s1: every single span in sequence coordinates
        for s in range(n1):
            for e in range(s + 1, n1 + 1):
                for strand in "+-":
                    aln = make_aligned_seqs(rows, moltype="dna", array_align=False)
                    aln.get_seq("s1").add_feature(biotype="gene", name="f", spans=[(s, e)], strand=strand)
                    fcols = list(range(cols1[s], cols1[e - 1] + 1))
                    for a in range(0, L):
                        for b in range(a + 1, L + 1):
                            for do_rc in (False, True):
                                acc.case(None)
                                view_cols = list(range(a, b))
                                keep = [c for c in fcols if c in view_cols]
                                case = dict(case0, feature={"seq": "s1", "span": [s, e], "strand": strand}, view=[a, b, do_rc])
                                flags = f"{'rc of ' if do_rc else ''}alignment slice; seq feature"
                                try:
                                    v = aln[a:b]
                                    if do_rc:
                                        v = v.rc()
                                    fs = list(v.get_features(biotype="gene", allow_partial=True))
                                except Exception as ex:  # noqa: BLE001
                                    acc.fail(f"Alignment.get_features raised {type(ex).__name__} [{flags}]", case, {"error": str(ex)[:200]})
                                    continue
                                acc.outcome(("aln", len(fs), bool(keep)))
                                # residues of the feature the view retains
                                want1 = "".join(s1[c] for c in keep if s1[c] != "-")
                                if not want1:
                                    continue
                                if len(fs) != 1:
                                    acc.fail(f"Alignment.get_features returned {len(fs)} features where one overlaps the view [{flags}]", case, {"want": want1})
                                    continue
                                try:
                                    sl = fs[0].get_slice()
                                    got = {n: str(x) for n, x in sl.to_dict().items()}
                                except Exception as ex:  # noqa: BLE001
                                    acc.fail(f"alignment feature get_slice raised {type(ex).__name__} [{flags}]", case, {"error": str(ex)[:200]})
                                    continue
                                want = {n: "".join(r[c] for c in keep) for n, r in rows.items()}
                                if strand == "-":
                                    want = {n: rc(x) for n, x in want.items()}
                                g1 = got.get("s1", "").replace("-", "").replace("?", "")
                                w1 = want["s1"].replace("-", "")
                                if g1 != w1:
                                    acc.fail(f"alignment feature slice: residues of the annotated row differ from the retained feature residues [{flags}; {strand} strand]", case, {"got": got, "want": want})
                                else:
                                    # the slice taken by the feature is an alignment of its own: the feature is found on it
                                    # again and still denotes the same residues
                                    try:
                                        if keep != fcols or any(s1[c] == "-" for c in fcols):
                                            # the view cuts the feature (what its slice carries is not stated), or the feature
                                            # is several spans in alignment coordinates (such a slice drops the annotations by design)
                                            raise LookupError
                                        nested = list(sl.get_features(biotype="gene", allow_partial=True))
                                        ngot = [str(x.get_slice().to_dict().get("s1", "")).replace("-", "").replace("?", "") for x in nested]
                                    except LookupError:
                                        ngot = None
                                    except Exception as ex:  # noqa: BLE001
                                        acc.fail(f"features of the alignment taken by a feature: raised {type(ex).__name__} [{flags}; {strand} strand]", case, {"error": str(ex)[:200]})
                                        ngot = None
                                    if ngot is not None:
                                        acc.outcome(("aln-nested", len(ngot)))
                                        if ngot != [w1]:
                                            acc.fail(f"features of the alignment taken by a feature: the feature itself is not found with its residues [{flags}; {strand} strand]", case, {"got": ngot, "want": [w1]})
                                    # projection onto the other row: the columns of the retained feature residues
                                    # (columns where the annotated row has a gap are not part of the feature)
                                    w2 = "".join(rows["s2"][c] for c in keep if s1[c] != "-")
                                    if strand == "-":
                                        w2 = rc(w2)
                                    g2 = got.get("s2", "").replace("?", "")
                                    if g2 != w2:
                                        acc.fail(f"alignment feature slice: the other row is not the columns of the feature [{flags}; {strand} strand]", case, {"got": got, "want_other_row": w2})
                                # degapping the (sliced, reversed) alignment gives a collection whose sequences are views of the
                                # annotated parents: the feature must still denote the same residues
                                try:
                                    dg = v.degap()
                                    dfs = [f for f in dg.get_features(seqid="s1", biotype="gene", allow_partial=True)]
                                    dgot = [str(f.get_slice()).replace("-", "").replace("?", "") for f in dfs]
                                except Exception as ex:  # noqa: BLE001
                                    acc.fail(f"degapped alignment: get_features / get_slice raised {type(ex).__name__} [{flags}]", case, {"error": str(ex)[:200]})
                                    continue
                                acc.outcome(("aln-degap", len(dfs)))
                                if dgot != [w1]:
                                    acc.fail(f"degapped alignment: feature slice differs from the retained feature residues [{flags}; {strand} strand]", case, {"got": dgot, "want": w1, "degapped": {n: str(x) for n, x in dg.to_dict().items()}})
        # ---- alignment-level features: every single column span
        for s in range(L):
            for e in range(s + 1, L + 1):
                aln = make_aligned_seqs(rows, moltype="dna", array_align=False)
                aln.add_feature(biotype="gene", name="f", spans=[(s, e)], on_alignment=True)
                for a in range(0, L):
                    for b in range(a + 1, L + 1):
                        acc.case(None)
                        keep = [c for c in range(s, e) if a <= c < b]
                        case = dict(case0, feature={"on_alignment": [s, e]}, view=[a, b])
                        try:
                            fs = list(aln[a:b].get_features(biotype="gene", allow_partial=True, on_alignment=True))
                        except Exception as ex:  # noqa: BLE001
                            acc.fail(f"Alignment.get_features raised {type(ex).__name__} [alignment slice; alignment feature]", case, {"error": str(ex)[:200]})
                            continue
                        if not keep:
                            continue
                        if len(fs) != 1:
                            acc.fail(f"Alignment.get_features returned {len(fs)} features where one overlaps the view [alignment slice; alignment feature]", case, {})
                            continue
                        try:
                            got = {n: str(x).replace("?", "") for n, x in fs[0].get_slice().to_dict().items()}
                        except Exception as ex:  # noqa: BLE001
                            acc.fail(f"alignment feature get_slice raised {type(ex).__name__} [alignment slice; alignment feature]", case, {"error": str(ex)[:200]})
                            continue
                        want = {n: "".join(r[c] for c in keep) for n, r in rows.items()}
                        lost = "starts before the view" if s < a else "inside or ends after the view"
                        if got != want:
                            acc.fail(f"alignment-level feature slice differs from the feature's columns retained by the view [feature {lost}]", case, {"got": got, "want": want})
    acc.sample({"alignment_length": L, "features": "every span on row s1 (both strands) and every column span on the alignment", "views": "every slice, rc"}, "aln")


# ----------------------------------------------------------------------------- collections
# names chosen to be confusable under pattern matching: "_" is a one-character wildcard of SQL LIKE, which is also case-insensitive
N1, N2, N3 = "s_1", "sA1", "S_1"
COLL_PARENTS = {N1: "ACRMBDWS", N2: "SWDBMRCA"}


def explore_collection(spec, acc):
    """features of the sequences of a SequenceCollection (old and new implementation), added through the collection or
    held by an attached database that also has records of a sequence the collection does not contain; collection
    histories (take_seqs, degap, rc, per-sequence slices through get_seq) x collection-level queries"""
    from cogent3 import make_unaligned_seqs
    from cogent3.core.annotation_db import BasicAnnotationDb

    impl, L, attach = spec["impl"], spec["L"], spec["attach"]
    new = impl == "new"
    parents = {n: p[:L] for n, p in COLL_PARENTS.items()}
    spans = [(s, e) for s in range(L) for e in range(s + 1, L + 1)]
    hists = [[], [["take_seqs", [N2, N1]]], [["take_seqs", [N1]]], [["take_seqs", [N2]]], [["degap"]], [["rc"]], [["rc"], ["degap"]],
             [["take_seqs", [N2, N1]], ["degap"]], [["degap"], ["take_seqs", [N1]]], [["rc"], ["rc"]]]
    for (s, e), strand, other in itertools.product(spans, "+-", spans[:: max(1, len(spans) // 3)]):
        feats = {N1: {"spans": [(s, e)], "strand": strand}, N2: {"spans": [other], "strand": "-" if strand == "+" else "+"}}
        for hist in hists:
            case = {"coll": impl, "L": L, "attach": attach, "features": {k: {"spans": [list(x) for x in v["spans"]], "strand": v["strand"]} for k, v in feats.items()}, "history": hist}
            acc.case(None)
            try:
                if attach == "add_feature":
                    coll = make_unaligned_seqs(parents, moltype="dna", new_type=new)
                    for n, f in feats.items():
                        coll.add_feature(seqid=n, biotype="gene", name=f"f_{n}", spans=[list(x) for x in f["spans"]], strand=f["strand"])
                else:
                    db = BasicAnnotationDb()
                    for n, f in feats.items():
                        db.add_feature(seqid=n, biotype="gene", name=f"f_{n}", spans=[list(x) for x in f["spans"]], strand=f["strand"])
                    db.add_feature(seqid=N3, biotype="gene", name="f_foreign", spans=[(0, 1)], strand="+")
                    if new:
                        coll = make_unaligned_seqs(parents, moltype="dna", new_type=True, annotation_db=db)
                    else:
                        coll = make_unaligned_seqs(parents, moltype="dna")
                        coll.annotation_db = db
                cur = coll
                names = [N1, N2]
                dropped = False
                for op in hist:
                    if op[0] == "take_seqs":
                        cur = cur.take_seqs(op[1])
                        names = list(op[1])
                    elif op[0] == "degap":
                        cur = cur.degap()
                        dropped = dropped or new  # documented / transitional: the new-style collection does not carry the db through degap
                    elif op[0] == "rc":
                        cur = cur.rc()
                        dropped = dropped or new  # documented: "will break the relationship to an annotation_db"
            except Exception as ex:  # noqa: BLE001
                acc.fail(f"collection history raised {type(ex).__name__} [{impl} collection; {' > '.join(o[0] for o in hist) or 'no operation'}]", case, {"error": str(ex)[:200]})
                continue
            hkind = " > ".join(o[0] for o in hist) or "no operation"
            for seqid in (None, N1, N2):
                if seqid is not None and seqid not in names:
                    continue
                kw = {"biotype": "gene", "allow_partial": True}
                if seqid:
                    kw["seqid"] = seqid
                try:
                    got = sorted((f.name, str(f.get_slice())) for f in cur.get_features(**kw))
                except Exception as ex:  # noqa: BLE001
                    acc.fail(f"collection get_features raised {type(ex).__name__} [{impl} collection; {attach}; {hkind}; seqid {'given' if seqid else 'not given'}]",
                             dict(case, query=kw), {"error": str(ex)[:200]})
                    acc.outcome(("coll-raise", type(ex).__name__))
                    continue
                acc.outcome(("coll", len(got)))
                if dropped:
                    # no database any more: nothing may be returned (and nothing wrong)
                    want = []
                    if got:
                        want = sorted((f"f_{n}", feature_residues(parents[n], feats[n])) for n in names if seqid in (None, n))
                else:
                    want = sorted((f"f_{n}", feature_residues(parents[n], feats[n])) for n in names if seqid in (None, n))
                if got != want:
                    acc.fail(f"collection get_features differs from the features of its sequences [{impl} collection; {attach}; {hkind}; seqid {'given' if seqid else 'not given'}]",
                             dict(case, query=kw), {"got": got, "want": want, "names": names})
            # per-sequence views obtained from the collection: a slice of a member sequence
            if dropped:
                continue
            for n in names:
                for a in range(L):
                    for b in range(a + 1, L + 1):
                        acc.case(None)
                        try:
                            sq = cur.get_seq(n)
                            view = sq[a:b]
                            got = sorted((f.name, str(f.get_slice())) for f in view.get_features(biotype="gene", allow_partial=True))
                        except Exception as ex:  # noqa: BLE001
                            acc.fail(f"member sequence slice: get_features raised {type(ex).__name__} [{impl} collection; {attach}; {hkind}]", dict(case, member=n, slice=[a, b]), {"error": str(ex)[:200]})
                            continue
                        rev = sum(1 for o in hist if o[0] == "rc") % 2 == 1
                        idx = list(range(L))[::-1][a:b] if rev else list(range(L))[a:b]
                        f = feats[n]
                        keep = set(idx)
                        want_s = feature_residues(parents[n], f, keep)
                        want = [(f"f_{n}", want_s)] if want_s else []
                        got = [(x, y.replace("-", "").replace("?", "")) for x, y in got]
                        if got != want:
                            acc.fail(f"member sequence slice: features differ from the retained feature residues [{impl} collection; {attach}; {hkind}]",
                                     dict(case, member=n, slice=[a, b]), {"got": got, "want": want})
    # a collection made from slices (and reverse complements of slices) of annotated sequences: collection-level queries
    # place every feature where the member's own query places it
    if attach == "add_feature":
        from cogent3 import make_seq

        for (s, e), strand, (a, b), do_rc in itertools.product(spans, "+-", [(x, y) for x in range(L) for y in range(x + 1, L + 1)], (False, True)):
            case = {"coll": impl, "L": L, "attach": "members are slices of annotated sequences", "feature": {"spans": [[s, e]], "strand": strand}, "slice": [a, b], "rc": do_rc}
            acc.case(None)
            try:
                chrom = make_seq(parents[N1], name=N1, moltype="dna", new_type=new)
                chrom.add_feature(biotype="gene", name="g", spans=[(s, e)], strand=strand)
                other = make_seq(parents[N2], name=N2, moltype="dna", new_type=new)
                member = chrom[a:b].rc() if do_rc else chrom[a:b]
                coll = make_unaligned_seqs([member, other], moltype="dna", new_type=new)
                got = sorted((f.name, str(f.get_slice())) for f in coll.get_features(biotype="gene", allow_partial=True))
                own = sorted((f.name, str(f.get_slice())) for f in member.get_features(biotype="gene", allow_partial=True))
            except Exception as ex:  # noqa: BLE001
                acc.fail(f"collection of sliced annotated sequences: raised {type(ex).__name__} [{impl} collection]", case, {"error": str(ex)[:200]})
                continue
            keep = set(range(a, b))
            want_s = feature_residues(parents[N1], {"spans": [(s, e)], "strand": strand}, keep)
            want = [("g", want_s)] if want_s else []
            acc.outcome(("coll-sliced", len(got)))
            if own == want and got != want:
                # what is wrong: features outside the member's view reported with an empty slice, or residues misplaced
                nonempty = [x for x in got if x[1]]
                how = ("also returns features that lie outside the member's view (empty slices)" if nonempty == want
                       else "places a feature on the wrong residues")
                acc.fail(f"collection of sliced annotated sequences: collection-level get_features {how} [{impl} collection; {'rc of a slice' if do_rc else 'slice'}]",
                         case, {"collection": got, "member": own, "want": want})
    acc.sample({"collection": impl, "attach": attach, "L": L, "histories": len(hists)}, f"coll-{impl}-{attach}")


def check_shapes(spec, acc):
    """features whose spans are nested or listed out of order, taken as one span; unions of three features of mixed
    strands, in every order of the arguments"""
    from cogent3 import make_seq

    impl = spec["impl"]
    parent = PARENT
    L = len(parent)
    span_lists = [[(2, 7), (3, 5)], [(3, 5), (2, 7)], [(1, 3), (5, 8)], [(0, 8), (2, 3), (4, 5)], [(1, 6), (2, 4), (3, 8)]]
    for spans in span_lists:
        for strand in "+-":
            case = {"shapes": impl, "spans": [list(x) for x in spans], "strand": strand, "op": "as_one_span"}
            acc.case(case, nontrivial=True)
            try:
                seq = make_seq(parent, name="s1", moltype="dna", new_type=impl == "new")
                f = seq.add_feature(biotype="gene", name="f", spans=[list(x) for x in spans], strand=strand)
                got = str(f.as_one_span().get_slice())
            except Exception as e:  # noqa: BLE001
                acc.fail(f"as_one_span().get_slice() raised {type(e).__name__} [{impl}; spans nested or out of order]", case, {"error": str(e)[:200]})
                continue
            lo, hi = min(a for a, _ in spans), max(b for _, b in spans)
            want = parent[lo:hi]
            want = rc(want) if strand == "-" else want
            acc.outcome(("one_span", got == want))
            if got != want:
                acc.fail(f"as_one_span().get_slice() is not the stretch from the first to the last annotated position [{impl}; spans nested or out of order]",
                         case, {"got": got, "want": want})
    blocks = [(0, 2), (3, 5), (6, 8)]
    for strands in itertools.product("+-", repeat=3):
        for order in itertools.permutations(range(3)):
            case = {"shapes": impl, "strands": list(strands), "order": list(order), "op": "union"}
            acc.case(case, nontrivial=len(set(strands)) > 1)
            try:
                seq = make_seq(parent, name="s1", moltype="dna", new_type=impl == "new")
                fs = [seq.add_feature(biotype="gene", name=f"f{i}", spans=[list(blocks[i])], strand=strands[i]) for i in range(3)]
                first, rest = fs[order[0]], [fs[order[1]], fs[order[2]]]
                got = str(first.union(rest).get_slice())
            except Exception as e:  # noqa: BLE001
                acc.fail(f"Feature.union raised {type(e).__name__} [{impl}]", case, {"error": str(e)[:200]})
                continue
            want = "".join(parent[a:b] for a, b in blocks)
            if len(set(strands)) == 1 and strands[0] == "-":
                want = rc(want)
            acc.outcome(("union", got == want))
            if got != want:
                acc.fail(f"Feature.union of three features: residues [{impl}; " + ("one strand" if len(set(strands)) == 1 else "mixed strands") + "]", case, {"got": got, "want": want})
    acc.sample({"feature shapes": span_lists, "unions of": blocks}, "shapes")


def shards(tier, seed):
    b = bounds(tier)
    out = [{"part": "shapes", "impl": impl} for impl in b["impls"]]
    for impl in b["impls"]:
        for off, attach in [(0, "add_feature")] + [(o, "attached db") for o in b["offsets"]]:
            for fc in range(8):
                out.append({"part": "seq", "impl": impl, "off": off, "attach": attach, "L": b["L"], "depth": b["depth"], "steps": b["steps"], "fchunk": fc, "fchunks": 8})
    for c in range(4):
        out.append({"part": "aln", "L": b["aln_len"], "chunk": c, "of": 4})
    for impl in b["impls"]:
        for attach in ("add_feature", "attached db with a foreign seqid"):
            out.append({"part": "coll", "impl": impl, "attach": attach, "L": b["coll_len"]})
    return out


def run_shard(spec, acc):
    if spec["part"] == "shapes":
        check_shapes(spec, acc)
    elif spec["part"] == "seq":
        explore(spec, acc)
    elif spec["part"] == "coll":
        explore_collection(spec, acc)
    else:
        explore_alignment(spec, acc)


def replay(case):
    from vf.kernel.runner import Acc

    acc = Acc()
    if "shapes" in case:
        check_shapes({"impl": case["shapes"]}, acc)
    elif "coll" in case:
        explore_collection({"impl": case["coll"], "L": case["L"], "attach": "add_feature" if case["attach"].startswith("members are") else case["attach"]}, acc)
    elif "aln" in case:
        rows = case["aln"]
        L = len(rows["s1"])
        nmask = sum(c == "-" for r in rows.values() for c in r)
        explore_alignment({"L": L, "chunk": nmask % 4, "of": 4}, acc)
    else:
        L = case["L"]
        parent = PARENT[:L]
        feats = [f for i, f in enumerate(feature_lattice(L)) if i % case["fchunk"][1] == case["fchunk"][0]]
        seq = make_root(case["impl"], parent, case["off"], feats, case["attach"])
        v = V(range(L))
        for op in case["history"]:
            op = tuple(op)
            seq, v = real_apply(seq, op), v.apply(op)
        check_view(seq, v, parent, feats, case["impl"], case["attach"], {k: case[k] for k in ("impl", "off", "attach", "L", "fchunk", "history")}, acc)
    return [(s, r["cases"][0]["detail"]) for s, r in acc.failures.items()]


LEVEL_TEXT = (
    "Explicit-state exploration of annotated views: for every reachable slice / rc / copy state of an annotated witness sequence (both implementations, features added "
    "directly or attached as a genomic-coordinate database with an annotation offset) every feature of the lattice is queried with every window and allow_partial "
    "setting, and each returned feature's slice is compared with the feature's original residues restricted to the positions the view retains; alignments with "
    "every gap mask carry row- and alignment-level features through every slice and rc, are projected onto the other row and are degapped into a collection; "
    "old- and new-style sequence collections (features added through the collection, or an attached database that also holds records of a sequence the collection does "
    "not contain; confusable member names) are taken through take_seqs / degap / rc histories with collection-level and member-level queries."
)
LEVEL_NOTE = "Trusted: the C01 index model, the IUPAC complement table. Parents up to the stated length; window semantics are extent based as stated in ASSUMPTIONS."
