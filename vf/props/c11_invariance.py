"""C11 - the likelihood is invariant under relabelling, reordering and re-rooting.

K2, relational: for every base problem (model x tree shape x parameter / motif-probability /
scope class x small alignment) EVERY transform of each family is applied and the log-likelihood
of the transformed problem (a freshly built likelihood function) is compared with the
original's:
  columns   every permutation of the motif-sized column blocks
  seqs      every order of the sequences in the alignment
  children  every combination of child orders at all internal nodes
  multiset  every multiplicity vector in {1,2,3}^columns (repeat / merge): lnL = sum m_i lnL_i
  reroot    (time-reversible models) root at every internal node, on every edge at 1/4 and 1/2
  split     (all continuous-time models) every edge split in two at 1/4 and 1/2
Tree surgery is done on plain nested python values (vf.models.felsenstein tree values), never
with cogent3 tree methods.
"""

from __future__ import annotations

import itertools

import numpy

from vf.models import felsenstein as F
from vf.props import c02_lnl as D

PID = "C11"
LEVEL = "exploration"
TECHNIQUE = "exhaustive enumeration of permutations / root placements / edge splits, lnL compared between two freshly built likelihood functions"
RULE = (
    "base problem = (model, tree shape, parameter class, alignment); transforms: all column-block permutations, all sequence orders, "
    "the full product of child orders over all internal nodes, all multiplicity vectors {1,2,3}^columns, all root placements (every "
    "internal node; every edge at 1/4, 1/2) for reversible models, all single edge splits (1/4, 1/2); every (base, transform) pair is "
    "enumerated once, the identity transform is excluded; non-trivial = the transform really changes the input (not the identity)"
)
ASSUMPTIONS = [
    "lnL equality is judged at |d| <= 1e-10*|lnL| + 1e-11 (two different evaluation orders of the same real-number expression)",
    "parameters are moderate lattice points (one per structural class: equal / unequal motif probs, global / per-edge scope); "
    "nearly defective rate matrices are C05's subject",
    "re-rooting keeps every edge's own parameters with that edge (per-edge scopes travel with the edge); motif probabilities are global",
    "a root with two children that stops being the root becomes an internal node with a single child (not merged)",
    "branch lengths are positive lattice values (zero lengths are covered by C02)",
]
SHARD_TIMEOUT = {"quick": 900, "thorough": 3600}
FRACTIONS = (0.25, 0.5)


def bounds(tier):
    return {
        "models": sorted(F.MODELS),
        "tips": [3, 4] if tier == "quick" else [3, 4, 5],
        "shapes": "all rooted shapes incl. polytomies (3 tips: 2, 4 tips: 5, 5 tips: 12); codon/protein/dinucleotide: quick 3 shapes, 5 tips 4 shapes",
        "columns": 4 if tier == "thorough" else {"nucleotide/dinucleotide": 4, "codon/protein": 3},
        "parameter_classes": ["equal pi / global", "unequal pi / global", "unequal pi / per-edge"],
        "fractions": list(FRACTIONS),
        "multiplicities": "{1,2,3}^columns" if tier == "thorough" else "{1,2,3}^3 (first three columns) + all-2, all-3 interleaved",
    }


# ----------------------------------------------------------------------------- tree surgery (plain python)
def adjacency(tree):
    """undirected view: node -> [(neighbour, edge id)] in child order; edge id = original child name"""
    adj = {}
    for n, p, _ in F.tree_nodes(tree):
        adj.setdefault(n, [])
        if p is not None:
            adj[p].append((n, n))
    for n, p, _ in F.tree_nodes(tree):
        if p is not None:
            adj[n].insert(0, (p, n))
    return adj


def rooted_from(adj, root, tips, rename):
    """nested tree value rooted at `root`; returns (tree, {new child name: edge id})"""
    edge_of = {}

    def rec(u, parent):
        if u in tips:
            return u
        kids = []
        for v, eid in adj[u]:
            if v == parent:
                continue
            sub = rec(v, u)
            name = sub if isinstance(sub, str) else sub[0]
            edge_of[name] = eid
            kids.append(sub)
        return (rename.get(u, u), kids)

    t = rec(root, None)
    return t, edge_of


def carry(edge_of, lengths, eparams, scale=None):
    """edge attributes follow the edge; scale: {new name: factor of the original length}"""
    nl, ne = {}, {}
    for new, eid in edge_of.items():
        f = 1.0 if scale is None else scale.get(new, 1.0)
        nl[new] = lengths[eid] * f
        if eparams and eid in eparams:
            ne[new] = eparams[eid]
    return nl, ne


def reroot_at_node(tree, lengths, eparams, node):
    tips = set(F.tip_names(tree))
    adj = adjacency(tree)
    t, edge_of = rooted_from(adj, node, tips, {node: "root", "root": "oldroot"})
    nl, ne = carry(edge_of, lengths, eparams)
    return t, nl, ne


def reroot_on_edge(tree, lengths, eparams, child, frac):
    """new root on the edge above `child`, at `frac` of its length from the child end"""
    tips = set(F.tip_names(tree))
    adj = adjacency(tree)
    parent = next(v for v, eid in adj[child] if eid == child)
    # replace the edge by child - NEW - parent
    adj = {u: [(v, e) for v, e in nb if not (e == child)] for u, nb in adj.items()}
    adj[child].insert(0, ("NEW", "lo"))
    adj[parent].append(("NEW", "hi"))
    adj["NEW"] = [(child, "lo"), (parent, "hi")]
    t, edge_of = rooted_from(adj, "NEW", tips, {"NEW": "root", "root": "oldroot"})
    lengths = dict(lengths, lo=lengths[child] * frac, hi=lengths[child] * (1 - frac))
    if eparams and child in eparams:
        eparams = dict(eparams, lo=eparams[child], hi=eparams[child])
    nl, ne = carry(edge_of, lengths, eparams)
    return t, nl, ne


def split_edge(tree, lengths, eparams, child, frac):
    """insert a node with a single child on the edge above `child`"""

    def rec(t):
        if isinstance(t, str):
            return ("mid", [t]) if t == child else t
        name, kids = t
        new = (name, [rec(k) for k in kids])
        return ("mid", [new]) if name == child else new

    t = rec(tree)
    nl = dict(lengths)
    nl[child] = lengths[child] * frac
    nl["mid"] = lengths[child] * (1 - frac)
    ne = dict(eparams or {})
    if eparams and child in eparams:
        ne["mid"] = eparams[child]
    return t, nl, ne


def child_orders(tree):
    """every tree obtained by permuting the children of every internal node (full product)"""
    if isinstance(tree, str):
        return [tree]
    name, kids = tree
    options = [child_orders(k) for k in kids]
    out = []
    for perm in itertools.permutations(range(len(kids))):
        for combo in itertools.product(*[options[i] for i in perm]):
            out.append((name, list(combo)))
    return out


# ----------------------------------------------------------------------------- base problems
def motif_columns(kind, ntips, ncols):
    """ncols diverse columns (list of per-tip motif tuples)"""
    if kind == "nuc":
        pool = ["A" * ntips, "C" + "T" * (ntips - 1), "".join("ACGT"[i % 4] for i in range(ntips)),
                "R" + "G" * (ntips - 2) + "-"]
        return [tuple(c) for c in pool[:ncols]]
    if kind == "dinuc":
        w = ["AC", "CG", "TG", "CA", "GG"]
        pool = [tuple([w[0]] * ntips), tuple([w[1]] + [w[2]] * (ntips - 1)), tuple(w[i % 5] for i in range(ntips)),
                tuple(["NN"] + [w[4]] * (ntips - 2) + ["C-"])]
        return pool[:ncols]
    if kind == "codon":
        w = ["ATG", "CGG", "CCG", "TTA", "CTA"]
        pool = [tuple([w[0]] * ntips), tuple([w[1]] + [w[2]] * (ntips - 1)), tuple(w[(i + 3) % 5] for i in range(ntips)),
                tuple(["ACN"] + [w[4]] * (ntips - 2) + ["---"])]
        return pool[:ncols]
    if kind == "protein":
        pool = [tuple("M" * ntips), tuple("W" + "C" * (ntips - 1)), tuple("ACDEF"[i % 5] for i in range(ntips)),
                tuple("B" + "K" * (ntips - 2) + "-")]
        return pool[:ncols]
    raise ValueError(kind)


def make_aln(kind, tips_in_order, tips, cols):
    from cogent3 import make_aligned_seqs

    idx = {t: i for i, t in enumerate(tips)}
    seqs = {t: "".join(c[idx[t]] for c in cols) for t in tips_in_order}
    return make_aligned_seqs(seqs, moltype="protein" if kind == "protein" else "dna")


def base_problems(name, tier):
    kind, terms, form, eq = F.MODELS[name]
    big = kind in ("codon", "protein", "dinuc")
    out = []
    tipsets = [3, 4] if tier == "quick" else [3, 4, 5]
    for nt in tipsets:
        shapes = F.rooted_shapes(nt)
        for si, sh in enumerate(shapes):
            if big and tier == "quick" and (nt, si) not in ((3, 0), (3, 1), (4, 2)):
                continue
            if big and nt == 5 and si not in (0, 5, 9, 11):
                continue
            tree = F.label_shape(sh)
            edges = F.edges_of(tree)
            pis = D.pi_choices(name)
            classes = [("equal", pis[0], False)]
            if len(pis) > 1:
                classes.append(("unequal", pis[1], False))
                if terms:
                    classes.append(("unequal/per-edge", pis[1], True))
            elif terms:
                classes.append(("equal/per-edge", pis[0], True))
            if nt == 5 and len(classes) > 1:
                classes = classes[1:]
            ncols = 3 if (big and kind != "dinuc" and tier == "quick") else 4
            for cname, pi, scoped in classes:
                spec = {"model": name, "model_kw": None, "kind": kind, "tree": tree, "tips": F.tip_names(tree),
                        "lengths": D.base_lengths(edges), "params": D.base_params(terms), "pi": pi,
                        "cols": [list(c) for c in motif_columns(kind, nt, ncols)], "class": cname}
                if scoped:
                    spec["edge_params"] = {e: D.base_params(terms, shift=n + 1) for n, e in enumerate(edges)}
                out.append(spec)
            if D.spec_is_directed_nuc(name, terms) and nt <= 4:
                # nearly defective rate matrix inside the parameter bounds (one-way chain of equal large rates, the rest on
                # the lower bound): exp(Qt) is right only through the fallback of the default exponentiation setting
                chain = {"T>C", "C>A", "A>G"}
                for big in (1e3, 1e6):
                    out.append({"model": name, "model_kw": None, "kind": kind, "tree": tree, "tips": F.tip_names(tree),
                                "lengths": D.base_lengths(edges), "params": {t: (big if t in chain else 1e-6) for t in terms}, "pi": pis[0],
                                "cols": [list(c) for c in motif_columns(kind, nt, ncols)], "class": "equal/nearly defective Q"})
    return out


def transforms(spec, tier):
    """every transform of every family for a base problem, as JSON-able descriptions"""
    name = spec["model"]
    tree = D.to_tree(spec["tree"])
    tips = spec["tips"]
    ncols = len(spec["cols"])
    out = []
    for perm in itertools.permutations(range(ncols)):
        if list(perm) != list(range(ncols)):
            out.append({"family": "columns", "perm": list(perm)})
    for perm in itertools.permutations(range(len(tips))):
        if list(perm) != list(range(len(tips))):
            out.append({"family": "seqs", "perm": list(perm)})
    for i, t in enumerate(child_orders(tree)):
        if i:
            out.append({"family": "children", "index": i})
    free = ncols if tier == "thorough" else min(ncols, 3)  # quick: the last column keeps multiplicity 1
    for m in itertools.product((1, 2, 3), repeat=free):
        m = list(m) + [1] * (ncols - free)
        if any(x != 1 for x in m):
            out.append({"family": "multiset", "mult": m, "interleave": False})
    out.append({"family": "multiset", "mult": [2] * ncols, "interleave": True})
    out.append({"family": "multiset", "mult": [3] * ncols, "interleave": True})
    internals = [n for n, p, t in F.tree_nodes(tree) if not t and p is not None]
    edges = F.edges_of(tree)
    if name in F.REVERSIBLE:
        for n in internals:
            out.append({"family": "reroot", "node": n})
        for e in edges:
            for f in FRACTIONS:
                out.append({"family": "reroot", "edge": e, "frac": f})
    for e in edges:
        for f in FRACTIONS:
            out.append({"family": "split", "edge": e, "frac": f})
    if spec["kind"] == "nuc":
        # the same split, lnL read again after the function was used for something else (ancestral reconstruction pins
        # motifs at every node in turn): the single-child node keeps no trace of it
        for e in edges:
            out.append({"family": "split", "edge": e, "frac": FRACTIONS[0], "after": "reconstruct_ancestral_seqs"})
    if spec["kind"] == "nuc":
        # one function object given the alignment, then the same columns in another order / repeated: what the first
        # alignment left behind must not show (with and without rate classes)
        for bins in (None, {"mode": "gamma", "n": 2, "shape": 1.0, "bprobs": None}):
            out.append({"family": "reuse", "bins": bins, "second": "reversed columns"})
            out.append({"family": "reuse", "bins": bins, "second": "each column three times"})
    # the library's own tree operations (the families above build the transformed tree in the driver)
    if not spec.get("edge_params"):
        for n in internals:
            out.append({"family": "library", "op": "edgelike_labels", "arg": n})
            out.append({"family": "library", "op": "edgelike_labels_reversed", "arg": n})
        out.append({"family": "library", "op": "lengths_from_tree", "tiny": False})
        out.append({"family": "library", "op": "lengths_from_tree", "tiny": True})
        if name in F.REVERSIBLE:
            out.append({"family": "library", "op": "unrooted"})
            out.append({"family": "library", "op": "unrooted_children_reversed"})
            out.append({"family": "library", "op": "root_at_midpoint"})
            for n in internals:
                out.append({"family": "library", "op": "rooted_at", "arg": n})
            for t in tips:
                out.append({"family": "library", "op": "rooted_with_tip", "arg": t})
    return out


TINY = 4e-7  # a legal positive branch length below any default / tolerance constant in the library


def lnl_of_library_tree(spec, tr):
    """lnL of a function built on a tree produced by cogent3's own tree methods, branch lengths carried by the tree"""
    from cogent3 import make_tree

    tree = D.to_tree(spec["tree"])
    lengths = dict(spec["lengths"])
    if tr.get("tiny"):
        first = sorted(lengths)[0]
        lengths[first] = TINY
    if any(not l > 0 for l in lengths.values()):
        return None, None  # a zero length on a tree object is documented to be replaced by a default
    if tr["op"] == "unrooted_children_reversed":
        tree = (tree[0], list(reversed(tree[1]))) if not isinstance(tree, str) else tree
    op = tr["op"]
    if op.startswith("edgelike_labels"):
        # the newick text labels one internal node with a name that looks generated (edge.0) and leaves the others
        # unnamed: every edge must still be a parameter of its own, wherever the labelled node comes in the text
        def text(t, top=True, seen=[0]):  # noqa: B006
            if isinstance(t, str):
                return f"{t}:{lengths[t]!r}"
            kids = list(t[1])
            if op.endswith("reversed"):
                kids = kids[::-1]
            inner = "(" + ",".join(text(k, False) for k in kids) + ")"
            if top:
                return inner + ";"
            seen[0] += 1
            label = "edge.0" if t[0] == tr["arg"] else ""
            return f"{inner}{label}:{lengths[t[0]]!r}"

        ct = make_tree(text(tree, True, [0]))
    else:
        ct = make_tree(F.newick(tree, lengths))
    if op in ("unrooted", "unrooted_children_reversed"):
        ct = ct.unrooted()
    elif op == "root_at_midpoint":
        ct = ct.root_at_midpoint()
    elif op == "rooted_at":
        ct = ct.rooted_at(tr["arg"])
    elif op == "rooted_with_tip":
        ct = ct.rooted_with_tip(tr["arg"])
    sm = D.make_model(spec["model"], spec.get("model_kw"), None)
    lf = sm.make_likelihood_function(ct)
    mp = D.pi_dict(spec)
    if mp is not None:
        lf.set_motif_probs(mp)
    lf.set_alignment(make_aln(spec["kind"], spec["tips"], spec["tips"], spec["cols"]))
    for t, v in spec["params"].items():
        lf.set_param_rule(t, value=float(v), is_constant=True)
    expected = lnl_of(spec, lengths=lengths) if tr.get("tiny") else None
    return float(lf.lnL), expected


# ----------------------------------------------------------------------------- evaluation
def lnl_of(spec, tree=None, lengths=None, eparams=None, tips_order=None, cols=None, after=None):
    s = dict(spec)
    if tree is not None:
        s["tree"] = tree
    if lengths is not None:
        s["lengths"] = lengths
    if eparams is not None:
        s["edge_params"] = eparams
    cols = cols if cols is not None else spec["cols"]
    aln = make_aln(spec["kind"], tips_order or spec["tips"], spec["tips"], cols)
    lf = D.make_lf(s, aln=aln)
    if after:
        first = float(lf.lnL)
        getattr(lf, after)()
        again = float(lf.lnL)
        return again if again != first else first
    return float(lf.lnL)


def apply_transform(spec, tr, base_cache):
    """(lnL of the transformed problem, expected lnL)"""
    tree = D.to_tree(spec["tree"])
    cols = spec["cols"]
    fam = tr["family"]
    base = base_cache["lnL"]
    if fam == "columns":
        return lnl_of(spec, cols=[cols[i] for i in tr["perm"]]), base
    if fam == "seqs":
        return lnl_of(spec, tips_order=[spec["tips"][i] for i in tr["perm"]]), base
    if fam == "children":
        return lnl_of(spec, tree=child_orders(tree)[tr["index"]]), base
    if fam == "multiset":
        if "single" not in base_cache:
            base_cache["single"] = [lnl_of(spec, cols=[c]) for c in cols]
        m = tr["mult"]
        if tr["interleave"]:
            new = [cols[i] for r in range(max(m)) for i in range(len(cols)) if r < m[i]]
        else:
            new = [cols[i] for i in range(len(cols)) for _ in range(m[i])]
        return lnl_of(spec, cols=new), float(sum(k * l for k, l in zip(m, base_cache["single"])))
    if fam == "reuse":
        sp = dict(spec, bins=tr["bins"]) if tr["bins"] else spec
        cols2 = cols[::-1] if tr["second"] == "reversed columns" else [c for c in cols for _ in range(3)]
        factor = 1.0 if tr["second"] == "reversed columns" else 3.0
        lf = D.make_lf(sp, aln=make_aln(spec["kind"], spec["tips"], spec["tips"], cols))
        first = float(lf.lnL)
        lf.set_alignment(make_aln(spec["kind"], spec["tips"], spec["tips"], cols2))
        return float(lf.lnL), factor * first
    if fam == "library":
        got, expected = lnl_of_library_tree(spec, tr)
        if got is None:
            return base, base  # not applicable (a zero length), nothing to compare
        return got, (base if expected is None else expected)
    lengths, ep = spec["lengths"], spec.get("edge_params") or {}
    if fam == "reroot":
        if "node" in tr:
            t, nl, ne = reroot_at_node(tree, lengths, ep, tr["node"])
        else:
            t, nl, ne = reroot_on_edge(tree, lengths, ep, tr["edge"], tr["frac"])
        return lnl_of(spec, tree=t, lengths=nl, eparams=ne), base
    if fam == "split":
        t, nl, ne = split_edge(tree, lengths, ep, tr["edge"], tr["frac"])
        return lnl_of(spec, tree=t, lengths=nl, eparams=ne, after=tr.get("after")), base
    raise ValueError(fam)


def close(a, b):
    return abs(a - b) <= 1e-10 * abs(b) + 1e-11


def sig_for(spec, tr):
    kind = spec["kind"]
    fam = tr["family"]
    scope = "per-edge scope" if spec.get("edge_params") else "global scope"
    if fam == "reroot":
        where = "at internal node" if "node" in tr else "on edge"
        return f"lnL changes under re-rooting {where} [{kind}; {scope}]"
    if fam == "split" and tr.get("after"):
        return f"lnL of a tree with a split edge is different after {tr['after']}() [{kind}; {scope}]"
    if fam == "split":
        return f"lnL changes when an edge is split [{kind}; {scope}]"
    if fam == "library":
        if tr["op"] == "lengths_from_tree":
            return f"lnL differs between branch lengths carried by the tree and the same lengths set as parameters [{kind}; {'tiny length' if tr.get('tiny') else 'ordinary lengths'}]"
        if tr["op"].startswith("edgelike_labels"):
            return f"lnL differs for a tree whose newick labels one internal node edge.0 and leaves the others unnamed [{kind}]"
        return f"lnL changes under the library's own {tr['op'].replace('_children_reversed', '')}() [{kind}]"
    if fam == "reuse":
        return f"lnL after a second set_alignment on the same function ({tr['second']}) is not that of the new alignment [{kind}; {'rate classes' if tr['bins'] else 'no rate classes'}]"
    if fam == "multiset":
        return f"lnL of repeated / merged columns != sum of multiplicity * column lnL [{kind}]"
    return f"lnL changes under permutation of {fam} [{kind}]"


def check_base(spec, acc, tier, only=None, report=True):
    fails = []
    try:
        cache = {"lnL": lnl_of(spec)}
    except Exception as e:  # noqa: BLE001
        sig = f"base problem raised {type(e).__name__} [{spec['kind']}]"
        fails.append((sig, {"error": str(e)[:300]}))
        if report:
            acc.fail(sig, {"base": spec}, {"error": str(e)[:300]})
        return fails
    seen = set()
    for tr in ([only] if only else transforms(spec, tier)):
        case = {"base": spec, "transform": tr}
        acc.case(case)
        try:
            got, want = apply_transform(spec, tr, cache)
        except Exception as e:  # noqa: BLE001
            sig = f"transformed problem raised {type(e).__name__} [{tr['family']}; {spec['kind']}]"
            if sig not in seen:
                seen.add(sig)
                fails.append((sig, {"error": str(e)[:300]}))
            if report:
                acc.fail(sig, case, {"error": str(e)[:300]})
            continue
        acc.outcome((spec["model"], tr["family"], round(want, 6)))
        if not close(got, want):
            sig = sig_for(spec, tr)
            if sig not in seen:
                seen.add(sig)
                fails.append((sig, {"got": got, "want": want}))
            if report:
                acc.fail(sig, case, {"got": got, "want": want, "diff": got - want})
    return fails


BIG_TREES = ["(a:0.1,(b:0.2,(c:0.05,(d:0.3,(e:0.1,f:0.2):0.1):0.05):0.2):0.1);",
             "((a:0.1,b:0.2):0.1,(c:0.05,(d:0.3,(e:0.1,f:0.2):0.1):0.05):0.2,g:0.3);"]


def check_big(spec, acc):
    """boundary sizes: clades with more than 256 (and, thorough, more than 65 536) distinct site patterns, below a node
    whose other child is a tip; relations only (children written in the opposite order, sequences and columns in the
    opposite order, the two halves of the alignment adding up), so no oracle is needed and the alignment can be long"""
    from cogent3 import get_model, make_aligned_seqs, make_tree

    if spec.get("codon"):
        return check_codon_nonstates(spec, acc)
    nwk = BIG_TREES[spec["tree"]]
    tips = make_tree(nwk).get_tip_names()
    n = len(tips)
    # columns: a stride through all of ACGT^n that visits > 256 distinct patterns of every clade of >= 5 tips
    total = 4 ** n
    ncols = spec["ncols"]
    step = 7 if total % 7 else 11
    idx = [(i * step) % total for i in range(ncols)]
    cols = ["".join("ACGT"[(k >> (2 * p)) & 3] for p in range(n)) for k in idx]

    def lnl(newick, order=None, columns=None):
        columns = cols if columns is None else columns
        names = order or tips
        data = {t: "".join(c[tips.index(t)] for c in columns) for t in names}
        lf = get_model(spec["model"]).make_likelihood_function(make_tree(newick))
        lf.set_motif_probs({"A": 0.1, "C": 0.2, "G": 0.3, "T": 0.4})  # before the alignment: not counted from the data
        lf.set_alignment(make_aligned_seqs(data, moltype="dna"))
        for p in lf.model.get_param_list():
            lf.set_param_rule(p, value=2.5, is_constant=True)
        return float(lf.lnL)

    def reverse_children(t):
        t = make_tree(t)
        for node in t.traverse(self_before=True, self_after=False):
            node.children.reverse()
        return t.get_newick(with_distances=True, with_node_names=False)

    case = {"base": {"big": True, **spec}}
    acc.case(case)
    try:
        base = lnl(nwk)
        rel = {"children of every node written in the opposite order": lnl(reverse_children(nwk)),
               "sequences given in the opposite order": lnl(nwk, order=tips[::-1]),
               "columns in the opposite order": lnl(nwk, columns=cols[::-1]),
               "the two halves of the alignment added up": lnl(nwk, columns=cols[: ncols // 2]) + lnl(nwk, columns=cols[ncols // 2:])}
    except Exception as e:  # noqa: BLE001
        acc.fail(f"long alignment raised {type(e).__name__}", case, {"error": str(e)[:300]})
        return
    acc.outcome(("big", round(base, 3)))
    for what, v in rel.items():
        if not abs(v - base) <= 1e-9 * abs(base):
            acc.fail(f"lnL of a long alignment (clades with > 256 site patterns) changes with {what} [{spec['model']}]", case, {"got": v, "want": base, "diff": v - base})
    acc.sample({"big": True, "tree": nwk, "columns": ncols, "model": spec["model"]}, "big")


def check_codon_nonstates(spec, acc):
    """word models: several different motifs that are not states of the model (an all-gap word, partly degenerate words) in
    one sequence; each keeps its own profile whatever comes first (columns reversed / rotated, halves adding up, tripling)"""
    from cogent3 import get_model, make_aligned_seqs, make_tree

    nwk = "(a:0.1,b:0.2,c:0.3);"
    words = ["ATG", "GCC", "---", "GCN", "GAR", "TTT", "NNN", "AC-", "CTG", "AAR"]
    ncol = 20
    cols = [[words[(i * k + j) % len(words)] for j, k in enumerate((1, 3, 7))] for i in range(ncol)]

    def lnl(columns):
        data = {t: "".join(c[i] for c in columns) for i, t in enumerate("abc")}
        lf = get_model(spec["model"]).make_likelihood_function(make_tree(nwk))
        lf.set_alignment(make_aligned_seqs(data, moltype="dna"))
        lf.set_motif_probs({b: 0.25 for b in "ACGT"})
        for p in lf.model.get_param_list():
            lf.set_param_rule(p, value=1.7, is_constant=True)
        return float(lf.lnL)

    case = {"base": {"big": True, **spec}}
    acc.case(case)
    try:
        base = lnl(cols)
        rel = {"columns in the opposite order": (lnl(cols[::-1]), base),
               "columns rotated": (lnl(cols[7:] + cols[:7]), base),
               "the two halves added up": (lnl(cols[: ncol // 2]) + lnl(cols[ncol // 2:]), base),
               "every column three times": (lnl([c for c in cols for _ in range(3)]), 3 * base)}
    except Exception as e:  # noqa: BLE001
        acc.fail(f"alignment with several non-state words raised {type(e).__name__} [{spec['model']}]", case, {"error": str(e)[:300]})
        return
    acc.outcome(("codon-nonstates", round(base, 3)))
    for what, (v, want) in rel.items():
        if not abs(v - want) <= 1e-9 * abs(want):
            acc.fail(f"lnL of an alignment with several kinds of non-state words changes with {what} [{spec['model']}]", case, {"got": v, "want": want})
    acc.sample({"non-state words": words, "model": spec["model"]}, "big-codon")


def shards(tier, seed):
    out = [{"big": True, "codon": True, "model": m, "tier": tier} for m in ("MG94HKY", "MG94GTR")]
    out += [{"big": True, "model": m, "tree": t, "ncols": 1500 if tier == "quick" else 20000, "tier": tier}
           for m in ("HKY85", "GN") for t in (0, 1)]
    order = F.CODON_MODELS + F.PROTEIN_MODELS + [m for m in F.MODELS if m not in F.CODON_MODELS + F.PROTEIN_MODELS]
    for name in order:
        n = len(base_problems(name, tier))
        # codon models cost 1-4 s to construct per process: fewer, larger shards for them
        group = 3 if F.MODELS[name][0] == "codon" else 1
        for i in range(0, n, group):
            out.append({"model": name, "bases": list(range(i, min(n, i + group))), "tier": tier})
    return out


def run_shard(spec, acc):
    if spec.get("big"):
        check_big(spec, acc)
        return
    problems = base_problems(spec["model"], spec["tier"])
    for i in spec["bases"]:
        base = problems[i]
        check_base(base, acc, spec["tier"])
        acc.sample({"model": base["model"], "tree": F.shape_text(D.to_tree(base["tree"])), "class": base["class"],
                    "columns": base["cols"], "n_transforms": len(transforms(base, spec["tier"]))}, base["model"][:2] + base["class"])


def replay(case):
    from vf.kernel.runner import Acc

    if case["base"].get("big"):
        acc = Acc()
        check_big({k: v for k, v in case["base"].items()}, acc)
        return [(sig, rec["cases"][0]["detail"]) for sig, rec in acc.failures.items()]
    return check_base(case["base"], Acc(), "quick", only=case.get("transform"), report=False)


LEVEL_TEXT = (
    "Bounded exhaustive exploration of the symmetry relations on the real likelihood function: for every model (all named "
    "continuous-time nucleotide, codon and protein models plus user-built predicate models), every tree shape up to the tip bound "
    "(polytomies included), equal / unequal motif probabilities and global / per-edge parameter scopes, EVERY column permutation, "
    "sequence order, combination of child orders, multiplicity vector, root placement (reversible models) and edge split is applied with "
    "independent python tree surgery and the log-likelihood of a freshly built function is compared with the original's. Complete inside "
    "the bounds; it is a relation between two runs of the implementation, so it also reaches the 61- and 20-state models in full."
)
LEVEL_NOTE = (
    "Trusted: the ~80 lines of tree surgery in this driver (validated by the agreement itself) and numpy. Tolerance 1e-10 relative. "
    "Absolute correctness of lnL is C02's subject; here only invariance is judged."
)
