"""C16 - nested-model initialisation reproduces the nested lnL; optimisation never loses likelihood;
optimised parameters stay inside their bounds.

Three exhaustively enumerated parts (K2):

(a) projection   every listed genuinely nested pair of named models (by rate-matrix structure) and every strict
                 refinement of an edge partition (by scoping) x trees x alignments x a lattice of null-model
                 parameter values that are *set*, not fitted; oracle alt.lnL == null.lnL (1e-9) right after
                 alt.initialise_from_nested(null).
(b) wrapper      cogent3.maths.optimisers.maximise driven with every piecewise-constant landscape on a small
                 grid x start cell x evaluation limit x local/global x bounds on/off, the annealer seeded through
                 its own seed argument; oracle on the recorded sequence of evaluations (best-so-far semantics).
(c) real fits    the pairs of (a) on one data set x optimiser settings x evaluation limits x seeds: lnL after >=
                 lnL before, parameters inside [lower, upper], LR >= 0 through the hypothesis app.
"""

from __future__ import annotations

import itertools
import math

import numpy

PID = "C16"
LEVEL = "exploration"
TECHNIQUE = "exhaustive enumeration of nested pairs x parameter lattice, and of synthetic objective landscapes x optimiser settings"
RULE = (
    "(a) every listed nested model pair / every strict refinement pair of edge partitions x tree x alignment x every point of "
    "the null-parameter lattice (rates, motif probabilities, lengths); non-trivial = at least one null rate parameter != 1 "
    "or a non-uniform motif probability vector. (b) every landscape in V^k (1-D) and V^(2x2) (2-D) x start cell x "
    "max_evaluations x local in {True, False, None} x bounds on/off x scalar/vector start; non-trivial = the landscape "
    "is not constant on its finite cells and the start is finite. (c) every listed pair x optimiser setting x "
    "evaluation limit x seed. Cases are distinct by construction."
)
ASSUMPTIONS = [
    "(a) 'genuinely nested' is decided from the published definitions of the models (multiplicative rate predicates): the list "
    "NESTED_PAIRS with the reason for each; the null model's parameters are set to lattice values instead of being fitted "
    "(the identity does not depend on how the values were obtained); lnL compared with absolute tolerance 1e-9",
    "(a) scoping: a parameter scoped by edge partition P is nested in the same parameter scoped by any strict refinement of P",
    "(b) the only exceptions maximise may raise are ValueError for a start that does not evaluate to a finite value and "
    "MaximumEvaluationsReached when a limit was given; the final re-evaluation of the best point is not counted as an evaluation",
    "(b) ties: either of two equally good points may be returned",
    "(c) lnL after optimisation >= lnL before - 1e-9; parameter values within [lower - 1e-9, upper + 1e-9]; LR >= -2e-9",
    "nothing is claimed between lattice points or for other seeds than the listed ones (the seed is the API's own argument)",
]
EXHAUSTIVE = True
SHARD_TIMEOUT = {"quick": 900, "thorough": 3600}
TOL = 1e-9


def bounds(tier):
    return {
        "quick": {
            "a_rate_values": [0.5, 2.0], "a_mprobs": 3, "a_trees": 2, "a_alignments": 2, "a_lengths": 2,
            "a_scoping_models": ["HKY85:kappa", "GTR:A/G", "GN:A>C"], "a_scoping_tree_edges": [3, 5],
            "a_codon_pairs": "all listed, 2 values per parameter",
            "b_cells_1d": 4, "b_values": ["0", "1", "2", "-inf", "raise"], "b_max_evaluations": list(range(1, 13)) + [None],
            "b_grid_2d": [2, 2], "b_values_2d": ["0", "1", "-inf"], "b_seeds": [1],
            "c_pairs": "nucleotide", "c_max_evaluations": [1, 2, 5, 25, None], "c_seeds": [1, 2],
        },
        "thorough": {
            "a_rate_values": [0.25, 1.0, 3.0], "a_mprobs": 4, "a_trees": 2, "a_alignments": 2, "a_lengths": 2,
            "a_scoping_models": ["HKY85:kappa", "TN93:kappa_y", "GTR:A/G", "ssGN:(A>G | T>C)", "GN:A>C"],
            "a_scoping_tree_edges": [3, 5],
            "a_codon_pairs": "all listed, 3 values per parameter",
            "b_cells_1d": 5, "b_values": ["0", "1", "2", "-inf", "raise"], "b_max_evaluations": list(range(1, 13)) + [None],
            "b_grid_2d": [2, 2], "b_values_2d": ["0", "1", "2", "-inf"], "b_seeds": [1, 2],
            "c_pairs": "nucleotide + codon", "c_max_evaluations": [1, 2, 5, 25, 100, None], "c_seeds": [1, 2, 3],
        },
    }[tier]


# ============================================================================= (a) projection
# (null, alt, alt constructor kwargs, why it is nested)
NESTED_PAIRS = [
    ("JC69", "K80", {}, "kappa = 1"),
    ("JC69", "F81", {"optimise_motif_probs": True}, "equal base frequencies"),
    ("JC69", "HKY85", {}, "kappa = 1, equal frequencies"),
    ("JC69", "TN93", {}, "kappa_y = kappa_r = 1, equal frequencies"),
    ("JC69", "GTR", {}, "all exchangeabilities 1"),
    ("JC69", "ssGN", {}, "all rates equal is strand symmetric"),
    ("JC69", "GN", {}, "all rates equal"),
    ("JC69", "GS", {}, "all rates equal"),
    ("K80", "HKY85", {"optimise_motif_probs": True}, "equal base frequencies"),
    ("K80", "TN93", {}, "kappa_y = kappa_r = kappa"),
    ("K80", "GTR", {}, "A/G = C/T = kappa, transversions 1"),
    ("K80", "ssGN", {}, "K80 with equal frequencies is strand symmetric"),
    ("K80", "GN", {}, "general"),
    ("K80", "GS", {}, "general stationary"),
    ("F81", "HKY85", {}, "kappa = 1"),
    ("F81", "TN93", {}, "kappa_y = kappa_r = 1"),
    ("F81", "GTR", {}, "all exchangeabilities 1"),
    ("F81", "GN", {}, "q_ij = pi_j"),
    ("F81", "GS", {}, "q_ij = pi_j is stationary at pi"),
    ("HKY85", "TN93", {}, "kappa_y = kappa_r = kappa"),
    ("HKY85", "GTR", {}, "A/G = C/T = kappa"),
    ("HKY85", "GN", {}, "q_ij = r_ij pi_j"),
    ("HKY85", "GS", {}, "reversible is stationary"),
    ("TN93", "GTR", {}, "A/G = kappa_r, C/T = kappa_y"),
    ("TN93", "GN", {}, "q_ij = r_ij pi_j"),
    ("TN93", "GS", {}, "reversible is stationary"),
    ("GTR", "GN", {}, "q_ij = r_ij pi_j"),
    ("GTR", "GS", {}, "reversible is stationary"),
    ("ssGN", "GN", {}, "strand symmetry is a restriction of GN"),
]
CODON_PAIRS = [
    ("MG94HKY", "MG94GTR", {}, "A/G = C/T = kappa"),
    ("CNFHKY", "CNFGTR", {}, "A/G = C/T = kappa"),
    ("GY94", "H04G", {}, "G = 1"),
    ("GY94", "H04GK", {}, "G.K = 1"),
    ("GY94", "H04GGK", {}, "G = G.K = 1"),
    ("Y98", "H04G", {}, "G = 1"),
    ("H04G", "H04GGK", {}, "G.K = 1"),
    ("H04GK", "H04GGK", {}, "G = 1"),
]
EQUAL_FREQ_MODELS = {"JC69", "K80"}

TREES = {
    3: "(a,b,c)",
    5: "(a,b,(c,d)e)",
}
LENGTHS = [
    {"a": 0.1, "b": 0.2, "c": 0.3, "d": 0.4, "e": 0.05},
    {"a": 0.0, "b": 1.5, "c": 0.01, "d": 0.7, "e": 0.25},
]
NUC_ALNS = [
    {"a": "ACGTTGCAACGGTTAC", "b": "ACGTTGCGACGATTAC", "c": "ATGTCGCAACGGTTAT", "d": "ACGCTGCAAAGGTTAC"},
    {"a": "AAACCCGGGTTTACGT", "b": "ACGTACGTACGTNCG-", "c": "TTTTGGGGCCCCAAAA", "d": "AGAGTCTC-YAGTCTC"},
]
CODON_ALN = {"a": "ATGCCGGACGGTTTA", "b": "ATGCCAGACGATTTA", "c": "ATACCGGATGGTCTA", "d": "ATGCCGAACGGTTTC"}
MPROBS = [
    None,  # whatever the model derives from the alignment / equal
    {"A": 0.1, "C": 0.2, "G": 0.3, "T": 0.4},
    {"A": 0.4, "C": 0.1, "G": 0.1, "T": 0.4},
    {"A": 0.25, "C": 0.25, "G": 0.25, "T": 0.25},
]
CYCLE = [0.5, 2.0, 3.0, 0.25, 1.5, 4.0, 0.75, 1.25, 2.5, 0.6, 1.75]

_MODELS = {}


def get_sm(name, **kw):
    key = (name, tuple(sorted(kw.items())))
    if key not in _MODELS:
        if name == "GS":
            from cogent3 import DNA
            from cogent3.evolve.ns_substitution_model import GeneralStationary

            _MODELS[key] = GeneralStationary(DNA.alphabet, recode_gaps=True)
        else:
            from cogent3 import get_model

            _MODELS[key] = get_model(name, **kw)
    return _MODELS[key]


def make_lf(model, tree_key, aln_dict, **kw):
    from cogent3 import make_aligned_seqs, make_tree

    tree = make_tree(TREES[tree_key])
    tips = tree.get_tip_names()
    aln = make_aligned_seqs({k: v for k, v in aln_dict.items() if k in tips}, moltype="dna")
    lf = get_sm(model, **kw).make_likelihood_function(tree)
    lf.set_alignment(aln)
    return lf


def TREES_TIPS(tree_key):
    from cogent3 import make_tree

    return make_tree(TREES[tree_key]).get_tip_names()


def rate_vectors(params, values):
    """the lattice of rate values for a parameter list: full product for <= 3 parameters, otherwise
    len(values)+1 cyclic vectors (stated cap: the product would be |values|^11 for GN)"""
    if len(params) <= 3:
        return [dict(zip(params, combo)) for combo in itertools.product(values, repeat=len(params))]
    out = []
    for shift in range(len(values) + 1):
        out.append({p: CYCLE[(i + shift * 3) % len(CYCLE)] for i, p in enumerate(params)})
    return out


def set_null(lf, model, rates, mprobs, lengths, scoped=None, const=False):
    if mprobs is not None and model not in EQUAL_FREQ_MODELS:
        lf.set_motif_probs(mprobs)
    for p, v in rates.items():
        if const:
            lf.set_param_rule(p, value=v, is_constant=True)  # a rate held constant in the nested model
        else:
            lf.set_param_rule(p, init=v)
    for p, blocks in (scoped or {}).items():
        for edges, v in blocks:
            lf.set_param_rule(p, edges=list(edges), init=v)
    edges = [e for e in lf.tree.get_node_names() if e != "root"]
    for e in edges:
        lf.set_param_rule("length", edge=e, init=lengths[e])


def projection_case(acc, case):
    """case: dict(null, alt, alt_kw, tree, aln, codon, rates, mprobs, lengths, null_scope, alt_scope)"""
    aln = CODON_ALN if case.get("codon") else NUC_ALNS[case["aln"]]
    rates = case["rates"]
    mp = MPROBS[case["mprobs"]]
    nontrivial = any(v != 1 for v in rates.values()) or (mp is not None and len(set(mp.values())) > 1)
    acc.case(case, nontrivial=nontrivial)
    what = f"{case['null']} -> {case['alt']}"
    cls = "model nesting" if case["null"] != case["alt"] else "scope refinement"
    if case.get("null_scope") and case["null"] != case["alt"]:
        cls = "model nesting, scoped null"
    if case.get("null_const"):
        cls += ", rates held constant in the nested model"
    if case.get("alt_time_het"):
        cls += ", time-heterogeneous alternative"
    try:
        null = make_lf(case["null"], case["tree"], aln)
        set_null(null, case["null"], rates, mp, LENGTHS[case["lengths"]], case.get("null_scope"), const=case.get("null_const", False))
        lnl0 = float(null.lnL)
    except Exception as e:  # noqa: BLE001 - cannot even build the null: not judged, but visible
        acc.count("null_not_constructible")
        acc.outcome(("null failed", type(e).__name__))
        return
    if not math.isfinite(lnl0):
        acc.count("null_lnL_not_finite")
        return
    try:
        alt = make_lf(case["alt"], case["tree"], aln, **case.get("alt_kw", {}))
        for p, blocks in (case.get("alt_scope") or {}).items():
            for edges in blocks:
                alt.set_param_rule(p, edges=list(edges))
        if case.get("alt_time_het") == "max":
            alt.set_time_heterogeneity(is_independent=True)
        elif case.get("alt_time_het"):
            alt.set_time_heterogeneity(edge_sets=[dict(edges=list(case["alt_time_het"]))], is_independent=False)
    except Exception as e:  # noqa: BLE001 - harness could not build the alternative: visible, not judged
        acc.count("alt_not_constructible")
        acc.outcome(("alt failed", type(e).__name__))
        return
    if not alt.nfp > null.nfp:
        # documented precondition of initialise_from_nested (asserted there): the alternative must have more free parameters
        acc.count("precondition_more_free_parameters_not_met")
        acc.outcome(("precondition", "nfp"))
        return
    try:
        alt.initialise_from_nested(null)
        lnl1 = float(alt.lnL)
    except Exception as e:  # noqa: BLE001
        acc.fail(f"initialise_from_nested {what}: raised {type(e).__name__} [{cls}]", case, {"error": str(e)[:300]})
        acc.outcome((what, "raised", type(e).__name__))
        return
    acc.outcome((what, round(lnl0, 6)))
    if not abs(lnl1 - lnl0) <= TOL:
        acc.fail(f"initialise_from_nested {what}: lnL differs from the nested model's [{cls}]", case,
                 {"null_lnL": lnl0, "alt_lnL": lnl1, "diff": lnl1 - lnl0})
    lnl_null_after = float(null.lnL)
    if lnl_null_after != lnl0:
        acc.fail(f"initialise_from_nested {what}: changed the nested function's lnL [{cls}]", case,
                 {"before": lnl0, "after": lnl_null_after})


def run_pairs(spec, acc):
    b = spec
    null, alt, alt_kw, _why = spec["pair"]
    params = get_sm(null).get_param_list()
    codon = spec.get("codon", False)
    trees = [3] if codon else [3, 5]
    alns = [0] if codon else list(range(b["alns"]))
    mps = [0] if (codon or null in EQUAL_FREQ_MODELS) else list(range(b["mprobs"]))
    for tree, aln, lengths, mp in itertools.product(trees, alns, range(b["lengths"]), mps):
        for k, rates in enumerate(rate_vectors(params, b["values"])):
            projection_case(acc, {"part": "pairs", "null": null, "alt": alt, "alt_kw": alt_kw, "tree": tree, "aln": aln,
                                  "codon": codon, "rates": rates, "mprobs": mp, "lengths": lengths})
            if k % 3 == 2 and not codon:
                tips = sorted(TREES_TIPS(tree))
                for th in ("max", tips[:2]):
                    projection_case(acc, {"part": "pairs", "null": null, "alt": alt, "alt_kw": alt_kw, "tree": tree, "aln": aln,
                                          "codon": codon, "rates": rates, "mprobs": mp, "lengths": lengths, "alt_time_het": th})
            if params and k % 3 == 1:
                projection_case(acc, {"part": "pairs", "null": null, "alt": alt, "alt_kw": alt_kw, "tree": tree, "aln": aln,
                                      "codon": codon, "rates": rates, "mprobs": mp, "lengths": lengths, "null_const": True})
    acc.sample({"nested pair": [null, alt], "why": _why, "null parameters set to": rate_vectors(params, b["values"])[:2]},
               "pairs")


def partitions(items):
    from vf.models.distances import set_partitions

    return [tuple(tuple(b) for b in p) for p in set_partitions(list(items))]


def refines(fine, coarse):
    """every block of fine lies inside a block of coarse, and they differ"""
    if set(fine) == set(coarse):
        return False
    return all(any(set(f) <= set(c) for c in coarse) for f in fine)


def run_scoping(spec, acc):
    """same model, parameter scoped by partition P (null) and by a strict refinement (alt)"""
    model, param = spec["model"], spec["param"]
    tree = spec["tree"]
    edges = ["a", "b", "c"] if tree == 3 else ["a", "b", "c", "d", "e"]
    parts = partitions(edges)
    others = [p for p in get_sm(model).get_param_list() if p != param]
    pairs = [(pn, pa) for pn in parts for pa in parts if refines(pa, pn)]
    for idx, (pn, pa) in enumerate(pairs):
        if idx % spec["of"] != spec["chunk"]:
            continue
        for mp in spec["mprobs"]:
            rates = {p: CYCLE[(i + 4) % len(CYCLE)] for i, p in enumerate(others)}
            rates[param] = 1.5
            null_scope = {param: [(blk, CYCLE[i % len(CYCLE)]) for i, blk in enumerate(pn)]} if len(pn) > 1 else {}
            alt_scope = {param: list(pa)}
            projection_case(acc, {"part": "scoping", "null": model, "alt": model, "alt_kw": {}, "tree": tree, "aln": 0,
                                  "rates": rates, "mprobs": mp, "lengths": 0, "null_scope": null_scope,
                                  "alt_scope": alt_scope})
    acc.sample({"model": model, "parameter": param, "edge partitions": len(parts), "strict refinement pairs": len(pairs)},
               "scoping")


def run_length_scoping(spec, acc):
    """nesting by the scope of branch lengths (the molecular-clock style test): the nested model ties the lengths of the
    edges in each block of an edge partition (is_independent=False), the richer model frees every edge"""
    model, tree = spec["model"], spec["tree"]
    edges = ["a", "b", "c"] if tree == 3 else ["a", "b", "c", "d", "e"]
    aln = NUC_ALNS[0]
    for pn in partitions(edges):
        if all(len(blk) == 1 for blk in pn):
            continue
        case = {"part": "length_scoping", "model": model, "tree": tree, "blocks": [list(b) for b in pn]}
        acc.case(case)
        try:
            null = make_lf(model, tree, aln)
            for p, v in zip(get_sm(model).get_param_list(), CYCLE):
                null.set_param_rule(p, init=v)
            for i, blk in enumerate(pn):
                null.set_param_rule("length", edges=list(blk), is_independent=False, init=0.1 + 0.15 * i)
            lnl0 = float(null.lnL)
            alt = make_lf(model, tree, aln)
        except Exception as e:  # noqa: BLE001
            acc.count("null_not_constructible")
            acc.outcome(("length scoping: not built", type(e).__name__))
            continue
        if not alt.nfp > null.nfp:
            acc.count("precondition_more_free_parameters_not_met")
            continue
        try:
            alt.initialise_from_nested(null)
            lnl1 = float(alt.lnL)
        except Exception as e:  # noqa: BLE001
            acc.fail(f"initialise_from_nested {model} (tied branch lengths -> free): raised {type(e).__name__} [branch-length scope]", case, {"error": str(e)[:300]})
            continue
        acc.outcome(("length scoping", round(lnl0, 6)))
        if not abs(lnl1 - lnl0) <= TOL:
            acc.fail(f"initialise_from_nested {model} (tied branch lengths -> free): lnL differs from the nested model's [branch-length scope]", case,
                     {"null_lnL": lnl0, "alt_lnL": lnl1, "diff": lnl1 - lnl0})
    acc.sample({"model": model, "tree_edges": tree, "nested": "lengths tied within the blocks of every edge partition", "richer": "all edges free"}, "length_scoping")


def run_scoped_null(spec, acc):
    """model nesting where the null's distinguishing parameter is scoped by every edge partition, alt unscoped"""
    null, alt, alt_kw, _why = spec["pair"]
    tree = spec["tree"]
    edges = ["a", "b", "c"] if tree == 3 else ["a", "b", "c", "d", "e"]
    params = get_sm(null).get_param_list()
    param = params[0]
    for pn in partitions(edges):
        if len(pn) == 1:
            continue
        rates = {p: CYCLE[(i + 2) % len(CYCLE)] for i, p in enumerate(params)}
        null_scope = {param: [(blk, CYCLE[(i + 5) % len(CYCLE)]) for i, blk in enumerate(pn)]}
        projection_case(acc, {"part": "scoped_null", "null": null, "alt": alt, "alt_kw": alt_kw, "tree": tree, "aln": 0,
                              "rates": rates, "mprobs": 1, "lengths": 0, "null_scope": null_scope})
    acc.sample({"nested pair": [null, alt], "null parameter scoped by every edge partition": param}, "scoped_null")


# ============================================================================= (b) optimiser wrapper
class Landscape:
    """piecewise-constant objective on the unit grid [0,k1) x [0,k2) ...; records every evaluation"""

    def __init__(self, values, shape):
        self.values, self.shape = values, shape
        self.calls = []

    def cell_value(self, x):
        idx = 0
        for xi, k in zip(x, self.shape):
            if not (xi == xi) or xi < 0 or xi > k:
                return "-inf"
            c = min(int(math.floor(xi)), k - 1)
            idx = idx * k + c
        return self.values[idx]

    def __call__(self, x):
        x = tuple(float(v) for v in numpy.atleast_1d(numpy.array(x, float)))
        v = self.cell_value(x)
        if v == "raise":
            self.calls.append((x, None))
            raise ArithmeticError("synthetic evaluation failure")
        f = float(v)
        self.calls.append((x, f))
        return f


def wrapper_case(acc, case):
    from cogent3.maths.optimisers import MaximumEvaluationsReached, maximise

    values, shape = case["values"], case["shape"]
    start = case["start"]  # cell index tuple
    scalar = case.get("scalar", False)
    land = Landscape(values, shape)
    x0 = [c + 0.5 for c in start]
    v0 = land.cell_value(x0)
    finite_cells = {v for v in values if v not in ("-inf", "raise")}
    acc.case(case, nontrivial=v0 not in ("-inf", "raise") and len(finite_cells) > 1)
    kw = {}
    if case["bounds"]:
        kw["bounds"] = (numpy.zeros(len(shape)), numpy.array(shape, float))
    if case["local"] is not True:
        kw["seed"] = case["seed"]
    xinit = x0[0] if scalar else x0
    result = exc = None
    try:
        result = maximise(land, xinit, local=case["local"], max_evaluations=case["max_evaluations"],
                          show_progress=False, return_eval_count=True, **kw)
    except MaximumEvaluationsReached as e:
        exc = ("MaximumEvaluationsReached", e.args[0] if e.args else None)
    except ValueError as e:
        exc = ("ValueError", str(e)[:80])
    except Exception as e:  # noqa: BLE001
        acc.fail(f"maximise: raised {type(e).__name__} [local={case['local']}]", case, {"error": str(e)[:300]})
        acc.outcome(("raised", type(e).__name__))
        return
    calls = land.calls
    mode = f"local={case['local']}"
    acc.count("objective_evaluations", len(calls))

    def fail(what, detail):
        acc.fail(f"maximise: {what} [{mode}]", case, dict(detail, n_calls=len(calls), last_calls=calls[-4:]))

    if v0 in ("-inf", "raise"):
        if exc is None or exc[0] != "ValueError":
            fail("accepted a start that does not evaluate to a finite value", {"got": exc or "returned"})
        acc.outcome(("bad start", exc and exc[0]))
        return
    if exc is not None and exc[0] == "ValueError":
        fail("ValueError for a finite start", {"error": exc[1]})
        return
    limit = case["max_evaluations"]
    if exc is not None and limit is None:
        fail("MaximumEvaluationsReached without a limit", {})
        return
    seen = [f for _, f in calls[:-1] if f is not None]
    best = max(seen) if seen else None
    last_x, last_f = calls[-1]
    if best is None or last_f is None or last_f != best:
        fail("the last evaluation (state left behind) is not at the best value seen", {"last": last_f, "best_seen": best})
    if last_f is not None and last_f < float(v0):
        fail("final value below the starting value", {"start": float(v0), "final": last_f})
    counted = len(calls) - 1
    if exc is not None:
        if exc[1] != limit or counted != limit:
            fail("evaluation count at forced exit differs from the limit", {"reported": exc[1], "counted": counted,
                                                                              "limit": limit})
        acc.outcome(("limit", last_f, min(counted, 13)))
    else:
        x, evals = result
        xs = tuple(float(v) for v in numpy.atleast_1d(x))
        if xs != last_x:
            fail("returned point is not the last evaluated point", {"returned": xs, "last": last_x})
        fx = land.cell_value(xs)
        if fx in ("-inf", "raise") or float(fx) != best:
            fail("returned point is not a best point seen", {"f(returned)": fx, "best_seen": best})
        if scalar != (numpy.ndim(x) == 0):
            fail("shape of the returned point differs from the start's", {"returned_ndim": int(numpy.ndim(x))})
        if evals != counted or (limit is not None and evals > limit):
            fail("reported evaluation count", {"reported": evals, "counted": counted, "limit": limit})
        acc.outcome(("returned", last_f, min(counted, 13)))
    if case["bounds"]:
        out = [c for c, _ in calls if any(v < 0 or v > k for v, k in zip(c, shape))]
        if out:
            fail("objective evaluated outside the bounds", {"point": out[0]})


LOCALS = [True, False, None]


def run_wrapper(spec, acc):
    shape = tuple(spec["shape"])
    ncell = int(numpy.prod(shape))
    alphabet = spec["alphabet"]
    starts = list(itertools.product(*[range(k) for k in shape]))
    for idx, values in enumerate(itertools.product(alphabet, repeat=ncell)):
        if idx % spec["of"] != spec["chunk"]:
            continue
        for start in starts:
            bad_start = values[sum(s * int(numpy.prod(shape[i + 1:])) for i, s in enumerate(start))] in ("-inf", "raise")
            for local in LOCALS:
                for bounds_on in (True, False):
                    for limit in ([1] if bad_start else spec["limits"]):
                        for seed in (spec["seeds"] if local is not True else [0]):
                            for scalar in ((False, True) if len(shape) == 1 and limit in (1, 5, None) else (False,)):
                                wrapper_case(acc, {"part": "wrapper", "values": list(values), "shape": list(shape),
                                                   "start": list(start), "local": local, "bounds": bounds_on,
                                                   "max_evaluations": limit, "seed": seed, "scalar": scalar})
        if idx % 97 == 5:
            acc.sample({"landscape": list(values), "grid": list(shape), "starts": "every cell",
                        "max_evaluations": spec["limits"], "local": ["True", "False", "None"]}, f"wrapper{len(shape)}d")


# ============================================================================= (c) real fits
def param_bound_problems(lf):
    probs = []
    for rule in lf.get_param_rules():
        if rule["par_name"] == "mprobs" or rule.get("is_constant"):
            continue
        v = rule.get("init")
        lo, hi = rule.get("lower"), rule.get("upper")
        if v is None:
            continue
        if (lo is not None and v < lo - TOL) or (hi is not None and v > hi + TOL) or not math.isfinite(v):
            probs.append({"par": rule["par_name"], "edges": rule.get("edges", rule.get("edge")), "value": v,
                          "lower": lo, "upper": hi})
    return probs


def fit_case(acc, case):
    """null set to lattice values, alt initialised from it, then optimised under the setting"""
    acc.case(case, nontrivial=True)
    codon = case.get("codon", False)
    aln = CODON_ALN if codon else NUC_ALNS[0]
    null_name, alt_name = case["null"], case["alt"]
    params = get_sm(null_name).get_param_list()
    rates = {p: CYCLE[i % len(CYCLE)] for i, p in enumerate(params)}
    what = f"{alt_name} from {null_name}"
    opt = {"local": case["local"], "max_evaluations": case["max_evaluations"], "limit_action": "ignore",
           "show_progress": False}
    if case["local"] is not True:
        opt["seed"] = case["seed"]
    mode = f"local={case['local']}"
    try:
        null = make_lf(null_name, case["tree"], aln)
        set_null(null, null_name, rates, None if codon else MPROBS[1], LENGTHS[0])
        alt = make_lf(alt_name, case["tree"], aln, **case.get("alt_kw", {}))
        alt.initialise_from_nested(null)
        before = float(alt.lnL)
    except Exception as e:  # noqa: BLE001 - judged by part (a)
        acc.count("fit_start_not_available")
        acc.outcome(("no start", type(e).__name__))
        return
    try:
        alt.optimise(**opt)
        after = float(alt.lnL)
    except Exception as e:  # noqa: BLE001
        acc.fail(f"optimise {mode}: raised {type(e).__name__}", case, {"error": str(e)[:300], "model": what})
        return
    acc.outcome((what, mode, case["max_evaluations"], round(after - before, 3)))
    if not after >= before - TOL:
        acc.fail(f"optimise {mode}: lnL after optimisation is lower than before", case,
                 {"before": before, "after": after, "model": what})
    probs = param_bound_problems(alt)
    if probs:
        acc.fail(f"optimise {mode}: parameter outside its declared bounds", case, {"problems": probs[:3], "model": what})
    # the same through the null itself (fitting the null must not lose either)
    try:
        b0 = float(null.lnL)
        null.optimise(**opt)
        a0 = float(null.lnL)
        if not a0 >= b0 - TOL:
            acc.fail(f"optimise {mode}: lnL after optimisation is lower than before", case,
                     {"before": b0, "after": a0, "model": null_name})
        probs = param_bound_problems(null)
        if probs:
            acc.fail(f"optimise {mode}: parameter outside its declared bounds", case,
                     {"problems": probs[:3], "model": null_name})
    except Exception as e:  # noqa: BLE001
        acc.fail(f"optimise {mode}: raised {type(e).__name__}", case, {"error": str(e)[:300], "model": null_name})


def hypothesis_case(acc, case):
    from cogent3 import get_app, make_aligned_seqs, make_tree

    acc.case(case, nontrivial=True)
    codon = case.get("codon", False)
    tree = make_tree(TREES[case["tree"]])
    src = CODON_ALN if codon else NUC_ALNS[0]
    aln = make_aligned_seqs({k: v for k, v in src.items() if k in tree.get_tip_names()}, moltype="dna")
    aln.info.source = "c16"
    opt = {"max_evaluations": case["max_evaluations"], "limit_action": "ignore"}
    if case["local"] is not True:
        opt.update(local=case["local"], seed=case["seed"])
    what = f"{case['null']} vs {case['alt']}" + (" with time-heterogeneous parameters" if case.get("alt_time_het") else "")
    try:
        null = get_app("model", case["null"], tree=tree, opt_args=dict(opt), show_progress=False)
        akw = {"optimise_motif_probs": True} if case.get("alt_kw") else {}
        if case.get("alt_time_het"):
            akw["time_het"] = case["alt_time_het"]  # the alternative is richer only through its parameter scoping
            akw["name"] = f"{case['alt']}-time-het"
        alt = get_app("model", case["alt"], tree=tree, opt_args=dict(opt), show_progress=False, **akw)
        res = get_app("hypothesis", null, alt)(aln)
        if not hasattr(res, "LR"):
            acc.fail("hypothesis app: not completed", case, {"result": str(res)[:300], "models": what})
            return
        lr = float(res.LR)
    except Exception as e:  # noqa: BLE001
        acc.fail(f"hypothesis app: raised {type(e).__name__}", case, {"error": str(e)[:300], "models": what})
        return
    acc.outcome((what, case["max_evaluations"], round(lr, 3)))
    if not lr >= -2 * TOL:
        acc.fail(f"hypothesis app {what}: negative LR [local={case['local']}]", case,
                 {"LR": lr, "null_lnL": float(res.null.lnL), "alt_lnL": float(res.alt.lnL), "models": what})
    # the result hands out its likelihood functions: after more fitting through them it reports what they hold then
    try:
        if len(res.alt) != 1:
            return
        float(res.alt.lnL)
        alf = res.alt.lf
        alf.optimise(local=True, max_evaluations=(case["max_evaluations"] or 10) + 20, limit_action="ignore", show_progress=False)
        held = float(alf.lnL)
        reported = float(res.alt.lnL)
        lr2 = float(res.LR)
        null_now = float(res.null.lf.lnL)
    except Exception as e:  # noqa: BLE001
        acc.fail(f"hypothesis result: fitting on through the function it hands out raised {type(e).__name__}", case, {"error": str(e)[:300], "models": what})
        return
    acc.outcome((what, "refit", round(held - reported, 6)))
    if not abs(held - reported) <= TOL * max(1.0, abs(held)):
        acc.fail("hypothesis result: lnL reported for the alternative is not the lnL of the function it handed out [after more fitting through .lf]", case,
                 {"reported": reported, "function": held, "models": what})
    elif not abs(lr2 - 2 * (held - null_now)) <= 4 * TOL * max(1.0, abs(held)):
        acc.fail("hypothesis result: LR is not twice the difference of the lnL the two functions hold [after more fitting through .lf]", case,
                 {"LR": lr2, "alt": held, "null": null_now, "models": what})


def run_binned(spec, acc):
    """functions with rate classes whose rates are free (a hidden partition parameter the optimiser varies): what the
    optimiser found is what the function holds afterwards"""
    import numpy

    for model, kw, nbins in (("HKY85", {"ordered_param": "rate", "distribution": "free"}, 2),
                             ("HKY85", {"ordered_param": "rate", "distribution": "free"}, 3),
                             ("HKY85", {"ordered_param": "kappa", "distribution": "free"}, 2),
                             ("F81", {"ordered_param": "rate", "distribution": "gamma"}, 4)):
        for limit in spec["limits"]:
            case = {"part": "binned", "model": model, "kw": kw, "bins": nbins, "max_evaluations": limit}
            acc.case(case, nontrivial=True)
            what = f"{model} with {nbins} rate classes ({kw['distribution']}, ordered by {kw['ordered_param']})"
            try:
                from cogent3 import get_model, make_aligned_seqs, make_tree

                tree = make_tree(TREES[3])
                aln = make_aligned_seqs({k: v for k, v in NUC_ALNS[0].items() if k in tree.get_tip_names()}, moltype="dna")
                lf = get_model(model, **kw).make_likelihood_function(tree, bins=nbins)
                lf.set_alignment(aln)
                before = float(lf.lnL)
                # an explicit calculator round trip
                calc = lf.make_calculator()
                x = numpy.array(calc.get_value_array(), float)
                lo, up = (numpy.array(v, float) for v in calc.get_bounds_vectors())
                step = 0.03 * (1 + numpy.arange(len(x)))
                x2 = numpy.where(x + step <= up, x + step, numpy.where(x - step >= lo, x - step, x))
                want = float(calc(x2))
                lf.update_from_calculator(calc)
                got = float(lf.lnL)
                if not abs(got - want) <= TOL * max(1.0, abs(want)):
                    acc.fail("update_from_calculator: lnL of the function differs from the value the calculator reported [rate classes]", case,
                             {"function": got, "calculator": want, "model": what})
                start = float(lf.lnL)
                opt = {"local": True, "max_evaluations": limit, "limit_action": "ignore", "show_progress": False}
                lf.optimise(**opt)
                after = float(lf.lnL)
            except Exception as e:  # noqa: BLE001
                acc.fail(f"function with rate classes: raised {type(e).__name__}", case, {"error": str(e)[:300], "model": what})
                continue
            acc.outcome((what, limit, round(after - start, 3)))
            if not after >= start - TOL:
                acc.fail("optimise local=True: lnL after optimisation is lower than before [rate classes]", case, {"before": start, "after": after, "model": what})
    acc.sample({"binned": True}, "binned")


def run_fits(spec, acc):
    null, alt, alt_kw, _why = spec["pair"]
    for local in (True, None):
        for limit in spec["limits"]:
            for seed in (spec["seeds"] if local is None else [0]):
                case = {"part": "fit", "null": null, "alt": alt, "alt_kw": alt_kw, "tree": spec["tree"],
                        "codon": spec.get("codon", False), "local": local, "max_evaluations": limit, "seed": seed}
                if local is None and limit is None and not spec.get("global_unlimited", False):
                    continue
                fit_case(acc, case)
                if limit is not None or local is True:
                    hypothesis_case(acc, dict(case, part="hypothesis"))
    if get_sm(null).get_param_list() and not spec.get("codon", False):
        # nesting by scope through the app: the same substitution model, the alternative with every rate free on every edge
        for limit in [x for x in spec["limits"] if x is not None]:
            hypothesis_case(acc, {"part": "hypothesis", "null": null, "alt": null, "alt_kw": {}, "alt_time_het": "max", "tree": spec["tree"],
                                  "codon": False, "local": True, "max_evaluations": limit, "seed": 0})
    acc.sample({"pair": [null, alt], "settings": "local / global+local x max_evaluations x seeds"}, "fit")


# ============================================================================= shards
def shards(tier, seed):
    b = bounds(tier)
    out = []
    common = {"values": b["a_rate_values"], "mprobs": b["a_mprobs"], "alns": b["a_alignments"], "lengths": b["a_lengths"]}
    for pair in NESTED_PAIRS:
        out.append(dict(part="pairs", pair=list(pair), **common))
    for pair in CODON_PAIRS:
        out.append(dict(part="pairs", pair=list(pair), codon=True, **common))
    for mp in b["a_scoping_models"]:
        model, param = mp.split(":")
        for tree in b["a_scoping_tree_edges"]:
            of = 1 if tree == 3 else 12
            for c in range(of):
                out.append({"part": "scoping", "model": model, "param": param, "tree": tree, "chunk": c, "of": of,
                            "mprobs": [1] if tier == "quick" else [1, 2]})
    for pair in NESTED_PAIRS:
        if get_param_count(pair[0]) and pair[1] != "GS":
            for tree in (3, 5):
                out.append({"part": "scoped_null", "pair": list(pair), "tree": tree})
    for model in ("HKY85", "GTR"):
        for tree in (3, 5):
            out.append({"part": "length_scoping", "model": model, "tree": tree})
    k = b["b_cells_1d"]
    n_land = len(b["b_values"]) ** k
    of = max(1, n_land // 12)
    for c in range(of):
        out.append({"part": "wrapper", "shape": [k], "alphabet": b["b_values"], "limits": b["b_max_evaluations"],
                    "seeds": b["b_seeds"], "chunk": c, "of": of})
    n_land = len(b["b_values_2d"]) ** 4
    of = max(1, n_land // 6)
    for c in range(of):
        out.append({"part": "wrapper", "shape": b["b_grid_2d"], "alphabet": b["b_values_2d"],
                    "limits": b["b_max_evaluations"], "seeds": b["b_seeds"], "chunk": c, "of": of})
    for pair in NESTED_PAIRS:
        if pair[1] == "GS":
            continue
        out.append({"part": "fits", "pair": list(pair), "tree": 3, "limits": b["c_max_evaluations"], "seeds": b["c_seeds"],
                    "global_unlimited": tier == "thorough"})
    if tier == "thorough":
        for pair in CODON_PAIRS:
            out.append({"part": "fits", "pair": list(pair), "tree": 3, "codon": True, "limits": [1, 5, 25],
                        "seeds": b["c_seeds"][:1]})
    out.append({"part": "binned", "limits": [x for x in b["c_max_evaluations"] if x is not None]})
    return out


_PARAM_COUNT = {"JC69": 0, "F81": 0, "K80": 1, "HKY85": 1, "TN93": 2, "GTR": 5, "ssGN": 5, "GN": 11}


def get_param_count(model):
    return _PARAM_COUNT[model]


def run_shard(spec, acc):
    {"pairs": run_pairs, "scoping": run_scoping, "scoped_null": run_scoped_null, "length_scoping": run_length_scoping, "wrapper": run_wrapper,
     "fits": run_fits, "binned": run_binned}[spec["part"]](spec, acc)


def replay(case):
    from vf.kernel.runner import Acc

    acc = Acc()
    part = case["part"]
    if part in ("pairs", "scoping", "scoped_null"):
        for key in ("null_scope",):
            if case.get(key):
                case[key] = {p: [(tuple(e), v) for e, v in blocks] for p, blocks in case[key].items()}
        projection_case(acc, case)
    elif part == "length_scoping":
        run_length_scoping({"model": case["model"], "tree": case["tree"]}, acc)
    elif part == "wrapper":
        wrapper_case(acc, case)
    elif part == "fit":
        fit_case(acc, case)
    elif part == "hypothesis":
        hypothesis_case(acc, case)
    elif part == "binned":
        run_binned({"limits": [case["max_evaluations"]]}, acc)
    return [(sig, rec["cases"][0]["detail"]) for sig, rec in acc.failures.items()]


LEVEL_TEXT = (
    "Bounded exhaustive exploration: (a) every listed nested pair of named models and every strict refinement of an edge "
    "partition, on a lattice of null-model parameter values that are set rather than fitted, checks lnL(alt after "
    "initialise_from_nested) == lnL(null) on the real likelihood functions; (b) the optimiser wrapper is run on every "
    "piecewise-constant landscape of a small grid from every start under every evaluation limit, local / global / both, with and "
    "without bounds, and judged on the complete recorded sequence of objective evaluations, which decides the best-so-far logic "
    "for every ordering of better / equal / worse / invalid points the grid can produce; (c) real fits of the same pairs under "
    "the listed settings check monotonicity, bounds and LR >= 0 end to end."
)
LEVEL_NOTE = (
    "Trusted: the hand-made list of nested pairs (reasons recorded), float comparison at 1e-9. (b) decides the wrapper logic "
    "(limited_use / get_best / bounds handling), not the search quality of Powell or the annealer; (c) covers only the listed "
    "data set, settings and seeds. Nothing is claimed between lattice points."
)
