"""C08 - gapped-coordinate maps agree with the gapped string they describe.

K2: exhaustive enumeration of every gap layout (every string over {residue, '-'})
up to a length bound, every slice interval, every index, every ordered pair for the
binary operations; FeatureMap algebra on every list of <= k spans over a small parent.
Oracle = the string itself (python str operations and column/residue tables built by
scanning it) and python sets of positions.
"""

from __future__ import annotations

import itertools

import numpy

PID = "C08"
LEVEL = "exploration"
TECHNIQUE = "exhaustive bounded enumeration of gap layouts / intervals / pairs against a string oracle"
RULE = (
    "every string over {residue,'-'} up to the length bound x every slice (a,b) with a,b in "
    "[-len-2,len+2] or None x every index x every ordered pair (binary ops) x every <=k-span FeatureMap; "
    "each (object, operation, argument) is enumerated once (distinct by construction); non-trivial = the "
    "gapped string(s) involved contain at least one gap and one residue (feature maps: >= 2 spans, >= 1 not lost)"
)
ASSUMPTIONS = [
    "python str slicing/concatenation is the reference semantics",
    "binary gap operations are only judged inside their documented preconditions (equal aligned length / same sequence)",
    "slice bounds outside [-len,len] are judged only by 'raises IndexError or equals the clamped python slice'",
]
EXHAUSTIVE = True


def bounds(tier):
    return {
        "quick": {"indel_len": 7, "pair_len": 5, "join_len": 6, "fmap_parent": 5, "fmap_spans": 2},
        "thorough": {"indel_len": 10, "pair_len": 7, "join_len": 8, "fmap_parent": 6, "fmap_spans": 3},
    }[tier]


# ----------------------------------------------------------------------------- string oracle
RES = "ACDEFGHIKLMNPQRSTVWY"


def mask_strings(n):
    """all strings of length n over {residue,-} with position-distinct residues"""
    for bits in itertools.product((0, 1), repeat=n):
        yield "".join("-" if b else RES[i] for i, b in enumerate(bits))


def gap_runs(s):
    """[(seq_pos, length)] of maximal gap runs, [(align_start, align_end)]"""
    seqpos, out, aln = 0, [], []
    i = 0
    while i < len(s):
        if s[i] == "-":
            j = i
            while j < len(s) and s[j] == "-":
                j += 1
            out.append([seqpos, j - i])
            aln.append([i, j])
            i = j
        else:
            seqpos += 1
            i += 1
    return out, aln


def nongap_runs(s):
    out = []
    i = 0
    while i < len(s):
        if s[i] != "-":
            j = i
            while j < len(s) and s[j] != "-":
                j += 1
            out.append((i, j))
            i = j
        else:
            i += 1
    return out


def residues_before(s):
    """table t[i] = number of residues in s[:i], i in 0..len"""
    t = [0]
    for c in s:
        t.append(t[-1] + (c != "-"))
    return t


def columns_of_residues(s):
    return [i for i, c in enumerate(s) if c != "-"]


def degap(s):
    return s.replace("-", "")


# ----------------------------------------------------------------------------- implementation access
def build_map(s):
    """the map of a gapped string, built from its (insertion point, run length) list"""
    from cogent3.core.location import gap_coords_to_map

    runs, _ = gap_runs(s)
    return gap_coords_to_map({p: l for p, l in runs}, len(degap(s)))


def render(m):
    """mask string implied by the map's gap arrays (gap runs at equal positions merge)"""
    pl = int(m.parent_length)
    lengths = m.get_gap_lengths().tolist()
    pos = m.gap_pos.tolist()
    at = {}
    for p, l in zip(pos, lengths):
        at[p] = at.get(p, 0) + l
    out = []
    for i in range(pl + 1):
        out.append("-" * at.get(i, 0))
        if i < pl:
            out.append("x")
    return "".join(out)


def mask(s):
    return "".join("-" if c == "-" else "x" for c in s)


def map_problems(m, expected, deep=True):
    """compare IndelMap m with the map of string `expected`; returns list of (observable, got, want)"""
    probs = []
    pl = len(degap(expected))
    try:
        if int(m.parent_length) != pl:
            probs.append(("parent_length", int(m.parent_length), pl))
        if len(m) != len(expected):
            probs.append(("len", len(m), len(expected)))
        pos = m.gap_pos.tolist()
        if pos and (min(pos) < 0 or max(pos) > int(m.parent_length)):
            probs.append(("gap_pos outside parent", pos, pl))
        lens = m.get_gap_lengths().tolist()
        if any(l <= 0 for l in lens):
            probs.append(("non-positive gap length", lens, None))
        r = render(m)
        if r != mask(expected):
            probs.append(("gap layout", r, mask(expected)))
        if probs or not deep:
            return probs
        want_runs, want_aln = gap_runs(expected)
        norm = len(set(pos)) == len(pos)
        if norm:
            got = m.get_gap_coordinates()
            if got != want_runs:
                probs.append(("get_gap_coordinates", got, want_runs))
            got = m.get_gap_align_coordinates().tolist()
            if got != want_aln:
                probs.append(("get_gap_align_coordinates", got, want_aln))
            got = [(int(sp.start), int(sp.end)) for sp in m.nongap()]
            want = nongap_runs(expected)
            if m.num_gaps == 0:
                want = []  # documented: nongap() yields nothing when there are no gaps
            if got != want:
                probs.append(("nongap", got, want))
        tb = residues_before(expected)
        for i in range(len(expected) + 1):
            g = m.get_seq_index(i)
            if g != tb[i]:
                probs.append(("get_seq_index", [i, g], tb[i]))
                break
        cols = columns_of_residues(expected)
        for j, c in enumerate(cols):
            g = m.get_align_index(j)
            if g != c:
                probs.append(("get_align_index", [j, g], c))
                break
    except Exception as e:  # noqa: BLE001
        probs.append(("exception while observing", f"{type(e).__name__}: {e}", None))
    return probs


def report(acc, op, s, arg, probs, cls=None):
    """turn a list of problems into a failure keyed by operation + first diverging observable"""
    if probs:
        obs = probs[0][0]
        sig = f"IndelMap.{op}: {obs}" + (f" [{cls}]" if cls else "")
        acc.fail(sig, {"kind": "indel", "op": op, "s": s, "arg": arg}, {"problems": probs[:4]})
    acc.outcome((op, bool(probs)))


def py_slice_bounds(L):
    vals = [None] + list(range(-(L + 2), L + 3))
    return vals


def slice_class(s, a, b):
    """structural class of a slice for signatures"""
    L = len(s)
    if (a is not None and not -L <= a <= L) or (b is not None and not -L <= b <= L):
        return "bound outside [-len,len]"
    return "in-range"


# ----------------------------------------------------------------------------- per-string checks
class _Proxy:
    """forwards to the accumulator, marking cases as non-trivial per the driver's rule"""

    def __init__(self, acc, nontrivial):
        self._acc, self._nt = acc, nontrivial

    def case(self, case=None):
        self._acc.case(case, nontrivial=self._nt)

    def __getattr__(self, name):
        return getattr(self._acc, name)


def _nt(*strings):
    return all("-" in s and degap(s) for s in strings)


def check_string(s, acc, deep_slices=True):
    acc = _Proxy(acc, _nt(s))
    from cogent3 import make_seq
    from cogent3.core.location import IndelMap, gap_coords_to_map

    L = len(s)
    m = build_map(s)
    acc.case(("construct", s))
    report(acc, "gap_coords_to_map", s, None, map_problems(m, s))
    if degap(s):
        # an empty segment list is ambiguous (no residues vs. no gaps): only judged with >= 1 residue
        acc.case(("from_aligned_segments", s))
        report(acc, "from_aligned_segments", s, None,
               map_problems(IndelMap.from_aligned_segments(nongap_runs(s), L), s))

    # alternative constructors must give the same map
    if s:
        m2, seq = make_seq(s, moltype="text").parse_out_gaps()
        acc.case(("parse_out_gaps", s))
        probs = map_problems(m2, s)
        if str(seq) != degap(s):
            probs.append(("ungapped seq", str(seq), degap(s)))
        report(acc, "parse_out_gaps", s, None, probs)
    runs, _ = gap_runs(s)

    # spans / to_feature_map: alternating segments
    acc.case(("spans", s))
    want = []
    sp = 0
    i = 0
    while i < L:
        j = i
        if s[i] == "-":
            while j < L and s[j] == "-":
                j += 1
            want.append(["lost", j - i])
        else:
            while j < L and s[j] != "-":
                j += 1
            want.append(["span", sp, sp + j - i])
            sp += j - i
        i = j
    got = [["lost", len(x)] if x.lost else ["span", int(x.start), int(x.end)] for x in m.spans]
    if not L:
        got = [g for g in got if g != ["span", 0, 0]]
    probs = [("spans", got, want)] if got != want else []
    fm = m.to_feature_map()
    if len(fm) != L:
        probs.append(("to_feature_map len", len(fm), L))
    report(acc, "spans", s, None, probs)

    # get_coordinates: sequence coordinates of the ungapped segments (between gap insertion points)
    acc.case(("get_coordinates", s))
    cuts = sorted({p for p, _ in runs if 0 < p < len(degap(s))})
    edges = [0] + cuts + [len(degap(s))]
    want = [(a, b) for a, b in zip(edges[:-1], edges[1:])]
    got = [(int(a), int(b)) for a, b in m.get_coordinates()]
    cls = None
    if got != want:
        if [g for g in got if g[0] != g[1]] == want:
            cls = "extra empty segment"
        elif set(got) < set(want):
            cls = "missing segment"
        else:
            cls = "other"
    report(acc, "get_coordinates", s, None, [("segments", got, want)] if got != want else [], cls)

    # index conversions incl. negative indices and slice_stop
    tb = residues_before(s)
    cols = columns_of_residues(s)
    pl = len(cols)
    for i in range(-L, L + 1):
        acc.case(("get_seq_index", s, i))
        ii = i if i >= 0 else L + i
        try:
            g = m.get_seq_index(i)
        except Exception as e:  # noqa: BLE001
            g = type(e).__name__
        if g != tb[ii]:
            report(acc, "get_seq_index", s, i, [("value", g, tb[ii])], "negative index" if i < 0 else None)
    for j in range(-pl, pl + 1):
        for stop in (False, True):
            if j == pl and not stop:
                continue
            acc.case(("get_align_index", s, j, stop))
            jj = j if j >= 0 else pl + j
            if stop:
                want = cols[jj - 1] + 1 if jj > 0 else 0
                # a stop index that is not a gap insertion point is simply the residue's column
                if jj < pl and not any(p == jj for p, _ in runs):
                    want = cols[jj]
            else:
                want = cols[jj]
            try:
                g = m.get_align_index(j, slice_stop=stop)
            except Exception as e:  # noqa: BLE001
                g = type(e).__name__
            if g != want:
                report(acc, "get_align_index", s, [j, stop], [("value", g, want)],
                       f"slice_stop={stop}" + (", j=parent_length" if j == pl else ""))

    # every slice
    if deep_slices:
        vals = py_slice_bounds(L)
        for a in vals:
            for b in vals:
                acc.case(("slice", s, a, b))
                cls = slice_class(s, a, b)
                expected = s[a:b]
                try:
                    r = m[a:b]
                except IndexError:
                    if cls == "in-range":
                        report(acc, "__getitem__", s, [a, b], [("raised IndexError", None, expected)], cls)
                    else:
                        acc.outcome(("slice", "IndexError"))
                    continue
                except Exception as e:  # noqa: BLE001
                    report(acc, "__getitem__", s, [a, b], [(f"raised {type(e).__name__}", str(e), expected)], cls)
                    continue
                probs = map_problems(r, expected, deep=(cls == "in-range"))
                report(acc, "__getitem__", s, [a, b], probs, cls)
        for i in range(-L, L):
            acc.case(("int", s, i))
            expected = s[i]
            try:
                r = m[i]
                probs = map_problems(r, expected, deep=False)
            except Exception as e:  # noqa: BLE001
                probs = [(f"raised {type(e).__name__}", str(e), expected)]
            report(acc, "__getitem__(int)", s, i, probs, "negative index" if i < 0 else None)

    # unary transforms
    for k in (1, 2, 3):
        acc.case(("mul", s, k))
        expected = "".join(c * k for c in s)
        report(acc, "__mul__", s, k, map_problems(m * k, expected))
    acc.case(("nucleic_reversed", s))
    report(acc, "nucleic_reversed", s, None, map_problems(m.nucleic_reversed(), s[::-1]))
    acc.case(("with_termini_unknown", s))
    report(acc, "with_termini_unknown", s, None, map_problems(m.with_termini_unknown(), s))
    acc.case(("rich_dict", s))
    report(acc, "from_rich_dict(to_rich_dict)", s, None, map_problems(IndelMap.from_rich_dict(m.to_rich_dict()), s))

    # alignment-coordinate feature map -> sequence coordinates
    from cogent3.core.location import FeatureMap

    for a in range(L + 1):
        for b in range(a + 1, L + 1):
            acc.case(("make_seq_feature_map", s, a, b))
            fm = FeatureMap.from_locations(locations=[(a, b)], parent_length=L)
            try:
                r = m.make_seq_feature_map(fm)
                got = [(int(x.start), int(x.end)) for x in r.spans if not x.lost]
                want = [(tb[a], tb[b])]
                probs = [("coords", got, want)] if got != want else []
                if int(r.parent_length) != pl:
                    probs.append(("parent_length", int(r.parent_length), pl))
            except Exception as e:  # noqa: BLE001
                probs = [(f"raised {type(e).__name__}", str(e), None)]
            report(acc, "make_seq_feature_map", s, [a, b], probs)
    acc.sample({"string": s, "ops": "construct x3, spans, indices, all slices, mul, reverse, feature-map projection"}, f"indel{L}")


def check_joined(s, acc):
    acc = _Proxy(acc, _nt(s))
    L = len(s)
    m = build_map(s)
    ivals = [(a, b) for a in range(L + 1) for b in range(a, L + 1)]
    for x in ivals:
        acc.case(("joined1", s, x))
        report(acc, "joined_segments", s, [x], _join(m, [x], s))
    for x in ivals:
        for y in ivals:
            if x[1] <= y[0] and x != y:
                acc.case(("joined2", s, x, y))
                report(acc, "joined_segments", s, [x, y], _join(m, [x, y], s))


def _join(m, coords, s):
    expected = "".join(s[a:b] for a, b in coords)
    try:
        r = m.joined_segments(coords)
    except Exception as e:  # noqa: BLE001
        return [(f"raised {type(e).__name__}", str(e), expected)]
    return map_problems(r, expected)


def check_pair(s1, s2, acc):
    """binary operations on an ordered pair"""
    acc = _Proxy(acc, _nt(s1, s2))
    m1, m2 = build_map(s1), build_map(s2)
    # concatenation: any pair
    acc.case(("add", s1, s2))
    try:
        probs = map_problems(m1 + m2, s1 + s2)
    except Exception as e:  # noqa: BLE001
        probs = [(f"raised {type(e).__name__}", str(e), s1 + s2)]
    cls = "gap run spans the junction" if s1.endswith("-") and s2.startswith("-") else None
    report(acc, "__add__", s1, s2, probs, cls)

    if len(s1) == len(s2):
        both = [i for i in range(len(s1)) if s1[i] == "-" and s2[i] == "-"]
        acc.case(("shared_gaps", s1, s2))
        try:
            r = m1.shared_gaps(m2)
            ivals = [tuple(int(v) for v in x) for x in numpy.asarray(r).reshape(-1, 2).tolist()]
            colset = [c for a, b in ivals for c in range(a, b)]
            probs = []
            if sorted(colset) != both or len(set(colset)) != len(colset):
                probs.append(("shared columns", ivals, both))
            if any(a >= b for a, b in ivals) or ivals != sorted(ivals):
                probs.append(("interval order", ivals, None))
        except Exception as e:  # noqa: BLE001
            probs = [(f"raised {type(e).__name__}", str(e), both)]
        report(acc, "shared_gaps", s1, s2, probs)

        acc.case(("minus_gaps", s1, s2))
        expected = "".join(c for i, c in enumerate(s1) if i not in set(both))
        try:
            probs = map_problems(m1.minus_gaps(m2), expected)
        except Exception as e:  # noqa: BLE001
            probs = [(f"raised {type(e).__name__}", str(e), expected)]
        report(acc, "minus_gaps", s1, s2, probs)

    if len(degap(s1)) == len(degap(s2)):
        # same underlying sequence: merged gaps = sum of gap lengths per insertion point
        acc.case(("merge_maps", s1, s2))
        r1, _ = gap_runs(s1)
        r2, _ = gap_runs(s2)
        at = {}
        for p, l in r1 + r2:
            at[p] = at.get(p, 0) + l
        pl = len(degap(s1))
        expected = "".join("-" * at.get(i, 0) + (RES[i] if i < pl else "") for i in range(pl + 1))
        try:
            probs = map_problems(m1.merge_maps(m2), expected)
        except Exception as e:  # noqa: BLE001
            probs = [(f"raised {type(e).__name__}", str(e), expected)]
        report(acc, "merge_maps", s1, s2, probs)


# ----------------------------------------------------------------------------- FeatureMap algebra
def all_spans(P):
    """('s', a, b, rev) spans and ('l', k) lost spans over a parent of length P"""
    out = []
    for a in range(P):
        for b in range(a + 1, P + 1):
            out.append(("s", a, b, False))
            out.append(("s", a, b, True))
    out.append(("l", 1))
    out.append(("l", 2))
    return out


def make_fmap(desc, P):
    from cogent3.core.location import FeatureMap, LostSpan, Span

    spans = []
    for d in desc:
        if d[0] == "s":
            spans.append(Span(d[1], d[2], reverse=d[3]))
        else:
            spans.append(LostSpan(d[1]))
    return FeatureMap(spans=spans, parent_length=P)


def table_of_desc(desc):
    """the function a map denotes: list of parent positions (or None), one per map position"""
    t = []
    for d in desc:
        if d[0] == "s":
            r = list(range(d[1], d[2]))
            t.extend(r[::-1] if d[3] else r)
        else:
            t.extend([None] * d[1])
    return t


def table_of_map(fm):
    t = []
    for sp in fm.spans:
        if sp.lost:
            t.extend([None] * len(sp))
        else:
            r = list(range(int(sp.start), int(sp.end)))
            t.extend(r[::-1] if sp.reverse else r)
    return t


def fm_fail(acc, op, desc, P, arg, what, got, want):
    acc.fail(f"FeatureMap.{op}: {what}", {"kind": "fmap", "op": op, "desc": desc, "P": P, "arg": arg},
             {"got": got, "want": want})


def check_fmap(desc, P, acc):
    desc = [list(d) for d in desc]
    fm = make_fmap(desc, P)
    t = table_of_desc(desc)
    covered = sorted({p for p in t if p is not None})
    nonlost = [d for d in desc if d[0] == "s"]
    overlapping = len([p for p in t if p is not None]) != len(covered)

    nt = bool(nonlost) and len(desc) > 1

    def obs(op, arg, fn):
        acc.case((op, desc, P, arg), nontrivial=nt)
        try:
            res = fn()
        except Exception as e:  # noqa: BLE001
            res = ("raised", type(e).__name__, str(e)[:80])
        acc.outcome((op, repr(res)[:60]))
        return res

    def in_parent(op, arg, m):
        for sp in m.spans:
            if not sp.lost and not (0 <= sp.start <= sp.end <= m.parent_length):
                fm_fail(acc, op, desc, P, arg, "coordinates outside parent", [int(sp.start), int(sp.end)], int(m.parent_length))
                return False
        return True

    def expect(op, arg, res, want_table=None, want_set=None, want_parent=None):
        if isinstance(res, tuple) and res and res[0] == "raised":
            fm_fail(acc, op, desc, P, arg, f"raised {res[1]}", res[2], want_table if want_table is not None else want_set)
            return
        if not in_parent(op, arg, res):
            return
        if want_parent is not None and int(res.parent_length) != want_parent:
            fm_fail(acc, op, desc, P, arg, "parent_length", int(res.parent_length), want_parent)
        gt = table_of_map(res)
        if len(res) != len(gt):
            fm_fail(acc, op, desc, P, arg, "len != sum of span lengths", len(res), len(gt))
        if want_table is not None and gt != want_table:
            fm_fail(acc, op, desc, P, arg, "positions", gt, want_table)
        if want_set is not None:
            gs = [p for p in gt if p is not None]
            if sorted(gs) != want_set or len(set(gs)) != len(gs):
                fm_fail(acc, op, desc, P, arg, "position set", gs, want_set)

    # the map itself
    r = obs("table", None, lambda: fm)
    expect("construct", None, r, want_table=t, want_parent=P)

    r = obs("covered", None, fm.covered)
    if nonlost:
        expect("covered", None, r, want_set=covered, want_parent=P)
        if not isinstance(r, tuple):
            gt = table_of_map(r)
            if gt != covered:
                fm_fail(acc, "covered", desc, P, None, "not sorted/merged", gt, covered)

    if nonlost:
        r = obs("get_covering_span", None, fm.get_covering_span)
        lo = min(d[1] for d in nonlost)
        hi = max(d[2] for d in nonlost)
        expect("get_covering_span", None, r, want_table=list(range(lo, hi)), want_parent=P)

    r = obs("gaps", None, fm.gaps)
    expect("gaps", None, r, want_set=[i for i, p in enumerate(t) if p is None], want_parent=len(t))

    r = obs("nongap", None, lambda: list(fm.nongap()))
    if isinstance(r, tuple):
        fm_fail(acc, "nongap", desc, P, None, f"raised {r[1]}", r[2], None)
    else:
        got = [i for sp in r for i in range(int(sp.start), int(sp.end))]
        want = [i for i, p in enumerate(t) if p is not None]
        if got != want:
            fm_fail(acc, "nongap", desc, P, None, "position set", got, want)

    r = obs("without_gaps", None, fm.without_gaps)
    expect("without_gaps", None, r, want_table=[p for p in t if p is not None], want_parent=P)

    # reversal: position p of the parent becomes P-1-p, order of the map reversed
    r = obs("nucleic_reversed", None, fm.nucleic_reversed)
    if not any(d[0] == "s" and d[3] for d in desc):  # documented: discards the reverse attribute
        expect("nucleic_reversed", None, r, want_table=[None if p is None else P - 1 - p for p in t][::-1]
               if False else _rev_table(desc, P), want_parent=P)

    if not overlapping:
        r = obs("inverse", None, fm.inverse)
        inv = [None] * P
        for i, p in enumerate(t):
            if p is not None:
                inv[p] = i
        expect("inverse", None, r, want_table=inv, want_parent=len(t))
        r = obs("shadow", None, fm.shadow)
        expect("shadow", None, r, want_set=[p for p in range(P) if p not in set(covered)], want_parent=P)
        if not isinstance(r, tuple) and nonlost:
            r2 = obs("inverse.inverse", None, lambda: fm.inverse().inverse())
            # tidy ends (lost spans at the termini) do not survive inversion (documented)
            core = list(t)
            while core and core[0] is None:
                core.pop(0)
            while core and core[-1] is None:
                core.pop()
            if not isinstance(r2, tuple):
                gt = table_of_map(r2)
                while gt and gt[0] is None:
                    gt.pop(0)
                while gt and gt[-1] is None:
                    gt.pop()
                if gt != core:
                    fm_fail(acc, "inverse.inverse", desc, P, None, "positions", gt, core)
    else:
        r = obs("inverse(overlap)", None, fm.inverse)
        if not isinstance(r, tuple):
            in_parent("inverse", None, r)

    # composition with every slice and with every single-span map over len(fm)
    n = len(t)
    for a in range(n + 1):
        for b in range(a, n + 1):
            r = obs("getitem", [a, b], lambda a=a, b=b: fm[a:b])
            expect("__getitem__(slice)", [a, b], r, want_table=t[a:b], want_parent=P)
    # an integer index: one position; the length itself and beyond is outside, as for any python sequence
    for i in range(n):
        r = obs("getitem", i, lambda i=i: fm[i])
        expect("__getitem__(int)", i, r, want_table=[t[i]], want_parent=P)
    for i in (n, n + 1):
        acc.case(("fmap int outside", tuple(map(tuple, desc)) if isinstance(desc, list) else desc, P, i))
        try:
            r = fm[i]
            fm_fail(acc, "__getitem__(int)", desc, P, i, "no IndexError for an index equal to or beyond the length", str(r)[:80], "IndexError")
        except IndexError:
            pass
        except Exception as e:  # noqa: BLE001
            fm_fail(acc, "__getitem__(int)", desc, P, i, f"raised {type(e).__name__} for an index equal to or beyond the length", str(e)[:80], "IndexError")
    acc.sample({"featuremap": desc, "parent_length": P}, f"fmap{len(desc)}")


def _rev_table(desc, P):
    t = table_of_desc(desc)
    return [None if p is None else P - 1 - p for p in t][::-1]


def check_fmap_compose(d1, d2, P, acc):
    """fm1[fm2] where fm2 lives on len(fm1)"""
    fm1 = make_fmap(d1, P)
    t1 = table_of_desc(d1)
    fm2 = make_fmap(d2, len(t1))
    t2 = table_of_desc(d2)
    acc.case(("compose", d1, d2, P))
    want = [None if i is None else t1[i] for i in t2]
    try:
        r = fm1[fm2]
        got = table_of_map(r)
        if got != want:
            fm_fail(acc, "__getitem__(map)", [list(x) for x in d1], P, [list(x) for x in d2], "positions", got, want)
        if int(r.parent_length) != P:
            fm_fail(acc, "__getitem__(map)", [list(x) for x in d1], P, [list(x) for x in d2], "parent_length", int(r.parent_length), P)
    except Exception as e:  # noqa: BLE001
        fm_fail(acc, "__getitem__(map)", [list(x) for x in d1], P, [list(x) for x in d2], f"raised {type(e).__name__}", str(e)[:100], want)


# ----------------------------------------------------------------------------- shards
def check_locations(P, acc):
    """maps built from (start, end) locations, including locations that reach beyond the end of the parent: the part
    inside the parent is kept, the overhang is lost, and nothing points outside the parent"""
    from cogent3.core.location import FeatureMap, IndelMap

    singles = [(a, b) for a in range(P + 1) for b in range(a, P + 3)]
    pairs = [(x, y) for x in singles for y in singles if x[1] <= y[0] and x[1] <= P]
    for locs in [[x] for x in singles] + [list(xy) for xy in pairs]:
        case = {"kind": "locations", "P": P, "locations": [list(x) for x in locs]}
        acc.case(("from_locations", P, tuple(locs)), nontrivial=any(b > P for a, b in locs))
        want = [p if p < P else None for a, b in locs for p in range(a, b)]
        try:
            fm = FeatureMap.from_locations(locations=[tuple(x) for x in locs], parent_length=P)
            got = table_of_map(fm)
            cls = "location reaching beyond the parent" if any(b > P for a, b in locs) else "locations inside the parent"
            if any((not sp.lost) and not (0 <= sp.start <= sp.end <= P) for sp in fm.spans):
                acc.fail(f"FeatureMap.from_locations: coordinates outside parent [{cls}]", case, {"spans": str(list(fm.spans))})
            elif got != want or len(fm) != len(want):
                acc.fail(f"FeatureMap.from_locations: positions [{cls}]", case, {"got": got, "len": len(fm), "want": want})
            elif any(b > P for a, b in locs):
                # the operations that read coordinates back
                cov = fm.get_covering_span()
                rev = fm.nucleic_reversed()
                coords = [tuple(int(v) for v in c) for c in fm.get_coordinates()]
                if any(not (0 <= a <= b <= P) for a, b in coords) or table_of_map(cov) and max(p for p in table_of_map(cov) if p is not None) >= P:
                    acc.fail(f"FeatureMap from an overhanging location: get_coordinates / get_covering_span outside parent", case, {"coords": coords})
                if sorted(p for p in table_of_map(rev) if p is not None) != sorted(P - 1 - p for p in want if p is not None):
                    acc.fail("FeatureMap from an overhanging location: nucleic_reversed positions", case, {"got": table_of_map(rev)})
        except Exception as e:  # noqa: BLE001
            acc.fail(f"FeatureMap.from_locations / readers raised {type(e).__name__} [location start within the parent]", case, {"error": str(e)[:200]})
        acc.outcome(("loc", len(want), want.count(None)))
        # the same locations as the ungapped segments of an indel map (gaps between and after them)
        if all(a < b for a, b in locs) and all(b <= P for a, b in locs[:-1]):
            try:
                im = IndelMap.from_locations(locations=[tuple(x) for x in locs], parent_length=P)
                if len(im) < 0 or any(int(g) > P for g, _ in im.get_gap_coordinates()):
                    acc.fail("IndelMap.from_locations: gap position outside parent", case, {"gaps": str(im.get_gap_coordinates())})
                # the only gap such a map can have is the overhang of its last location, and it sits at the end of the parent
                la, lb = locs[-1]
                if la < P:
                    want_gaps = [[P, lb - P]] if lb > P else []
                    got_gaps = [[int(g), int(n)] for g, n in im.get_gap_coordinates()]
                    if got_gaps != want_gaps:
                        acc.fail("IndelMap.from_locations: gap coordinates [" + ("location reaching beyond the parent" if lb > P else "locations inside the parent") + "]",
                                 case, {"got": got_gaps, "want": want_gaps})
            except Exception as e:  # noqa: BLE001
                acc.fail(f"IndelMap.from_locations raised {type(e).__name__} [{'location reaching beyond the parent' if any(b > P for a, b in locs) else 'locations inside the parent'}]", case, {"error": str(e)[:200]})
    acc.sample({"from_locations": True, "P": P, "location lists": len(singles) + len(pairs)}, "locations")


def shards(tier, seed):
    b = bounds(tier)
    out = []
    for n in range(0, b["indel_len"] + 1):
        nchunks = 1 if n < 6 else (4 if n < 9 else 16)
        for c in range(nchunks):
            out.append({"part": "indel", "n": n, "chunk": c, "of": nchunks})
    for n in range(0, b["join_len"] + 1):
        nchunks = 1 if n < 6 else 8
        for c in range(nchunks):
            out.append({"part": "joined", "n": n, "chunk": c, "of": nchunks})
    for n1 in range(0, b["pair_len"] + 1):
        for n2 in range(0, b["pair_len"] + 1):
            out.append({"part": "pair", "n1": n1, "n2": n2})
    for P in range(1, b["fmap_parent"] + 1):
        for k in range(0, b["fmap_spans"] + 1):
            nchunks = 1 if k < 2 else (8 if k == 2 else 64)
            for c in range(nchunks):
                out.append({"part": "fmap", "P": P, "k": k, "chunk": c, "of": nchunks})
    for P in range(1, min(b["fmap_parent"], 4) + 1):
        out.append({"part": "compose", "P": P})
        out.append({"part": "locations", "P": P})
    return out


def run_shard(spec, acc):
    part = spec["part"]
    if part == "indel":
        for i, s in enumerate(mask_strings(spec["n"])):
            if i % spec["of"] == spec["chunk"]:
                check_string(s, acc)
    elif part == "joined":
        for i, s in enumerate(mask_strings(spec["n"])):
            if i % spec["of"] == spec["chunk"]:
                check_joined(s, acc)
    elif part == "pair":
        for s1 in mask_strings(spec["n1"]):
            for s2 in mask_strings(spec["n2"]):
                check_pair(s1, s2, acc)
        acc.sample({"pair_lengths": [spec["n1"], spec["n2"]], "ops": "+, shared_gaps, minus_gaps, merge_maps"}, "pair")
    elif part == "fmap":
        P, k = spec["P"], spec["k"]
        for i, desc in enumerate(itertools.product(all_spans(P), repeat=k)):
            if i % spec["of"] == spec["chunk"]:
                check_fmap(desc, P, acc)
    elif part == "locations":
        check_locations(spec["P"], acc)
    elif part == "compose":
        P = spec["P"]
        for d1 in itertools.chain.from_iterable(itertools.product(all_spans(P), repeat=k) for k in (1, 2)):
            n = len(table_of_desc(d1))
            for d2 in itertools.chain.from_iterable(itertools.product(all_spans(n), repeat=k) for k in (1, 2)):
                check_fmap_compose(d1, d2, P, acc)


def replay(case):
    from vf.kernel.runner import Acc

    acc = Acc()
    if case.get("kind") == "locations":
        check_locations(case["P"], acc)
    elif case.get("kind") == "fmap":
        desc = [tuple(d) for d in case["desc"]]
        if case["op"] == "__getitem__(map)":
            check_fmap_compose(desc, [tuple(d) for d in case["arg"]], case["P"], acc)
        else:
            check_fmap(desc, case["P"], acc)
    else:
        s, op, arg = case["s"], case["op"], case["arg"]
        if op in ("__add__", "shared_gaps", "minus_gaps", "merge_maps"):
            check_pair(s, arg, acc)
        elif op == "joined_segments":
            check_joined(s, acc)
        else:
            check_string(s, acc)
    return [(sig, rec["cases"][0]["detail"]) for sig, rec in acc.failures.items()]

LEVEL_TEXT = (
    "Bounded exhaustive exploration on the real IndelMap/FeatureMap code: every gap layout up to the length bound, every "
    "slice interval, index, ordered pair and <=k-span feature map is executed and compared with a plain-string / python-set oracle. "
    "Within the bounds the verdict is complete (no sampling); the index arithmetic under test is length-generic, so all positional "
    "branch combinations (inside / at the edge of / between gap runs) are reached at these sizes."
)
LEVEL_NOTE = (
    "Trusted: CPython str slicing, the ~80-line string oracle. Assumes documented preconditions of the binary gap operations; "
    "nothing is claimed above the length bounds recorded in the evidence file."
)
