"""C09 - tree transformations preserve tips, topology and path lengths; tree distances.

K1: breadth-first search over histories of tree operations, started from every
tree shape (every multifurcation pattern, rooted = 2 root children / unrooted =
>= 3 root children) on 2..n tips under several length / naming schemes.  After
every operation the result is converted to the plain model of
``vf.models.treegraph`` by walking ``.children/.name/.length`` and compared with
what the model of the *receiver* demands: the intended tip set, the bipartitions
induced on the retained tips, every tip-to-tip path sum (exact: all lengths are
dyadic), and - for operations documented as returning a new tree - an unchanged
receiver.  Every new state is additionally observed through the read-only API
(get_tip_names, get_distances, tip_to_tip_distances, subsets, get_newick read by an
independent newick reader) and compared with the model.

Second part: all ordered pairs of labeled trees on the same tips for the tree
distance methods, against set algebra / brute-force matching on the model.
"""

from __future__ import annotations

import copy as _copy
import itertools

from vf.models import treegraph as tg

PID = "C09"
LEVEL = "model_checking"
TECHNIQUE = "explicit-state BFS over tree-operation histories on the real PhyloNode code against an edge-weighted graph model; exhaustive labeled-tree pairs for tree distances"
RULE = (
    "initial trees = every unlabeled shape with every internal node >= 2 children on 2..n tips x 4 schemes "
    "(distinct dyadic lengths + named internals; reversed dyadic lengths + unnamed internals; all lengths 1 (ties, "
    "midpoint on a node); names needing newick quoting; for <= 3 tips also names starting / ending with a quote). From every canonical state (ordered structure, names, "
    "name_loaded, params) every operation of the alphabet is executed once: rooted_at(every internal), "
    "rooted_with_tip(every tip), root_at_midpoint, unrooted, sorted x2, get_sub_tree(every subset of tips, |S|>=1, "
    "plus sets containing internal names) x ignore_missing x keep_root x tipsonly, copy x2, newick round trips x "
    "writer/reader options, JSON, bifurcating, prune, scale_branch_lengths x2. A transition is counted once "
    "(state x operation, states de-duplicated by canonical key); non-trivial = receiver has >= 3 tips. "
    "Distances: every ordered pair of labeled hierarchies on the same n tips x method; non-trivial = n >= 4."
)
ASSUMPTIONS = [
    "rooted means the root has exactly two children (the definition used by tree_distance); shapes with >= 3 root children are the unrooted trees",
    "branch lengths are dyadic rationals (or small integers after scale_branch_lengths), so path sums are compared with ==",
    "newick round trip is judged for the default writer (escape_name=True); the reader is given underscore_unmunge=True when a name contains a blank (the writer munges blanks to '_'); escape_name=False is judged only for names without reserved characters",
    "get_sub_tree retaining fewer than two tips may raise TreeError or return a tree with exactly the retained tips",
    "lin_rajan_moret raising ValueError for trees with different numbers of internal edges is accepted (explicit precondition in the code)",
    "bifurcating() may add bipartitions (it resolves multifurcations with zero-length edges); the original ones must remain",
    "scale_branch_lengths is an in-place, length-changing operation: only tips / topology are judged, the scaled lengths are read back",
    "attributes cached on nodes by observers (MaxDistTips, TipDistance, __start/__stop, __leaf_set) are not part of the state key; no operation of the alphabet reads them before rewriting them",
]
EXHAUSTIVE = True
SHARD_TIMEOUT = {"quick": 900, "thorough": 3600}

# switch for the "result shares mutable params dicts with the receiver" check
CHECK_ALIASING = True

PLAIN = ["a", "b", "c", "d", "e", "f", "g"]
NASTY = ["a b", "c_d", "e'f", "g(h)", "i:j,k", '[l];"m"', "n  o"]  # blank, '_', inner quote, reserved characters
QUOTES = ["'c d", "e f'", "x'y z"]  # quote at the start / end of a name (used for <= 3 tips)
MISSING = "zz"
BIFURCATING_EPS = 2.0 ** -6  # positive and dyadic: the property quantifies over positive branch lengths


def bounds(tier):
    return {
        "quick": {"max_tips": 5, "depth": 2, "dist_pairs_tips": 5, "nodedup_selfcheck": {"max_tips": 3, "depth": 2}},
        "thorough": {"max_tips": 6, "depth": 3, "depth_at_max_tips": 2, "dist_pairs_tips": 6,
                     "schemes_at_5_and_6_tips": ["pow2-named", "ones-unnamed"],
                     "other_schemes_at_5_tips_depth": 2,
                     "nodedup_selfcheck": {"max_tips": 4, "depth": 2}},
    }[tier]


# ----------------------------------------------------------------------------- initial trees
SCHEMES = ("pow2-named", "pow2rev-unnamed", "ones-unnamed", "nasty-named")
SMALL_SCHEMES = ("quotes-named", "blankends-named", "dquotes-named")  # only for <= 3 tips
DQUOTES = ['"a"', '"x', 'y"z']  # a double quote at the start / inside a name
BLANKENDS = [" a", "b ", " c d "]  # a blank at the start / end of a name
MID_SCHEMES = ("edgelike-mixed",)  # for <= 4 tips: user names that look like the library's generated ones, next to unnamed nodes
EDGELIKE = ["edge.1", "b", "c", "d"]


def initial_model(shape, scheme):
    """model tree for an unlabeled shape under a naming / length scheme"""
    n_edges = sum(1 for _ in _walk_shape(shape)) - 1
    if scheme in ("pow2-named", "nasty-named", "quotes-named", "edgelike-mixed", "nodelike-mixed", "blankends-named", "dquotes-named"):
        lens = [2.0 ** (k - 2) for k in range(n_edges)]
    elif scheme == "pow2rev-unnamed":
        lens = [2.0 ** (k - 2) for k in range(n_edges)][::-1]
    else:
        lens = [1.0] * n_edges
    names = DQUOTES if scheme == "dquotes-named" else BLANKENDS if scheme == "blankends-named" else NASTY if scheme == "nasty-named" else (QUOTES if scheme == "quotes-named" else (EDGELIKE if scheme == "edgelike-mixed" else PLAIN))
    named = scheme in ("pow2-named", "nasty-named", "quotes-named", "blankends-named", "dquotes-named")
    tip_i = itertools.count()
    int_i = itertools.count(1)
    len_i = iter(lens)
    n_internal = sum(1 for x in _walk_shape(shape) if x) - 1

    def build(s, root):
        length = None if root else next(len_i)
        if not s:
            return (names[next(tip_i)], length, ())
        if root:
            name = None
        elif scheme == "edgelike-mixed":
            name = "edge.0" if next(int_i) == 1 else None  # one internal node carries a generated-looking name, the rest none
        elif scheme == "nodelike-mixed":
            # the last internal node in preorder carries the kind of name the serialiser hands out to unnamed nodes
            name = "node1" if next(int_i) == n_internal else None
        elif named:
            k = next(int_i)
            name = f"X{k}" if scheme == "pow2-named" else f"n_{k} x"
        else:
            name = None
        return (name, length, tuple(build(c, False) for c in s))

    return build(shape, True)


def _walk_shape(s):
    yield s
    for c in s:
        yield from _walk_shape(c)


# ----------------------------------------------------------------------------- real <-> model
def from_real(t):
    return (t.name, t.length, tuple(from_real(c) for c in t.children))


def real_key(t):
    """canonical key: everything later operations read (ordered children, names, name_loaded, params, class)"""
    return (
        type(t).__name__,
        t.name,
        bool(t.name_loaded),
        # an absent entry and an entry holding None read the same everywhere (params.get / "is not None" filters)
        tuple(sorted((str(k), repr(v)) for k, v in t.params.items() if v is not None)),
        tuple(real_key(c) for c in t.children),
    )


def make_real(model):
    """the real tree for a model tree, built node by node with the TreeBuilder callback the newick parser
    uses (so that initial trees do not depend on the parser; the parser is exercised by the round-trip and
    'reparse' operations)"""
    from cogent3.core.tree import TreeBuilder

    create = TreeBuilder().create_edge

    def build(n):
        children = [build(c) for c in n[2]]
        params = {} if n[1] is None else {"length": n[1]}
        return create(children, n[0], params)

    tree = build(model)
    if not tree.name_loaded:
        tree.name = "root"
    return tree


def parse_real(model):
    from cogent3 import make_tree

    s = tg.newick(model)
    blank = any(" " in (n[0] or "") for n in tg.nodes(model))
    return make_tree(s, underscore_unmunge=True) if blank else make_tree(s)


def root_class(m):
    base = _root_class(m)
    names = [n[0] for n in tg.nodes(m)][1:]
    named = [x for x in names if x is not None]
    # two nodes with one name make every look-up by name ambiguous: a class of its own
    return base + ", duplicate node names" if len(set(named)) != len(named) else base


def _root_class(m):
    k = len(m[2])
    internal = sum(1 for c in m[2] if c[2])
    if k >= 3:
        return "root has >= 3 children"
    if k == 1:
        return "root has one child"
    if internal:
        return "root has two children, at least one internal"
    return "root has two children, both tips"


def unrooted_class(m):
    """structural class for unrooted(): it only restructures a root with fewer than 3 children"""
    if len(m[2]) >= 3:
        return "root has >= 3 children"
    if any(c[2] for c in m[2]):
        return "root has fewer than 3 children, at least one internal"
    return "root has fewer than 3 children, all tips"


def has_unary(m):
    return any(len(n[2]) == 1 for n in tg.nodes(m))


def _path_prefix_sums(m, a, b):
    """cumulative distances from tip a of the nodes on the path a -> b"""
    def find(n, name, acc_):
        if not n[2]:
            return acc_ + [n] if n[0] == name else None
        for c in n[2]:
            r = find(c, name, acc_ + [n])
            if r:
                return r
        return None

    pa, pb = find(m, a, []), find(m, b, [])
    i = 0
    while i < min(len(pa), len(pb)) and pa[i] is pb[i]:
        i += 1
    up = pa[i - 1:][::-1]  # a ... lca
    down = pb[i:]  # below lca ... b
    out, d = [], 0
    for k, nd in enumerate(up):
        out.append(d)
        if k < len(up) - 1:
            d += nd[1]
    for nd in down:
        d += nd[1]
        out.append(d)
    return out


def midpoint_class(m):
    """does the midpoint of the longest tip-to-tip path fall on a node or inside an edge"""
    sums = tg.path_sums(m)
    if not sums or any(v is None for v in sums.values()):
        return "no lengths"
    mx = max(sums.values())
    kinds = set()
    for (a, b), v in sums.items():
        if v == mx:
            kinds.add("on a node" if mx / 2 in _path_prefix_sums(m, a, b) else "inside an edge")
    return "midpoint " + (kinds.pop() if len(kinds) == 1 else "on a node or inside an edge (tied longest paths)")


def induced_root_class(m, keep, keep_root=False, whole=()):
    """class of the tree get_sub_tree has to build for `keep`: number of children of its root that carry
    retained tips (the receiver's root when keep_root, else the last common ancestor of the retained tips)"""
    keep = set(keep)

    def count(n):
        return len(keep & set(tg.tips(n)))

    cur = m
    while not keep_root and cur[0] not in whole:  # a node named in the list is copied whole
        carrying = [c for c in cur[2] if count(c)]
        if len(carrying) == 1 and carrying[0][2]:
            cur = carrying[0]
            continue
        break
    carrying = [c for c in cur[2] if count(c)]
    multi = sum(1 for c in carrying if count(c) > 1)
    rec = "receiver root has >= 3 children" if len(m[2]) >= 3 else "receiver root has < 3 children"
    if len(carrying) >= 3:
        return f"{rec}, sub tree root has >= 3 children"
    if multi:
        return f"{rec}, sub tree root has fewer than 3 children, at least one internal"
    return f"{rec}, sub tree root has fewer than 3 children, all tips"


# ----------------------------------------------------------------------------- alphabet
NEW_OPS = {"rooted_at", "rooted_with_tip", "midpoint", "unrooted", "sorted", "subtree", "copy", "newick",
           "newick_nolen", "reparse", "json", "bifurcating"}
INPLACE_OPS = {"prune", "scale"}
TERMINAL_OPS = {"newick_nolen"}

RESERVED = set("[]'\"(),:;_")

SUBTREE_OPTS = [(im, kr, to) for im in (False, True) for kr in (False, True) for to in (False, True)]


def plain_name(s):
    return s is None or all(ch.isalnum() or ch == "." for ch in s)


def alphabet(m):
    """operations (JSON-able lists) applicable to a state with model m, simplest first"""
    ops = []
    tipnames = tg.tips(m)
    allnodes = tg.nodes(m)
    internal = [n[0] for n in allnodes if n[2] and n[0] is not None]
    ops.append(["copy", "copy"])
    ops.append(["copy", "deepcopy"])
    ops.append(["unrooted"])
    ops.append(["midpoint"])
    for name in internal:
        ops.append(["rooted_at", name])
    for name in tipnames:
        ops.append(["rooted_with_tip", name])
    ops.append(["sorted", None])
    ops.append(["sorted", tipnames[::-1]])
    for wn in (False, True):
        for esc in (True, False):
            for unm in (False, True):
                ops.append(["newick", wn, esc, unm])
    ops.append(["newick_nolen"])
    ops.append(["reparse"])
    ops.append(["json"])
    ops.append(["bifurcating"])
    ops.append(["prune"])
    ops.append(["scale", False])
    ops.append(["scale", True])
    # sub trees: every non-empty subset of tips x options (with a missing name added when ignore_missing)
    n = len(tipnames)
    for r in range(1, n + 1):
        for S in itertools.combinations(tipnames, r):
            for im, kr, to in SUBTREE_OPTS:
                ops.append(["subtree", list(S) + ([MISSING] if im else []), im, kr, to])
    # sets containing internal (non-root) names
    inner = [nd for nd in allnodes[1:] if nd[2] and nd[0] is not None]
    for x in inner:
        below = set(tg.tips(x))
        sets = [[x[0]]] + [[x[0], t] for t in tipnames if t not in below]
        sets += [[x[0], y[0]] for y in inner if y is not x and repr(y) > repr(x)]
        for S in sets:
            for im in (False, True):
                for to in (False, True):
                    ops.append(["subtree", S, im, False, to])
    # a missing name without ignore_missing must be refused
    ops.append(["subtree", tipnames[:2] + [MISSING], False, False, False])
    return ops


def apply_real(t, op):
    """run the operation on the real tree; returns the resulting real tree (the receiver for in-place ops)"""
    from cogent3 import make_tree
    from cogent3.util.deserialise import deserialise_object

    k = op[0]
    if k == "copy":
        return t.copy() if op[1] == "copy" else _copy.deepcopy(t)
    if k == "unrooted":
        return t.unrooted()
    if k == "midpoint":
        return t.root_at_midpoint()
    if k == "rooted_at":
        return t.rooted_at(op[1])
    if k == "rooted_with_tip":
        return t.rooted_with_tip(op[1])
    if k == "sorted":
        return t.sorted() if op[1] is None else t.sorted(list(op[1]))
    if k == "subtree":
        return t.get_sub_tree(list(op[1]), ignore_missing=op[2], keep_root=op[3], tipsonly=op[4])
    if k == "newick":
        s = t.get_newick(with_distances=True, with_node_names=op[1], escape_name=op[2])
        return make_tree(s, underscore_unmunge=op[3])
    if k == "newick_nolen":
        blank = any(" " in (n.name or "") for n in t.traverse())
        return make_tree(t.get_newick(with_distances=False), underscore_unmunge=blank)
    if k == "reparse":
        return parse_real(from_real(t))
    if k == "json":
        return deserialise_object(t.to_json())
    if k == "bifurcating":
        return t.bifurcating(eps=BIFURCATING_EPS)
    if k == "prune":
        t.prune()
        return t
    if k == "scale":
        t.scale_branch_lengths(ultrametric=op[1])
        return t
    raise ValueError(op)


def op_label(op):
    k = op[0]
    return {
        "copy": "copy" if len(op) > 1 and op[1] == "copy" else "copy.deepcopy",
        "midpoint": "root_at_midpoint",
        "subtree": "get_sub_tree",
        "newick": "newick round trip",
        "newick_nolen": "newick round trip (no distances)",
        "reparse": "make_tree(newick written by the model)",
        "json": "json round trip",
        "scale": "scale_branch_lengths",
    }.get(k, k)


def expectation(m, op):
    """what the property demands of the result, from the model m of the receiver.

    returns dict(tips=set|None, paths=bool, splits='equal'|'superset'|None, raises=tuple of allowed
    exception names or (), may_raise=tuple (allowed but not required), judged=bool, cls=str)
    """
    k = op[0]
    tipnames = tg.tips(m)
    e = {"tips": set(tipnames), "paths": True, "splits": "equal", "raises": (), "may_raise": (), "judged": True,
         "cls": root_class(m), "keep": set(tipnames)}
    names = [n[0] for n in tg.nodes(m)]
    if k == "midpoint":
        if not tg.has_all_lengths(m):
            e["judged"] = False  # needs branch lengths
    elif k == "unrooted":
        e["cls"] = unrooted_class(m)
    elif k == "newick":
        _, wn, esc, unm = op
        used = [x for x in (names if wn else tipnames) if x is not None]
        if not esc and not all(plain_name(x) for x in used):
            e["judged"] = False  # unescaped reserved characters / blanks cannot be expected to survive
        if esc and not unm and any(" " in x and not any(ch in RESERVED for ch in x) for x in used):
            e["judged"] = False  # the writer munged blanks to '_' : needs an unmunging reader
    elif k == "newick_nolen":
        e["paths"] = False
    elif k == "bifurcating":
        e["splits"] = "superset"
        e["paths"] = False  # new edges of length eps lengthen paths by construction
    elif k == "json":
        named = [x for x in names[1:] if x is not None]
        if len(set(named)) != len(named):
            e["cls"] = "duplicate node names"
        if any(x is None for x in names[1:]):
            e["cls"] = "node with name None"  # edge attributes are keyed by node name
        # to_rich_dict writes its newick without escaping names: the parse fails before anything else matters
        if any(ch in RESERVED - {"'", "_"} for x in names if x is not None for ch in x) or any(
            (x or "").startswith("'") for x in names
        ):
            e["cls"] = "a name needs newick quoting"
    if k in ("newick", "newick_nolen", "reparse") and any((x or "").startswith("'") for x in names):
        e["cls"] = "a name starts with a single quote"
    elif k == "scale":
        e["paths"] = False
        e["judged_errors"] = False
    elif k == "subtree":
        _, S, im, kr, to = op
        universe = set(tipnames) if to else set(x for x in names if x is not None)
        S = list(S)
        if not im and any(x not in universe for x in S):
            e["raises"] = ("ValueError",)
            return e
        keep = set()
        if to:
            keep = set(S) & set(tipnames)
        else:
            for nd in tg.nodes(m):
                if nd[0] in S:
                    keep |= set(tg.tips(nd))
        e["tips"] = keep
        e["keep"] = keep
        e["cls"] = induced_root_class(m, keep, kr, () if to else tuple(S)) if keep else "nothing retained"
        if len(keep) < 2:
            e["may_raise"] = ("TreeError",)
            e["paths"] = False
            e["splits"] = None
    return e


# ----------------------------------------------------------------------------- rebuilding histories
def rebuild(init, hist):
    """replay a history from the initial model; returns the list of real trees [t0, t1, ... tk]
    (in-place operations repeat the same object)"""
    chain = [make_real(init)]
    for op in hist:
        chain.append(apply_real(chain[-1], op))
    return chain


def distinct_chain(chain):
    out = []
    for t in chain:
        if not any(t is x for x in out):
            out.append(t)
    return out


# ----------------------------------------------------------------------------- checks
def _fail(acc, sig, init, hist, op, detail):
    acc.fail(sig, {"kind": "trans", "init": tg.to_jsonable(init), "hist": hist, "op": op}, detail)


def check_result(acc, init, hist, op, ctx, e, res, label):
    """compare the model of the result with the expectation; returns (model of result, problems?)"""
    m = ctx.m
    mr = from_real(res)
    cls = e["cls"]
    bad = False
    got_tips = tg.tips(mr)
    if sorted(map(str, got_tips)) != sorted(map(str, e["tips"])) or len(set(got_tips)) != len(got_tips):
        _fail(acc, f"{label}: tip set [{cls}]", init, hist, op,
              {"got": sorted(map(str, got_tips)), "want": sorted(map(str, e["tips"]))})
        return mr, "tips"
    if e["splits"]:
        want = tg.restrict_splits(ctx.splits, e["keep"])
        got = tg.splits(mr)
        ok = got == want if e["splits"] == "equal" else want <= got
        if not ok:
            bad = True
            _fail(acc, f"{label}: unrooted topology [{cls}]", init, hist, op,
                  {"got": tg.splits_jsonable(got), "want": tg.splits_jsonable(want)})
    if e["paths"] and all(v is not None for v in ctx.sums.values()):
        want = tg.restrict_sums(ctx.sums, e["keep"])
        got = tg.path_sums(mr)
        if any(v is None for v in got.values()):
            bad = "lost"
            _fail(acc, f"{label}: branch length on a tip-to-tip path lost [{cls}]",
                  init, hist, op, {"result": tg.newick(mr), "receiver": tg.newick(m)})
        else:
            if got != want:
                bad = True
                diff = sorted((k, got.get(k), want.get(k)) for k in want if got.get(k) != want.get(k))[:4]
                _fail(acc, f"{label}: tip-to-tip path length [{cls}]", init, hist, op,
                      {"first differences (pair, got, want)": diff, "result": tg.newick(mr), "receiver": tg.newick(m)})
    return mr, bad


def shares_params(res, others):
    """a node of `res` whose params dict is the very object used by a node of one of `others`"""
    mine = {}
    for n in res.traverse():
        mine[id(n.params)] = n
    for o in others:
        if o is res:
            continue
        for n in o.traverse():
            if id(n.params) in mine and mine[id(n.params)] is not n:
                return (mine[id(n.params)].name, n.name)
    return None


class Ctx:
    """the replayed history of one state plus everything that is the same for all operations applied to it"""

    def __init__(self, init, hist):
        self.chain = rebuild(init, hist)
        self.live = distinct_chain(self.chain)
        self.keys = [real_key(t) for t in self.live]
        self.m = from_real(self.chain[-1])
        self.ntips = len(tg.tips(self.m))
        self._sums = self._splits = None

    @property
    def sums(self):
        if self._sums is None:
            self._sums = tg.path_sums(self.m)
        return self._sums

    @property
    def splits(self):
        if self._splits is None:
            self._splits = tg.splits(self.m)
        return self._splits


def do_transition(acc, init, hist, op, ctx=None):
    """execute one operation on the state reached by `hist`; returns (result tree or None, ctx reusable?)"""
    if ctx is None:
        ctx = Ctx(init, hist)
    chain = ctx.chain
    recv = chain[-1]
    m = ctx.m
    e = expectation(m, op)
    label = op_label(op)
    k = op[0]
    live = ctx.live
    before = ctx.keys
    acc.transitions += 1
    acc.case({"init": init, "hist": hist, "op": op}, nontrivial=ctx.ntips >= 3)
    try:
        res = apply_real(recv, op)
        err = None
    except Exception as ex:  # noqa: BLE001 - exceptions are outcomes
        res, err = None, ex
    after = [real_key(t) for t in live]
    clean = before == after

    # receiver / ancestors unmodified
    if k in NEW_OPS:
        if after[-1] != before[-1]:
            _fail(acc, f"{label}: receiver modified [{midpoint_class(m) if k == 'midpoint' else e['cls']}]", init, hist, op,
                  {"receiver before": tg.newick(m), "receiver after": tg.newick(from_real(recv))})
    for i in range(len(live) - 1):
        if after[i] != before[i]:
            shared = shares_params(recv, [live[i]])
            if shared:
                # consequence of the aliasing reported where the receiver was produced: one signature
                _fail(acc, "in-place edit of a derived tree changes the tree it was derived from [shared params dict]",
                      init, hist, op, {"ancestor index": i, "operation": label})
            else:
                _fail(acc, f"{label}: modifies the tree its receiver was derived from [no shared params dict]", init, hist, op,
                      {"ancestor index": i})

    if err is not None:
        name = type(err).__name__
        acc.outcome((k, "raised", name, e["cls"]))
        if name in e["raises"] or name in e["may_raise"]:
            return None, clean
        if not e["judged"] or e.get("judged_errors") is False:
            acc.count("unjudged_errors")
            return None, clean
        _fail(acc, f"{label}: raised {name} [{e['cls']}]", init, hist, op, {"error": str(err)[:300]})
        return None, clean
    if e["raises"]:
        _fail(acc, f"{label}: did not raise {e['raises'][0]} [{e['cls']}]", init, hist, op, {"result": tg.newick(from_real(res))})
        return None, clean
    if not e["judged"]:
        acc.count("unjudged_results")
        acc.outcome((k, "unjudged"))
        return None, clean
    mr, bad = check_result(acc, init, hist, op, ctx, e, res, label)
    if bad in ("tips", "lost"):
        # the result does not even have the intended tips / all lengths: reported, not explored further
        acc.outcome((k, "wrong " + bad, e["cls"]))
        return None, clean
    if CHECK_ALIASING and k in NEW_OPS and res is not recv:
        shared = shares_params(res, live)
        if shared:
            _fail(acc, f"{label}: result shares a params dict (branch length storage) with an existing tree", init, hist, op,
                  {"result node": shared[0], "other node": shared[1],
                   "consequence": "an in-place edit of either tree (e.g. scale_branch_lengths) changes the other"})
    acc.outcome((k, "ok", bad, len(mr[2]), len(tg.tips(mr)), e["cls"], e["splits"], has_unary(mr)))
    if k in TERMINAL_OPS:
        return None, clean
    return res, clean


def check_state(acc, init, hist, t):
    """read-only API of a reached tree against the model of its own structure"""
    m = from_real(t)
    case = {"kind": "state", "init": tg.to_jsonable(init), "hist": hist}

    def bad(what, got, want, cls=None):
        acc.fail(f"state observable {what}" + (f" [{cls}]" if cls else ""), case, {"got": got, "want": want, "tree": tg.newick(m)})

    tipnames = tg.tips(m)
    got = t.get_tip_names()
    if got != tipnames:
        bad("get_tip_names", got, tipnames)
    if len(tipnames) >= 2 and tg.has_all_lengths(m):
        sums = tg.path_sums(m)
        try:
            gd = {k: float(v) for k, v in t.get_distances().items()}
        except Exception as ex:  # noqa: BLE001
            gd = f"raised {type(ex).__name__}: {ex}"
        if gd != sums:
            bad("get_distances", tg_pairs(gd), tg_pairs(sums))
        try:
            mat, order = t.tip_to_tip_distances()
            onames = [n.name for n in order]
            gm = {(a, b): float(mat[i, j]) for i, a in enumerate(onames) for j, b in enumerate(onames) if i != j}
        except Exception as ex:  # noqa: BLE001
            gm = f"raised {type(ex).__name__}: {ex}"
        if gm != sums:
            bad("tip_to_tip_distances", tg_pairs(gm), tg_pairs(sums))
        # the same two answers for a chosen set of end points: every subset of two or more tips (up to five tips), listed in
        # the reverse of the tree's own tip order, as names and as nodes
        all_names = [n.name for n in t.traverse(include_self=True)]
        # end points are looked up by name: only judged where every node name is unique (trees that carry the recorded
        # duplicate generated names are reported under that finding, not here)
        if 3 <= len(tipnames) <= 5 and hasattr(t, "get_node_matching_name") and len(set(all_names)) == len(all_names):
            done = False
            for r in range(2, len(tipnames) + 1):
                for sub in itertools.combinations(tipnames, r):
                    ends = list(reversed(sub))
                    want_sub = {k: v for k, v in sums.items() if k[0] in sub and k[1] in sub}
                    for form in ("names", "nodes"):
                        arg = ends if form == "names" else [t.get_node_matching_name(n) for n in ends]
                        try:
                            gd = {k: float(v) for k, v in t.get_distances(endpoints=list(arg)).items()}
                        except Exception as ex:  # noqa: BLE001
                            gd = f"raised {type(ex).__name__}: {ex}"
                        if gd != want_sub:
                            bad("get_distances(endpoints)", [ends, tg_pairs(gd)], tg_pairs(want_sub), cls="end points a subset of the tips, in another order")
                            done = True
                        try:
                            mat, order = t.tip_to_tip_distances(endpoints=list(arg))
                            onames = [n.name for n in order]
                            gm = {(a, b): float(mat[i, j]) for i, a in enumerate(onames) for j, b in enumerate(onames) if i != j}
                        except Exception as ex:  # noqa: BLE001
                            gm = f"raised {type(ex).__name__}: {ex}"
                        if gm != want_sub:
                            bad("tip_to_tip_distances(endpoints)", [ends, tg_pairs(gm)], tg_pairs(want_sub), cls="end points a subset of the tips, in another order")
                            done = True
                        if done:
                            break
                    if done:
                        break
                if done:
                    break
        try:
            mx = float(t.max_tip_tip_distance()[0])
        except Exception as ex:  # noqa: BLE001
            mx = f"raised {type(ex).__name__}: {ex}"
        if mx != max(sums.values()):
            bad("max_tip_tip_distance", mx, max(sums.values()))
        nd = {n.name: n for n in t.tips()}
        for a, b in itertools.combinations(tipnames, 2):
            d = nd[a].distance(nd[b])
            if d != sums[(a, b)]:
                bad("PhyloNode.distance", [a, b, d], sums[(a, b)])
                break
    want = tg.clusters(m)
    got = t.subsets()
    if got != want:
        bad("subsets", sorted(sorted(map(str, x)) for x in got), sorted(sorted(map(str, x)) for x in want))
    # the writer judged by an independent reader
    try:
        s = t.get_newick(with_distances=True, with_node_names=True)
        unm = any(" " in (n[0] or "") for n in tg.nodes(m))
        back = tg.read_newick(s, unmunge=unm)
        probs = []
        if sorted(map(str, tg.tips(back))) != sorted(map(str, tipnames)):
            probs.append(("tips", tg.tips(back), tipnames))
        elif tg.splits(back) != tg.splits(m):
            probs.append(("topology", tg.splits_jsonable(tg.splits(back)), tg.splits_jsonable(tg.splits(m))))
        elif tg.has_all_lengths(m) and tg.path_sums(back) != tg.path_sums(m):
            probs.append(("path lengths", s, tg.newick(m)))
        if probs:
            bad("get_newick read by independent reader: " + probs[0][0], probs[0][1], probs[0][2])
    except tg.NewickError as ex:
        bad("get_newick read by independent reader: unreadable", str(ex), None)
    acc.outcome(("state", len(tipnames), len(m[2]), has_unary(m), tg.has_all_lengths(m)))


def tg_pairs(d):
    if not isinstance(d, dict):
        return d
    return sorted([a, b, v] for (a, b), v in d.items())[:12]


# ----------------------------------------------------------------------------- BFS
def bfs(init, depth, acc, dedup=True, chunk=0, of=1):
    t0 = make_real(init)
    seen = {real_key(t0)}
    frontier = [[]]
    acc.state(0)
    # the parser judged by the model's own writer
    m0 = from_real(t0)
    if tg.tips(m0) != tg.tips(init) or tg.splits(m0) != tg.splits(init) or tg.path_sums(m0) != tg.path_sums(init):
        acc.fail("harness: initial tree built with TreeBuilder.create_edge differs from the model",
                 {"kind": "state", "init": tg.to_jsonable(init), "hist": []}, {"got": tg.newick(m0), "want": tg.newick(init)})
    for d in range(depth + 1):
        nxt = []
        for hist in frontier:
            ctx = Ctx(init, hist)
            check_state(acc, init, hist, ctx.chain[-1])
            if d == depth:
                continue
            for i, op in enumerate(alphabet(ctx.m)):
                if d == 0 and i % of != chunk:
                    continue
                if ctx is None:
                    ctx = Ctx(init, hist)
                res, clean = do_transition(acc, init, hist, op, ctx)
                if res is not None:
                    key = real_key(res)
                    if not dedup or key not in seen:
                        seen.add(key)
                        acc.state(d + 1)
                        nxt.append(hist + [op])
                if not clean or op[0] in INPLACE_OPS:
                    ctx = None
        frontier = nxt
    acc.sample({"initial": tg.newick(init), "depth": depth, "states": len(seen)}, f"bfs{len(tg.tips(init))}")


# ----------------------------------------------------------------------------- tree distances
ROOTED_ONLY = {"rooted_robinson_foulds": "rf", "rrf": "rf", "matching_cluster": "m", "mc": "m"}
UNROOTED_ONLY = {"unrooted_robinson_foulds": "rf", "urf": "rf", "lin_rajan_moret": "m", "lrm": "m"}
GENERIC = {"rf": "rf", "matching": "m", None: "m"}


def model_distance(m1, m2, method):
    """expected value, or the name of the expected exception"""
    if set(tg.tips(m1)) != set(tg.tips(m2)):
        return "ValueError"
    r1, r2 = len(m1[2]) == 2, len(m2[2]) == 2
    if r1 != r2:
        return "ValueError"
    if method in ROOTED_ONLY:
        if not r1:
            return "ValueError"
        kind, rooted = ROOTED_ONLY[method], True
    elif method in UNROOTED_ONLY:
        if r1:
            return "ValueError"
        kind, rooted = UNROOTED_ONLY[method], False
    elif method in GENERIC:
        kind, rooted = GENERIC[method], r1
    else:
        return "ValueError"
    if rooted:
        return tg.rf(tg.clusters(m1), tg.clusters(m2)) if kind == "rf" else tg.matching_cluster(m1, m2)
    if kind == "rf":
        return tg.rf(tg.splits(m1), tg.splits(m2))
    v = tg.matching_split(m1, m2)
    return "ValueError" if v is None else v


def real_distance(t1, t2, method):
    try:
        v = t1.tree_distance(t2, method=method)
        return int(v) if float(v) == int(v) else float(v)
    except Exception as ex:  # noqa: BLE001
        return type(ex).__name__


def method_class(method, m1):
    rooted = len(m1[2]) == 2
    if method in ROOTED_ONLY:
        return ("rooted_robinson_foulds" if ROOTED_ONLY[method] == "rf" else "matching_cluster")
    if method in UNROOTED_ONLY:
        return ("unrooted_robinson_foulds" if UNROOTED_ONLY[method] == "rf" else "lin_rajan_moret")
    if method not in GENERIC:
        return "unknown method"
    kind = GENERIC[method]
    if rooted:
        return "rooted_robinson_foulds" if kind == "rf" else "matching_cluster"
    return "unrooted_robinson_foulds" if kind == "rf" else "lin_rajan_moret"


def check_pair(acc, h1, h2, method, cache=None, rev2=True):
    """tree_distance on an ordered pair of labeled hierarchies"""
    from cogent3 import make_tree

    def get(h, rev):
        k = (repr(h), rev)
        if cache is not None and k in cache:
            return cache[k]
        m = tg.hierarchy_to_tree(h, reverse=rev)
        t = make_tree(tg.newick(m, lengths=False))
        if cache is not None:
            cache[k] = (m, t)
        return m, t

    m1, t1 = get(h1, False)
    m2, t2 = get(h2, rev2)
    n = len(tg.tips(m1))
    acc.case({"h1": h1, "h2": h2, "method": method}, nontrivial=n >= 4)
    want = model_distance(m1, m2, method)
    got = real_distance(t1, t2, method)
    back = real_distance(t2, t1, method)
    fn = method_class(method, m1)
    case = {"kind": "pair", "h1": h1, "h2": h2, "method": method, "rev2": rev2}
    rooted = len(m1[2]) == 2
    same_tips = set(tg.tips(m1)) == set(tg.tips(m2))
    cls = "rooted pair" if rooted and len(m2[2]) == 2 else ("unrooted pair" if not rooted and len(m2[2]) != 2 else "mixed rootedness")
    if not same_tips:
        cls = "different tip sets"
    if got != back:
        acc.fail(f"tree_distance {fn}: not symmetric [{cls}]", case, {"d(t1,t2)": got, "d(t2,t1)": back})
    if got != want:
        what = "value differs from independent computation"
        if isinstance(got, str) != isinstance(want, str):
            what = f"raised {got}" if isinstance(got, str) else f"did not raise {want}"
        acc.fail(f"tree_distance {fn}: {what} [{cls}]", case, {"got": got, "want": want})
    if not isinstance(got, str) and same_tips:
        equal_topology = (tg.clusters(m1) == tg.clusters(m2)) if rooted else (tg.splits(m1) == tg.splits(m2))
        if (got == 0) != equal_topology:
            acc.fail(f"tree_distance {fn}: zero iff equal topology [{cls}]", case, {"got": got, "equal_topology": equal_topology})
    acc.outcome(("dist", fn, got if isinstance(got, str) else min(got, 12), cls))


def check_pair_after_edit(acc, h1, h2, method):
    """the first tree takes part in a distance call, is then changed in place (two tip names swapped, tip set
    unchanged) and takes part in a distance call again: the second answer is that of the tree as it is now"""
    from cogent3 import make_tree

    m1 = tg.hierarchy_to_tree(h1, reverse=False)
    m2 = tg.hierarchy_to_tree(h2, reverse=True)
    tips = tg.tips(m1)
    if len(tips) < 2 or set(tips) != set(tg.tips(m2)):
        return
    t1 = make_tree(tg.newick(m1, lengths=False))
    t2 = make_tree(tg.newick(m2, lengths=False))
    a, b = tips[0], tips[-1]
    swap = {a: b, b: a}

    def relabel(h):
        return swap.get(h, h) if isinstance(h, str) else tuple(relabel(c) for c in h)

    m1b = tg.hierarchy_to_tree(relabel(h1), reverse=False)
    case = {"kind": "pair_after_edit", "h1": h1, "h2": h2, "method": method, "swapped": [a, b]}
    acc.case(case, nontrivial=len(tips) >= 4)
    first = real_distance(t1, t2, method)
    real_distance(t2, t1, method)
    try:
        t1.reassign_names(swap)
    except Exception as ex:  # noqa: BLE001
        acc.fail(f"reassign_names raised {type(ex).__name__}", case, {"error": str(ex)[:200]})
        return
    want = model_distance(m1b, m2, method)
    got = real_distance(t1, t2, method)
    back = real_distance(t2, t1, method)
    fn = method_class(method, m1)
    acc.outcome(("dist-after-edit", fn, first == got))
    if got != want or back != want:
        acc.fail(f"tree_distance {fn}: answer for a tree that was changed in place after an earlier distance call differs from the independent computation",
                 case, {"before_edit": first, "got": got, "got_reversed_arguments": back, "want": want})


ALL_METHODS = list(ROOTED_ONLY) + list(UNROOTED_ONLY) + ["rf", "matching", None, "no_such_method"]


def run_pairs(spec, acc):
    n = spec["n"]
    labels = PLAIN[:n]
    hs = tg.hierarchies(labels)
    if n == 1:
        return
    group = spec["group"]
    if group == "rooted":
        hs = [h for h in hs if len(h) == 2]
    elif group == "unrooted":
        hs = [h for h in hs if len(h) != 2]
    methods = ALL_METHODS if spec.get("all_methods") else ["rf", "matching"]
    cache = {}
    others = hs
    if group == "othertips":
        # second tree on a different tip set (last label replaced)
        swap = {labels[-1]: PLAIN[n]}

        def relabel(h):
            return swap.get(h, h) if isinstance(h, str) else tuple(relabel(c) for c in h)

        others = [relabel(h) for h in hs]
    for i, h1 in enumerate(hs):
        if i % spec["of"] != spec["chunk"]:
            continue
        for j, h2 in enumerate(others):
            for method in methods:
                check_pair(acc, h1, h2, method, cache)
            if (i + j) % 3 == 0 and group != "othertips":
                for method in ("rf", "matching"):
                    check_pair_after_edit(acc, h1, h2, method)
    acc.transitions += 0
    acc.sample({"tips": n, "group": group, "trees": len(hs), "methods": [str(x) for x in methods]}, f"pairs-{group}")


# ----------------------------------------------------------------------------- shards
def shards(tier, seed):
    b = bounds(tier)
    out = []
    for n in range(2, b["max_tips"] + 1):
        depth = b["depth"]
        schemes = SCHEMES
        if tier == "thorough" and n >= 5:
            # the two widest searches are run for the two structurally different schemes only
            schemes = b["schemes_at_5_and_6_tips"]
            if n == b["max_tips"]:
                depth = b["depth_at_max_tips"]
        for si, _shape in enumerate(tg.shapes(n)):
            for scheme in tuple(schemes) + (SMALL_SCHEMES if n <= 3 else ()) + (MID_SCHEMES if n <= 4 else ()):
                out.append({"part": "bfs", "n": n, "shape": si, "scheme": scheme, "depth": depth})
        if tier == "thorough" and n == 5:
            for si, _shape in enumerate(tg.shapes(n)):
                for scheme in SCHEMES:
                    if scheme not in schemes:
                        out.append({"part": "bfs", "n": n, "shape": si, "scheme": scheme, "depth": 2})
    # the same shapes below a chain of one / two single-child nodes at the root (what pruning leaves behind)
    for n in range(2, 5):
        for si, _shape in enumerate(tg.shapes(n)):
            for wrap in (1, 2):
                out.append({"part": "bfs", "n": n, "shape": si, "scheme": "pow2-named", "depth": 1 if tier == "quick" else 2, "wrap": wrap})
    sc = b["nodedup_selfcheck"]
    for n in range(2, sc["max_tips"] + 1):
        for si, _shape in enumerate(tg.shapes(n)):
            out.append({"part": "bfs", "n": n, "shape": si, "scheme": "pow2-named", "depth": sc["depth"], "nodedup": True})
    N = b["dist_pairs_tips"]
    for n in range(2, N + 1):
        for group in ("rooted", "unrooted"):
            nch = 1 if n < 5 else (16 if n == 5 else (256 if group == "rooted" else 64))
            for c in range(nch):
                out.append({"part": "pairs", "n": n, "group": group, "chunk": c, "of": nch, "all_methods": n <= 4})
    for n in range(2, 5):
        out.append({"part": "pairs", "n": n, "group": "all", "chunk": 0, "of": 1, "all_methods": True})
        out.append({"part": "pairs", "n": n, "group": "othertips", "chunk": 0, "of": 1, "all_methods": n <= 3})
    return out


def run_shard(spec, acc):
    if spec["part"] == "bfs":
        shape = tg.shapes(spec["n"])[spec["shape"]]
        for _ in range(spec.get("wrap", 0)):
            shape = (shape,)
        init = initial_model(shape, spec["scheme"])
        if spec.get("nodedup"):
            # self-check of the canonical key: the same bound with and without merging must give the same verdict
            from vf.kernel.runner import Acc

            a1, a2 = Acc(), Acc()
            bfs(init, spec["depth"], a1, dedup=True)
            bfs(init, spec["depth"], a2, dedup=False)
            # (the "derived tree" signature depends on the whole history, not on the state, and is left out)
            hist_dep = "in-place edit of a derived tree"
            f1 = {x for x in a1.failures if not x.startswith(hist_dep)}
            f2 = {x for x in a2.failures if not x.startswith(hist_dep)}
            if f1 != f2:
                acc.fail("harness: merging states by canonical key changes the verdict", {"shard": spec},
                         {"only with merging": sorted(f1 - f2), "only without merging": sorted(f2 - f1)})
            acc.merge(a2)
            acc.count("nodedup_selfcheck_histories", a2.transitions)
        else:
            bfs(init, spec["depth"], acc, chunk=spec.get("chunk", 0), of=spec.get("of", 1))
    else:
        run_pairs(spec, acc)


def replay(case):
    from vf.kernel.runner import Acc

    acc = Acc()
    kind = case.get("kind")
    if kind == "trans":
        init = tg.from_jsonable(case["init"])
        do_transition(acc, init, case["hist"], case["op"])
    elif kind == "state":
        init = tg.from_jsonable(case["init"])
        chain = rebuild(init, case["hist"])
        if not case["hist"]:
            m0 = from_real(chain[-1])
            if tg.tips(m0) != tg.tips(init) or tg.splits(m0) != tg.splits(init) or tg.path_sums(m0) != tg.path_sums(init):
                acc.fail("harness: initial tree built with TreeBuilder.create_edge differs from the model", case, {"got": tg.newick(m0)})
        check_state(acc, init, case["hist"], chain[-1])
    elif kind == "pair":
        def tup(h):
            return h if isinstance(h, str) else tuple(tup(c) for c in h)

        check_pair(acc, tup(case["h1"]), tup(case["h2"]), case["method"], rev2=case.get("rev2", True))
    elif kind == "pair_after_edit":
        def tup(h):
            return h if isinstance(h, str) else tuple(tup(c) for c in h)

        check_pair_after_edit(acc, tup(case["h1"]), tup(case["h2"]), case["method"])
    return [(sig, rec["cases"][0]["detail"]) for sig, rec in acc.failures.items()]


LEVEL_TEXT = (
    "Explicit-state model checking on the real PhyloNode code: every tree shape (all multifurcation patterns, rooted and "
    "unrooted) up to the tip bound is the start of a breadth-first search over all histories of the transformation alphabet "
    "up to the depth bound; after every transition the tip set, the induced bipartitions and every tip-to-tip path sum of the "
    "result are compared exactly with a plain edge-weighted-graph model of the receiver, and the receiver is compared with its "
    "snapshot. Tree distances are decided for every ordered pair of labeled trees on the same tips against set algebra and a "
    "brute-force matching. Within the bounds the verdict is complete; the operations are structural recursions whose cases "
    "(root with 1/2/>=3 children, internal vs tip child, unary nodes, edge direction flips) all occur at <= 5 tips."
)
LEVEL_NOTE = (
    "Trusted: the ~300-line model vf/models/treegraph.py (graph walk path sums, bipartitions, own newick writer/reader, "
    "brute-force matchings) and reading .children/.name/.length of the real nodes. Lengths are dyadic so == is exact. "
    "Nothing is claimed above the tip / depth bounds recorded in the evidence file; node attributes cached by observers are "
    "outside the state key."
)
