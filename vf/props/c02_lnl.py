"""C02 - the log-likelihood equals the first-principles Felsenstein sum-product.

K2: every configuration of a finite lattice (model x tree shape x branch-length vector x
parameter vector x motif probabilities x parameter scope x rate-class set-up) is built on the
real likelihood function together with an alignment that contains EVERY column over the chosen
symbol set; each column's likelihood (`get_full_length_likelihoods`), the rate matrices, the
transition matrices, lnL and the sum over all canonical columns are compared with the
independent oracle of vf.models.felsenstein (own predicates -> Q, scipy expm, explicit sum over
all internal-node assignments).
"""

from __future__ import annotations

import itertools
import math

import numpy

from vf.models import felsenstein as F

PID = "C02"
LEVEL = "exploration"
TECHNIQUE = "exhaustive lattice enumeration of likelihood problems, every column compared with a brute-force sum-product oracle"
RULE = (
    "configuration = (model, tree shape, branch-length vector, parameter vector, motif probabilities, scope, bins / options); "
    "per (model variant, shape) four parts: PARAMS = every parameter vector at the base lengths, global scope, with one motif-prob choice "
    "rotating with the vector index and the base vector with all choices (thorough, nucleotide / dinucleotide: the full product vectors x choices); "
    "LENGTHS = every length vector x every non-uniform motif-prob choice x 2 parameter vectors (base, alternating bounds) x {global, per-edge} "
    "scope (quick codon / protein: every 4th); BINS = every rate-class set-up (gamma n x shape x bprobs, free, explicit rates, ordered "
    "parameter) x motif-prob choices (quick: second choice only for the first set-up of each mode); OPTIONS = optimise_motif_probs, each expm "
    "setting, a discrete-psub edge at the first / last edge; parameter vectors = full product of the lattice for <= 2 parameters, else base "
    "vector + every (parameter, lattice value) substitution + all-equal vectors; length vectors = the 5 rotations of the length lattice over the "
    "edges + all-zero + all-tiny + upper bound; each configuration is enumerated once and carries an alignment with EVERY column over the "
    "symbol sets (plus a block of repeated columns); non-trivial = has >= 1 free rate parameter or unequal motif probs, i.e. not plain JC69"
)
ASSUMPTIONS = [
    "scipy.linalg.expm and numpy are trusted; the oracle's rate matrices are written from the published model definitions "
    "(vf/models/felsenstein.py) and use the standard genetic code",
    "continuous parameters are replaced by a finite lattice (incl. the declared bounds 1e-6 / 1e6 and lengths 0 / 10); nothing is claimed between lattice points",
    "tolerances: Q entries 1e-9 relative + 1e-13*max|Q|; P entries 1e-9 + 8*eps*k where k = (condition number of the eigenvector "
    "matrix of Q) * max(1, |Q t|_inf) (the forward-error scale of the documented eigen-decomposition route; its loss of accuracy on nearly defective Q is C05's "
    "subject); per-column likelihood |got-want| <= (1e-9+8*eps*k)*want + 1e-13 + n_edges*8*eps*k; sum over canonical columns likewise; "
    "lnL is compared at 1e-10 relative with the sum of logs of the function's own per-column likelihoods (which are compared with the "
    "oracle one by one), because lnL of an all-columns alignment is dominated by columns of likelihood ~1e-15",
    "gap '-' and '?' count as 'any state' (all named models are built with recode_gaps / without a gap state)",
    "a zero branch length is applied with set_param_rule (a zero length on the tree object is documented to be replaced by default_length)",
    "when the implementation's Q differs from the oracle's, that is reported once under a 'rate matrix' signature and the remaining "
    "layers (P, column likelihoods) are judged against the implementation's own Q so that one defect gives one signature",
    "discrete gamma rate classes follow cogent3's documented definition (medians of the classes rescaled to mean one)",
]
SHARD_TIMEOUT = {"quick": 900, "thorough": 3600}

# ----------------------------------------------------------------------------- lattices
LEN_LATTICE = [0.0, 1e-6, 0.05, 0.3, 1.5]
PAR_LATTICE = {"quick": [1e-6, 0.4, 1.0, 3.0, 1e6], "thorough": [1e-6, 1e-3, 0.4, 1.0, 3.0, 50.0, 1e6]}
BASE_VALUES = [0.4, 3.0, 1.7, 0.6, 2.2, 0.9, 1.3, 0.25, 5.0, 0.75, 1.9, 2.7, 0.5]
SYMS17 = "ACGTRYWSKMBDHVN-?"
SYMS9 = "ACGTRYN-?"
SYMS7 = "ACGTRN-"

NUC_VARIANTS = [
    ("JC69", {}), ("F81", {}), ("K80", {}), ("HKY85", {}), ("TN93", {}), ("GTR", {}), ("GN", {}), ("ssGN", {}),
    ("F81", {"rate_matrix_required": False}), ("HKY85", {"rate_matrix_required": False}),
    ("TN93", {"rate_matrix_required": False}),
]

# user-built predicate models (name -> oracle definition); cogent3 objects are made in make_model()
CUSTOM = {
    "U_NUC_REV": ("nuc", ["R/Y", "A/G"], "tuple", False),  # reversible, transversion + one transition pair
    "U_NUC_NS": ("nuc", ["R>Y", "A>G", "C>T"], "general", False),  # directed predicates, non-stationary
    "U_DINUC_T": ("dinuc", ["kappa", "G"], "tuple", False),
    "U_DINUC_M": ("dinuc", ["kappa", "G"], "monomer", False),
    "U_DINUC_C": ("dinuc", ["kappa", "G"], "conditional", False),
    "U_DINUC_NS": ("dinuc", ["A>G", "C>T", "G"], "general", False),
    "U_DINUC_PS": ("dinuc", ["kappa", "G"], "monomers", False),  # position-specific monomer probabilities
    "U_CODON_PS": ("codon", ["kappa", "omega"], "monomers", False),  # ... on a word alphabet that is not all k-mers
}
for _k, _v in CUSTOM.items():
    F.MODELS.setdefault(_k, _v)


def bounds(tier):
    return {
        "quick": {
            "nucleotide": {"models": [v[0] + ("/solved" if v[1] else "") for v in NUC_VARIANTS], "tips": [2, 3, 4],
                           "shapes": 8, "symbols": {"<=3 tips": SYMS17, "4 tips": SYMS7}},
            "codon": {"models": F.CODON_MODELS, "tips": [2], "columns": "all sense x sense + degenerate codons",
                      "param_lattice": [1e-6, 3.0, 1e6], "lengths part": "every 4th configuration"},
            "protein": {"models": F.PROTEIN_MODELS, "tips": [2, 3], "columns": "all 20^n + B,Z,X,-,? (2 tips)"},
            "user_models": list(CUSTOM), "param_lattice": PAR_LATTICE["quick"], "length_lattice": LEN_LATTICE + [10.0],
            "bins": "gamma 2/4 x shape {0.2,1,5} x bprobs; free 2/3; explicit rates 2/3; kappa-ordered 2",
        },
        "thorough": {
            "nucleotide": {"models": [v[0] + ("/solved" if v[1] else "") for v in NUC_VARIANTS], "tips": [2, 3, 4, 5],
                           "shapes": 20, "symbols": {"<=3 tips": SYMS17, "4 tips": SYMS9, "5 tips": "ACGTN"}},
            "codon": {"models": F.CODON_MODELS, "tips": [2, 3], "columns": "all 61^2 (+degenerate), all 61^3"},
            "protein": {"models": F.PROTEIN_MODELS, "tips": [2, 3, 4], "columns": "all 20^n (4 tips: 3 free x fixed 4th)"},
            "user_models": list(CUSTOM), "param_lattice": PAR_LATTICE["thorough"], "length_lattice": LEN_LATTICE + [10.0],
            "bins": "as quick + 3/4 bins for free / explicit / ordered",
        },
    }[tier]


# ----------------------------------------------------------------------------- cogent3 side
_MODEL_CACHE = {}


def make_model(name, kw=None, bins=None):
    """the cogent3 substitution model for an oracle model name (cached per process)"""
    kw = dict(kw or {})
    if bins:
        mode = bins["mode"]
        if mode == "gamma":
            kw.update(with_rate=True, distribution="gamma")
        elif mode == "free":
            kw.update(with_rate=True, distribution="free")
        elif mode == "rates":
            kw.update(with_rate=True)
        elif mode == "ordered":
            kw.update(ordered_param=bins["param"], distribution="free")
    key = (name, tuple(sorted(kw.items())))
    if key in _MODEL_CACHE:
        return _MODEL_CACHE[key]
    from cogent3 import get_model

    if name in CUSTOM:
        from cogent3.evolve import ns_substitution_model as ns
        from cogent3.evolve import substitution_model as sm
        from cogent3.evolve.predicate import MotifChange

        kappa = (MotifChange("T", "C") | MotifChange("A", "G")).aliased("kappa")
        cg = MotifChange("CG").aliased("G")
        common = dict(recode_gaps=True, model_gaps=False, name=name, **kw)
        if name == "U_NUC_REV":
            m = sm.TimeReversibleNucleotide(predicates=[MotifChange("R", "Y"), MotifChange("A", "G")], **common)
        elif name == "U_NUC_NS":
            m = ns.NonReversibleNucleotide(
                predicates=[MotifChange("R", "Y", forward_only=True), MotifChange("A", "G", forward_only=True),
                            MotifChange("C", "T", forward_only=True)], optimise_motif_probs=False, **common)
        elif name in ("U_DINUC_T", "U_DINUC_M", "U_DINUC_C", "U_DINUC_PS"):
            mp = {"_T": "tuple", "_M": "monomer", "_C": "conditional", "PS": "monomers"}[name[-2:]]
            m = sm.TimeReversibleDinucleotide(predicates=[kappa, cg], mprob_model=mp, **common)
        elif name == "U_CODON_PS":
            from cogent3.evolve import models as _models

            m = sm.TimeReversibleCodon(predicates=[_models._kappa, _models._omega], mprob_model="monomers", **common)
        elif name == "U_DINUC_NS":
            m = ns.NonReversibleDinucleotide(
                predicates=[MotifChange("A", "G", forward_only=True), MotifChange("C", "T", forward_only=True), cg],
                mprob_model="tuple", **common)
        else:
            raise KeyError(name)
    else:
        m = get_model(name, **kw)
    _MODEL_CACHE[key] = m
    return m


_ALN_CACHE = {}


def columns_for(spec):
    """every column over the symbol sets of the spec, then a block of repeats"""
    sym_sets = spec["symbols"]  # one list of symbols per tip
    cols = list(itertools.product(*sym_sets))
    rep = cols[:: max(1, spec.get("repeat_step", 7))][:50]
    return cols + rep + rep[:7]


def alignment_for(spec):
    key = (spec["kind"], tuple(tuple(s) for s in spec["symbols"]), tuple(spec["tips"]), spec.get("repeat_step", 7))
    if key in _ALN_CACHE:
        return _ALN_CACHE[key]
    from cogent3 import make_aligned_seqs

    cols = columns_for(spec)
    seqs = {n: "".join(c[i] for c in cols) for i, n in enumerate(spec["tips"])}
    aln = make_aligned_seqs(seqs, moltype="protein" if spec["kind"] == "protein" else "dna")
    prof, single = {}, {}
    for i, n in enumerate(spec["tips"]):
        syms = sorted(set(spec["symbols"][i]))
        pos = {s: k for k, s in enumerate(syms)}
        prof[n] = (F.indicator(spec["kind"], syms), numpy.array([pos[c[i]] for c in cols]))
        single[i] = {s: len(F.compatible_states(spec["kind"], s)) == 1 for s in syms}
    canon = numpy.array([all(single[i][s] for i, s in enumerate(c)) for c in cols])
    states = set(F.states_of(spec["kind"]))
    if not all(states <= set(sy) for sy in spec["symbols"]):
        canon = None  # some tip does not range over all states: the sum over columns is not defined to be one
    nfirst = math.prod(len(s) for s in spec["symbols"])
    first = numpy.zeros(len(cols), bool)
    first[:nfirst] = True
    if len(_ALN_CACHE) > 6:
        _ALN_CACHE.clear()
    _ALN_CACHE[key] = (aln, prof, None if canon is None else canon & first, cols)
    return _ALN_CACHE[key]


def pi_dict(spec):
    kind, terms, form, eq = F.MODELS[spec["model"]]
    pi = spec["pi"]
    if pi is None:
        return None
    keys = list(F.NUC) if form == "monomer" else F.states_of(kind)
    return dict(zip(keys, pi))


def make_lf(spec, tree_value=None, lengths=None, aln=None):
    """build the real likelihood function for a configuration"""
    from cogent3 import make_tree

    tree_value = tree_value if tree_value is not None else spec["tree"]
    lengths = lengths if lengths is not None else spec["lengths"]
    bins = spec.get("bins")
    sm = make_model(spec["model"], spec.get("model_kw"), bins)
    nwk = F.newick(to_tree(tree_value), {e: (l if l else None) for e, l in lengths.items()})
    tree = make_tree(nwk)
    kw = {}
    if bins:
        kw["bins"] = bins.get("names") or bins["n"]  # the user may name the rate classes
    if spec.get("expm"):
        kw["expm"] = spec["expm"]
    if spec.get("opt_mprobs"):
        kw["optimise_motif_probs"] = True
    if spec.get("discrete"):
        kw["discrete_edges"] = sorted(spec["discrete"])
    lf = sm.make_likelihood_function(tree, **kw)
    with lf.updates_postponed():
        mp = pi_dict(spec)
        if mp is not None and spec.get("mp_form"):
            keys = list(mp)
            keys = keys[::-1] if "reversed" in spec["mp_form"] else keys[1:] + keys[:1]
            if spec["mp_form"].startswith("DictArray"):
                from cogent3.util.dict_array import DictArrayTemplate

                mp = DictArrayTemplate(keys).wrap([mp[k] for k in keys])
            else:
                mp = {k: mp[k] for k in keys}
        if mp is not None:
            lf.set_motif_probs(mp)  # before the alignment: no motif counting from the data is triggered
        if aln is not None:
            lf.set_alignment(aln)
        for e, l in lengths.items():
            if e in (spec.get("discrete") or {}):
                continue
            lf.set_param_rule("length", edge=e, value=float(l), is_constant=True)
        for t, v in spec["params"].items():
            lf.set_param_rule(t, value=float(v), is_constant=True)
        if spec.get("scope_rule"):
            # the same per-edge values, given the way a user does: two tip names and the stem / clade switches
            r = spec["scope_rule"]
            kw2 = {k: r[k] for k in ("stem", "clade") if r.get(k) is not None}
            lf.set_param_rule(r["term"], tip_names=list(r["tips"]), value=float(r["value"]), is_constant=True, **kw2)
        else:
            for e, pv in (spec.get("edge_params") or {}).items():
                for t, v in pv.items():
                    lf.set_param_rule(t, edge=e, value=float(v), is_constant=True)
        for e, P in (spec.get("discrete") or {}).items():
            lf.set_param_rule("dpsubs", edge=e, value=numpy.array(P, float), is_constant=True)
        if bins:
            if bins.get("bprobs"):
                lf.set_param_rule("bprobs", value=list(bins["bprobs"]), is_constant=True)
            if bins["mode"] == "gamma":
                lf.set_param_rule("rate_shape", value=float(bins["shape"]), is_constant=True)
            elif bins["mode"] == "rates":
                for i, r in enumerate(bins["rates"]):
                    lf.set_param_rule("rate", bin=bin_name(bins, i), value=float(r), is_constant=True)
    return lf


def bin_name(bins, i):
    return (bins.get("names") or [f"bin{k}" for k in range(bins["n"])])[i]


def to_tree(v):
    """JSON (lists) -> tree value (tuples)"""
    if isinstance(v, str):
        return v
    return (v[0], [to_tree(k) for k in v[1]])


# ----------------------------------------------------------------------------- oracle side
def oracle_pi(spec):
    kind, terms, form, eq = F.MODELS[spec["model"]]
    if spec["pi"] is not None:
        return numpy.array(spec["pi"], float)
    if form == "empirical":
        return F.empirical_tables(spec["model"])[1]
    n = len(F.states_of(kind))
    return numpy.ones(n) / n


def bin_setup(spec):
    """[(weight, rate multiplier, {param: factor})] per bin"""
    b = spec.get("bins")
    if not b:
        return [(1.0, 1.0, {})]
    n = b["n"]
    w = numpy.array(b.get("bprobs") or [1.0 / n] * n, float)
    if b["mode"] == "gamma":
        r = F.gamma_rates(b["shape"], w)
        return [(w[i], r[i], {}) for i in range(n)]
    if b["mode"] == "rates":
        return [(w[i], b["rates"][i], {}) for i in range(n)]
    mono = numpy.arange(1, n + 1, dtype=float)  # equal increments: ordered 1,2,..,n
    mono = mono / (mono * w).sum()  # weighted mean one
    if b["mode"] == "free":
        return [(w[i], mono[i], {}) for i in range(n)]
    if b["mode"] == "ordered":
        return [(w[i], 1.0, {b["param"]: mono[i]}) for i in range(n)]
    raise ValueError(b)


def oracle_Q(spec, edge, factors=None):
    vals = dict(spec["params"])
    vals.update((spec.get("edge_params") or {}).get(edge, {}))
    for p, f in (factors or {}).items():
        vals[p] = vals[p] * f
    return F.model_Q(spec["model"], oracle_pi(spec), vals)


# ----------------------------------------------------------------------------- the check
def cells_class(kind, got, want):
    """structural class of the cells where the (calibration-free) pattern of two Q differ"""
    st = F.states_of(kind)
    n = len(st)
    off = ~numpy.eye(n, dtype=bool)
    zero_mismatch = ((got == 0) != (want == 0)) & off
    both = (got != 0) & (want != 0) & off
    bad = zero_mismatch.copy()
    if both.any():
        ratio = numpy.where(both, got / numpy.where(want == 0, 1, want), numpy.nan)
        med = numpy.nanmedian(ratio)
        bad |= both & (numpy.abs(ratio / med - 1) > 1e-8)
    cells = [f"{st[i]}>{st[j]}" for i, j in numpy.argwhere(bad)]
    if not cells:
        return "scale only"
    if len(cells) <= 4:
        return "cells " + ",".join(cells)
    return "many cells"


EPS = float(numpy.finfo(float).eps)
_COND = {}


def eig_condition(Q):
    """condition number of the eigenvector matrix of Q (accuracy limit of any eigen-decomposition route)"""
    key = Q.tobytes()
    if key not in _COND:
        if len(_COND) > 2000:
            _COND.clear()
        try:
            _, v = numpy.linalg.eig(Q)
            c = float(numpy.linalg.cond(v))
        except Exception:  # noqa: BLE001
            c = float("inf")
        _COND[key] = c if math.isfinite(c) else 1e16
    return _COND[key]


_RECON = {}


def eigen_reconstruction_fails(Q):
    """the documented precision test of the "checked" / "either" exponentiation settings (Q is rebuilt from its
    eigen-decomposition and compared with numpy.allclose) fails by a wide margin (10x): the function must then have
    used the Pade route, whose accuracy does not depend on the conditioning of the eigenvectors"""
    key = Q.tobytes()
    if key not in _RECON:
        if len(_RECON) > 2000:
            _RECON.clear()
        try:
            roots, evT = numpy.linalg.eig(Q)
            ev = evT.T
            reQ = numpy.inner(ev.T * roots, numpy.linalg.inv(ev)).real
            _RECON[key] = bool((numpy.abs(Q - reQ) > 10 * (1e-8 + 1e-5 * numpy.abs(reQ))).any()) or not numpy.isfinite(reQ).all()
        except Exception:  # noqa: BLE001
            _RECON[key] = True
    return _RECON[key]


def check_config(spec, acc, report=True):
    """run one configuration; returns list of (sig, detail)"""
    fails = []
    seen = set()

    def fail(sig, detail):
        if sig in seen:
            return
        seen.add(sig)
        fails.append((sig, detail))
        if report:
            acc.fail(sig, spec, detail)

    kind, terms, form, eq = F.MODELS[spec["model"]]
    tree = to_tree(spec["tree"])
    edges = F.edges_of(tree)
    aln, prof, canon, cols = alignment_for(spec)
    nontrivial = bool(terms) or spec["pi"] is not None or form == "empirical"
    acc.case(spec, nontrivial=nontrivial)
    try:
        lf = make_lf(spec, aln=aln)
        L = numpy.asarray(lf.get_full_length_likelihoods(), float)
        lnL = float(lf.lnL)
    except Exception as e:  # noqa: BLE001
        fail(f"likelihood function raised {type(e).__name__} [{kind}; {bins_class(spec)}]", {"error": str(e)[:300]})
        acc.outcome(("raised", type(e).__name__))
        return fails
    binset = bin_setup(spec)
    pi = oracle_pi(spec)
    discrete = spec.get("discrete") or {}
    solved = bool((spec.get("model_kw") or {}).get("rate_matrix_required") is False)
    setting = "solved" if solved else (spec.get("expm") or "default expm")
    wp = F.word_probs(kind, form, pi)

    # layer 0: motif probabilities reached the function unchanged
    if form == "monomers":
        # position-specific monomer probabilities: reported per position; the values set are their word-probability form
        mp = lf.get_motif_probs()
        got_pi = numpy.array([numpy.asarray(mp[str(i)].array, float) for i in range(len(mp))])
        want_pi = F.posn_monomer_probs(kind, pi)
    else:
        got_pi, want_pi = numpy.asarray(lf.get_motif_probs().array, float), pi
    if got_pi.shape != want_pi.shape or numpy.abs(got_pi - want_pi).max() > 1e-12:
        fail(f"motif probs: get_motif_probs differs from the values set [{form}]", {"got": got_pi[:8], "want": want_pi[:8]})

    psubs_by_bin = []
    kappa = 1.0  # worst eigenvector conditioning over the Q matrices involved
    for bi, (w, rate, factors) in enumerate(binset):
        ps = {}
        for e in edges:
            if e in discrete:
                ps[e] = numpy.array(discrete[e], float)
                continue
            Q, _ = oracle_Q(spec, e, factors)
            bkw = {"bin": bin_name(spec.get("bins"), bi)} if len(binset) > 1 else {}
            # layer 1: rate matrix
            if not solved:
                try:
                    qkw = bkw if factors else {}
                    Qi = numpy.asarray(lf.get_rate_matrix_for_edge(e, calibrated=True, **qkw).array, float)
                    if (numpy.abs(Qi - Q) > 1e-9 * numpy.abs(Q) + 1e-13 * max(1.0, numpy.abs(Q).max())).any():
                        cls = cells_class(kind, Qi, Q)
                        name = spec["model"] if cls in ("many cells", "scale only") else kind
                        fail(f"rate matrix differs from the published definition [{name}; {cls}]",
                             {"edge": e, "max_abs_diff": float(numpy.abs(Qi - Q).max())})
                        Q = Qi  # judge the later layers against the implementation's own Q
                except Exception as ex:  # noqa: BLE001
                    fail(f"get_rate_matrix_for_edge raised {type(ex).__name__} [{bins_class(spec)}]", {"error": str(ex)[:200]})
            t = spec["lengths"][e] * rate
            scale = max(1.0, float(numpy.abs(Q).sum(axis=1).max()) * t)
            if setting == "pade" or (setting in ("default expm", "either") and eigen_reconstruction_fails(Q)):
                k = scale  # Pade route: no dependence on the eigenvector conditioning
            else:
                k = eig_condition(Q) * scale
            kappa = max(kappa, k)
            P = F.expm(Q * t)
            # layer 2: transition matrix
            try:
                Pi = numpy.asarray(lf.get_psub_for_edge(e, **bkw).array, float)
                if not numpy.abs(Pi - P).max() <= 1e-9 + 8 * EPS * k:
                    fail(f"psub differs from expm(Q t) [{kind}; {setting}; {bins_class(spec)}]",
                         {"edge": e, "bin": bi, "t": t, "max_abs_diff": float(numpy.abs(Pi - P).max()), "eigvec_cond": k})
                    P = Pi  # judge the later layers against the implementation's own P
            except Exception as ex:  # noqa: BLE001
                fail(f"get_psub_for_edge raised {type(ex).__name__} [{bins_class(spec)}]", {"error": str(ex)[:200]})
            ps[e] = P
        psubs_by_bin.append(ps)
    # layer 3: every column
    want = F.binned_column_likelihoods(tree, wp, psubs_by_bin, [b[0] for b in binset], prof)
    acc.count("columns_compared", len(want))
    if L.shape != want.shape:
        fail("get_full_length_likelihoods: wrong number of columns", {"got": L.shape, "want": want.shape})
        return fails
    slack = 8 * EPS * kappa
    tol = (1e-9 + slack) * want + 1e-13 + len(edges) * slack
    err = numpy.abs(L - want) - tol
    if not numpy.isfinite(L).all() or err.max() > 0:
        i = int(numpy.nanargmax(numpy.where(numpy.isfinite(err), err, numpy.inf)))
        col = cols[i]
        degenerate = any(len(F.compatible_states(kind, s)) > 1 for s in col)
        fail(f"column likelihood differs from the sum-product [{kind}; {shape_class(tree)}; "
             f"{'degenerate symbol' if degenerate else 'canonical column'}; {'bins' if spec.get('bins') else 'no bins'}]",
             {"column": col, "got": float(L[i]), "want": float(want[i]), "n_bad": int((err > 0).sum())})
    # layer 4: lnL = sum over ALL alignment columns (repeats included) of log(column likelihood)
    if L.min() > 0:
        wl = float(numpy.log(L).sum())
        if not abs(lnL - wl) <= 1e-10 * abs(wl):
            fail(f"lnL differs from the sum of log column likelihoods [{kind}; {bins_class(spec)}]", {"got": lnL, "want": wl})
        acc.outcome(("lnL", round(wl, 2)))
    else:
        acc.count("lnL_not_judged_zero_likelihood_column")
        if math.isfinite(lnL):
            fail("lnL finite although a reported column likelihood is zero", {"got": lnL})
        acc.outcome(("lnL", "impossible column"))
    # layer 5: all canonical columns sum to one
    if canon is not None and all(abs(numpy.array(P).sum(axis=1) - 1).max() < 1e-12 for P in discrete.values()):
        s = float(L[canon].sum())
        if not abs(s - 1) <= 1e-9 + len(edges) * slack:
            fail(f"likelihoods over all canonical columns do not sum to one [{kind}; {bins_class(spec)}]", {"sum": s})
    return fails


def bins_class(spec):
    b = spec.get("bins")
    if spec.get("discrete"):
        return "discrete edge"
    if not b:
        return "no bins" if not spec.get("edge_params") else "per-edge scope"
    return f"bins:{b['mode']}"


def shape_class(tree):
    nodes = F.tree_nodes(tree)
    kids = {}
    for n, p, t in nodes:
        if p is not None:
            kids[p] = kids.get(p, 0) + 1
    mx = max(kids.values())
    return "polytomy" if mx > 2 else "binary"


# ----------------------------------------------------------------------------- enumeration
def param_vectors(terms, lattice):
    if not terms:
        return [{}]
    if len(terms) <= 2:
        return [dict(zip(terms, v)) for v in itertools.product(lattice, repeat=len(terms))]
    base = {t: BASE_VALUES[i % len(BASE_VALUES)] for i, t in enumerate(terms)}
    out = [dict(base)]
    for t in terms:
        for v in lattice:
            d = dict(base)
            d[t] = v
            out.append(d)
    for v in (lattice[0], 1.0, lattice[-1]):
        out.append({t: v for t in terms})
    return out


def base_params(terms, shift=0):
    return {t: BASE_VALUES[(i + shift) % len(BASE_VALUES)] for i, t in enumerate(terms)}


def pi_choices(name):
    kind, terms, form, eq = F.MODELS[name]
    if eq:
        return [None]
    if form == "empirical":
        n = 20
        sk = numpy.arange(1, n + 1, dtype=float)
        return [None, list(sk / sk.sum())]
    n = 4 if form == "monomer" else len(F.states_of(kind))
    out = [list(numpy.ones(n) / n)]
    if n == 4:
        out.append([0.4, 0.2, 0.1, 0.3])
        out.append([0.97, 0.01, 0.01, 0.01])
    else:
        sk = 1.0 + numpy.arange(n) % 7
        out.append(list(sk / sk.sum()))
        nd = numpy.full(n, 0.02 / (n - 1))
        nd[3 % n] = 0.98
        out.append(list(nd))
    return out


def length_vectors(edges, tier):
    E = len(edges)
    out = []
    for r in range(len(LEN_LATTICE)):
        out.append({e: LEN_LATTICE[(i + r) % len(LEN_LATTICE)] for i, e in enumerate(edges)})
    out.append({e: 0.0 for e in edges})
    out.append({e: 1e-6 for e in edges})
    out.append({e: (10.0 if i % 2 == 0 else 0.3) for i, e in enumerate(edges)})
    return out


def base_lengths(edges):
    vals = [0.3, 0.05, 1.5, 0.12, 0.7, 0.02, 0.4, 0.9]
    return {e: vals[i % len(vals)] for i, e in enumerate(edges)}


def bin_setups(terms, tier):
    out = []
    for n in (2, 4):
        for shape in (0.2, 1.0, 5.0):
            for bp in (None, [0.1, 0.9] if n == 2 else [0.1, 0.2, 0.3, 0.4]):
                out.append({"mode": "gamma", "n": n, "shape": shape, "bprobs": bp})
    # rate classes named by the user, in an order that is not the sorted one
    out.append({"mode": "gamma", "n": 2, "shape": 1.0, "bprobs": [0.3, 0.7], "names": ["slow", "fast"]})
    out.append({"mode": "rates", "n": 3, "rates": [0.2, 1.8, 3.5], "bprobs": [0.2, 0.3, 0.5], "names": ["b", "c", "a"]})
    sizes = (2, 3) if tier == "quick" else (2, 3, 4)
    for n in sizes:
        for bp in (None, [0.3, 0.7] if n == 2 else ([0.2, 0.3, 0.5] if n == 3 else [0.1, 0.2, 0.3, 0.4])):
            out.append({"mode": "free", "n": n, "bprobs": bp})
            out.append({"mode": "rates", "n": n, "rates": [0.2, 1.8, 3.5, 0.001][:n], "bprobs": bp})
            if terms:
                out.append({"mode": "ordered", "param": terms[0], "n": n, "bprobs": bp})
    return out


def symbol_sets(kind, ntips, tier):
    if kind == "nuc":
        if ntips <= 3:
            return [list(SYMS17)] * ntips
        if ntips == 4:
            return [list(SYMS7 if tier == "quick" else SYMS9)] * 4
        return [list("ACGTN")] * ntips
    if kind == "dinuc":
        extra = ["NN", "A-", "RY", "??"]
        w = F.words(2)
        if ntips == 2:
            return [w + extra, w + extra]
        return [w + extra] + [w] * (ntips - 1)
    if kind == "codon":
        extra = ["NNN", "---", "ACN", "RTT", "TAN", "???"]
        if ntips == 2:
            return [F.SENSE + extra, F.SENSE + extra]
        return [F.SENSE] * ntips
    if kind == "protein":
        if ntips == 2:
            return [list(F.AMINO + "BZX-?")] * 2
        if ntips == 3:
            return [list(F.AMINO)] * 3
        return [list(F.AMINO)] * 3 + [["W", "X", "B"]]
    raise ValueError(kind)


def lattice_for(kind, tier):
    if kind == "codon" and tier == "quick":
        return [1e-6, 3.0, 1e6]
    return PAR_LATTICE[tier]


def scope_edges(tree, tips, stem, clade):
    """edges a rule given by two tip names covers: the edge above their last common ancestor (stem) and / or every edge
    below it (clade); the documented default is the clade unless stem is asked for, then the stem alone"""
    stem = bool(stem)
    clade = (not stem) if clade is None else bool(clade)

    def find(t):
        """(node covering all tips or None, set of tips below)"""
        if isinstance(t, str):
            return (t if set(tips) <= {t} else None), {t}
        below = set()
        for k in t[1]:
            hit, b = find(k)
            if hit is not None:
                return hit, b
            below |= b
        return (t if set(tips) <= below else None), below

    node, _ = find(tree)
    if node is None or isinstance(node, str) or node[0] == "root":
        return None

    def names_below(t):
        out = []
        for k in t[1]:
            out.append(k if isinstance(k, str) else k[0])
            if not isinstance(k, str):
                out += names_below(k)
        return out

    out = []
    if clade:
        out += names_below(node)
    if stem:
        out.append(node[0])
    return out


def spec_is_directed_nuc(name, terms):
    return F.MODELS[name][0] == "nuc" and {"T>C", "C>A", "A>G"} <= set(terms)


def configs_for(name, model_kw, shape_index, ntips, tier, part):
    """all configurations of one (model variant, shape, part) cell"""
    kind, terms, form, eq = F.MODELS[name]
    tree = F.label_shape(F.rooted_shapes(ntips)[shape_index])
    edges = F.edges_of(tree)
    tips = F.tip_names(tree)
    lattice = lattice_for(kind, tier)
    common = {"model": name, "model_kw": model_kw or None, "kind": kind, "tree": tree, "tips": tips,
              "symbols": symbol_sets(kind, ntips, tier)}
    pis = pi_choices(name)
    big = kind in ("codon", "protein")
    out = []
    if part == "params":
        pvs = param_vectors(terms, lattice)
        full_product = tier == "thorough" and not big
        for i, pv in enumerate(pvs):
            for j, pi in enumerate(pis):
                # quick: every vector with one motif-prob choice (rotating), the first vector with all of them
                if full_product or i == 0 or j == i % len(pis):
                    out.append(dict(common, lengths=base_lengths(edges), params=pv, pi=pi))
    elif part == "lengths":
        pvs = [base_params(terms)]
        if terms:
            pvs.append({t: (lattice[-1] if i % 2 else lattice[0]) for i, t in enumerate(terms)})
        lpis = pis[1:] if len(pis) > 1 else pis  # equal motif probs are covered by the params part
        k = 0
        for lv in length_vectors(edges, tier):
            for pi in lpis:
                for pv in pvs:
                    for scoped in ((False, True) if terms else (False,)):
                        k += 1
                        if big and tier == "quick" and k % 4 != 1:
                            continue
                        c = dict(common, lengths=lv, params=pv, pi=pi)
                        if scoped:
                            c["edge_params"] = {e: base_params(terms, shift=n + 1) for n, e in enumerate(edges)}
                        out.append(c)
    elif part == "bins":
        if model_kw:
            return []
        seen_modes = set()
        for k, b in enumerate(bin_setups(terms, tier)):
            for j, pi in enumerate(pis[:2]):
                first = (b["mode"], b["n"]) not in seen_modes
                if j == 1 and not first and tier == "quick":
                    continue
                if big and tier == "quick" and not first and k % 3:
                    continue
                out.append(dict(common, lengths=base_lengths(edges), params=base_params(terms), pi=pi, bins=b))
            seen_modes.add((b["mode"], b["n"]))
    elif part == "options":
        pv = base_params(terms)
        pi = pis[-1] if len(pis) < 3 else pis[1]
        if not eq:
            out.append(dict(common, lengths=base_lengths(edges), params=pv, pi=pi, opt_mprobs=True))
        if not model_kw:
            for ex in ("eigen", "checked", "pade", "either"):
                out.append(dict(common, lengths=base_lengths(edges), params=pv, pi=pi, expm=ex))
            if not eq:
                # the same motif probabilities in other keyed forms: what counts is the key, not the position
                for mp_form in ("dict reversed", "DictArray reversed", "DictArray rotated"):
                    out.append(dict(common, lengths=base_lengths(edges), params=pv, pi=pi, mp_form=mp_form))
            if kind == "nuc" and ntips >= 4:
                # the same tree written with the children of every node in the opposite order (a tip before a clade with
                # many distinct site patterns, and the reverse): the order in which children are written is not part of the model
                def rev(t):
                    return t if isinstance(t, str) else (t[0], [rev(k) for k in reversed(t[1])])

                out.append(dict(common, tree=rev(tree), lengths=base_lengths(edges), params=pv, pi=pi))
            if kind == "nuc" and terms and ntips >= 4:
                term = terms[0]
                for a, b in itertools.combinations(tips, 2):
                    for stem, clade in ((True, None), (None, None), (True, True), (False, True), (None, True)):
                        es = scope_edges(tree, (a, b), stem, clade)
                        if not es:
                            continue
                        c = dict(common, lengths=base_lengths(edges), params=pv, pi=pi,
                                 edge_params={e: {term: 7.5} for e in es},
                                 scope_rule={"term": term, "tips": [a, b], "stem": stem, "clade": clade, "value": 7.5})
                        out.append(c)
            if spec_is_directed_nuc(name, terms):
                # nearly defective Q inside the parameter bounds: a one-way chain T>C>A>G with equal large rates, every
                # other rate on the lower bound; only the fallback of the default ("either") setting gets exp(Qt) right
                chain = {"T>C", "C>A", "A>G"}
                for big in (1e3, 1e6):
                    cv = {t: (big if t in chain else 1e-6) for t in terms}
                    for ex in (None, "either", "pade"):
                        c = dict(common, lengths=base_lengths(edges), params=cv, pi=pis[0])
                        if ex:
                            c["expm"] = ex
                        out.append(c)
            if kind == "nuc":
                Pd = [[0.7, 0.1, 0.1, 0.1], [0.05, 0.8, 0.05, 0.1], [0.2, 0.2, 0.5, 0.1], [0.25, 0.25, 0.25, 0.25]]
                for e in (edges[0], edges[-1]):
                    out.append(dict(common, lengths=base_lengths(edges), params=pv, pi=pi, discrete={e: Pd}))
    elif part == "codon3":
        common["repeat_step"] = 997
        lv = {e: [0.3, 0.0, 1e-6, 0.7][i % 4] for i, e in enumerate(edges)}
        out.append(dict(common, lengths=base_lengths(edges), params=base_params(terms), pi=pis[1]))
        out.append(dict(common, lengths=lv, params={t: (1e6 if i % 2 else 1e-6) for i, t in enumerate(terms)}, pi=pis[2],
                        edge_params={edges[0]: base_params(terms, 3)}))
    return out


BIN_MODELS = ("HKY85", "GN", "JC69", "U_NUC_NS", "GTR", "U_DINUC_M", "JTT92", "MG94HKY", "GNC")


def golden_code(gc):
    import json
    import os

    path = os.path.join(os.path.dirname(os.path.dirname(os.path.dirname(os.path.abspath(__file__)))), "data", "ncbi_codes.json")
    return next(c["aa"] for c in json.load(open(path))["codes"] if c["id"] == gc)


def run_genetic_codes(spec, acc, tier):
    """codon models under several genetic codes built one after the other in the same process (standard, vertebrate
    mitochondrial, standard again, yeast mitochondrial): each must match the oracle for *its* code. A cache of codon
    properties shared between models of different codes is invisible when only one code is used per process."""
    for i, gc in enumerate(spec["order"]):
        with F.genetic_code(golden_code(gc)):
            kw = {"gc": gc} if gc != 1 else {}
            cfgs = configs_for(spec["model"], kw, 0, 2, tier, "params")
            for c in cfgs[:: max(1, len(cfgs) // 3)][:3]:
                # the history is part of the case: models of these codes were built earlier in the process
                check_config(dict(c, built_before=spec["order"][:i]), acc)
    acc.sample({"genetic_codes_in_one_process": spec["order"], "model": spec["model"]}, "gcodes")


def run_site_hmm(spec, acc):
    """rate classes joined along the alignment by the site HMM (sites_independent=False): lnL against the forward
    algorithm over per-class column likelihoods, on a star tree with so many saturated tips that every column likelihood is
    far below the rescaling constant of the implementation (2**-100).  Equal class probabilities only: for unequal ones the
    implementation and the forward recursion differ by which side the switch matrix is applied from, which is not judged."""
    from cogent3 import get_model, make_aligned_seqs, make_tree

    ntips, ncol, sw = spec["ntips"], spec["ncol"], spec["switch"]
    names = [f"t{i}" for i in range(ntips)]
    length = spec["length"]
    # every column holds all four bases in (nearly) equal numbers: no column is likely
    seqs = {n: "".join("ACGT"[(i + j * (1 + i % 3)) % 4] for j in range(ncol)) for i, n in enumerate(names)}
    case = {"part": "sitehmm", **spec}
    acc.case(case, nontrivial=True)
    try:
        aln = make_aligned_seqs(seqs, moltype="dna")
        star = lambda f: make_tree("(" + ",".join(f"{n}:{length * f}" for n in names) + ");")  # noqa: E731
        lf = get_model("HKY85", ordered_param="rate", distribution="gamma").make_likelihood_function(star(1.0), bins=2, sites_independent=False)
        lf.set_alignment(aln)
        lf.set_param_rule("kappa", value=2.0, is_constant=True)
        lf.set_param_rule("rate_shape", value=1.0, is_constant=True)
        lf.set_param_rule("bin_switch", value=sw, is_constant=True)
        got = float(lf.lnL)
        rates = [float(lf.get_param_value("rate", bin=b)) for b in ("bin0", "bin1")]
        bp = numpy.asarray(lf.get_param_value("bprobs"), float)
        mp = lf.get_motif_probs()
        L = []
        for r in rates:
            one = get_model("HKY85").make_likelihood_function(star(r))
            one.set_motif_probs(mp)
            one.set_alignment(aln)
            one.set_param_rule("kappa", value=2.0, is_constant=True)
            L.append(numpy.asarray(one.get_full_length_likelihoods(), float))
    except Exception as e:  # noqa: BLE001
        acc.fail(f"site-HMM likelihood function raised {type(e).__name__}", case, {"error": str(e)[:300]})
        return
    L = numpy.array(L)
    T = (1 - sw) * numpy.eye(2) + sw * numpy.outer(numpy.ones(2), bp)
    alpha, want = bp * L[:, 0], 0.0
    for i in range(1, ncol + 1):
        tot = alpha.sum()
        want += math.log(tot)
        alpha = alpha / tot
        if i < ncol:
            alpha = (alpha @ T) * L[:, i]
    acc.outcome(("sitehmm", round(want, 3), bool(L.max() < 2.0 ** -100)))
    acc.count("columns_compared", ncol)
    if not (math.isfinite(got) and abs(got - want) <= 1e-9 * abs(want)):
        acc.fail(f"site-HMM lnL differs from the forward algorithm over the per-class column likelihoods [column likelihoods below 2**-100: {bool(L.max() < 2.0 ** -100)}]",
                 case, {"got": got, "want": want, "largest column likelihood": float(L.max())})
    acc.sample({"site_hmm": True, **spec}, "sitehmm")


BPROBS3 = [(0.5, 0.25, 0.25), (0.5, 0.1, 0.4), (0.5, 0.4, 0.1), (0.5, 0.25, 0.25)]


def run_site_hmm3(spec, acc):
    """three named rate classes that differ by a per-class kappa, joined by the site HMM (two patches: the first class / the
    other two).  One function is evaluated, then only the class probabilities are changed, again and again: every lnL against
    the forward algorithm over the two patches and against a fresh function given the same values before its first
    evaluation.  The patch probabilities stay equal (see run_site_hmm on why)."""
    from cogent3 import get_model, make_aligned_seqs, make_tree

    ncol, sw = spec["ncol"], spec["switch"]
    names = ["a", "b", "c", "d"]
    seqs = {n: "".join("ACGT"[(i * 3 + j * (1 + i % 3) + (j // 7) * i) % 4] for j in range(ncol)) for i, n in enumerate(names)}
    tree = "((a:0.3,b:0.2):0.1,c:0.4,d:0.25)"
    bins = ["low", "mid", "high"]
    kappas = {"low": 0.5, "mid": 2.0, "high": 8.0}
    mp = {"A": 0.3, "C": 0.2, "G": 0.25, "T": 0.25}
    case = {"part": "sitehmm3", **spec}
    acc.case(case, nontrivial=True)

    def build(bp):
        lf = get_model("HKY85").make_likelihood_function(make_tree(tree), bins=bins, sites_independent=False)
        lf.set_motif_probs(mp)
        for b, k in kappas.items():
            lf.set_param_rule("kappa", bin=b, value=k, is_constant=True)
        lf.set_param_rule("bin_switch", value=sw, is_constant=True)
        lf.set_param_rule("bprobs", init=numpy.array(bp))
        lf.set_alignment(aln)
        return lf

    try:
        aln = make_aligned_seqs(seqs, moltype="dna")
        L = []
        for b in bins:
            one = get_model("HKY85").make_likelihood_function(make_tree(tree))
            one.set_motif_probs(mp)
            one.set_alignment(aln)
            one.set_param_rule("kappa", value=kappas[b], is_constant=True)
            L.append(numpy.asarray(one.get_full_length_likelihoods(), float))
        L = numpy.array(L)
        lf = build(BPROBS3[0])
        for step, bp in enumerate(BPROBS3):
            if step:
                lf.set_param_rule("bprobs", init=numpy.array(bp))
            got = float(lf.lnL)
            fresh = float(build(bp).lnL)
            pp = numpy.array([bp[0], bp[1] + bp[2]])
            PL = numpy.array([L[0], (bp[1] * L[1] + bp[2] * L[2]) / pp[1]])
            T = (1 - sw) * numpy.eye(2) + sw * numpy.outer(numpy.ones(2), pp)
            alpha, want = pp * PL[:, 0], 0.0
            for i in range(1, ncol + 1):
                tot = alpha.sum()
                want += math.log(tot)
                alpha = alpha / tot
                if i < ncol:
                    alpha = (alpha @ T) * PL[:, i]
            acc.outcome(("sitehmm3", step, round(want, 3)))
            acc.count("columns_compared", ncol)
            if not (math.isfinite(fresh) and abs(fresh - want) <= 1e-9 * abs(want)):
                acc.fail("site-HMM lnL of three classes with their own kappa differs from the forward algorithm over the two patches [fresh function]",
                         dict(case, bprobs=list(bp)), {"got": fresh, "want": want})
            elif not (math.isfinite(got) and abs(got - want) <= 1e-9 * abs(want)):
                acc.fail("site-HMM lnL after only the class probabilities were changed differs from a fresh function with the same values",
                         dict(case, bprobs=list(bp), step=step), {"got": got, "fresh": fresh, "want": want})
    except Exception as e:  # noqa: BLE001
        acc.fail(f"site-HMM likelihood function with three classes raised {type(e).__name__}", case, {"error": str(e)[:300]})
        return
    acc.sample({"site_hmm_three_classes": True, **spec, "bprobs": [list(b) for b in BPROBS3]}, "sitehmm3")


def shards(tier, seed):
    heavy, out = [], []
    for sw in (1.0, 0.3):
        out.append({"part": "sitehmm3", "family": "nuc", "ncol": 40, "switch": sw})
    for ntips, length in ((4, 0.3), (80, 3.0)):
        for sw in (1.0, 0.3):
            out.append({"part": "sitehmm", "family": "nuc", "ntips": ntips, "ncol": 60, "length": length, "switch": sw})
    # codon models first: they are the longest shards (61 states, model construction 1-4 s per process)
    for name in F.CODON_MODELS + [n for n in CUSTOM if F.MODELS[n][0] == "codon"]:
        for part in ("params", "lengths", "bins", "options"):
            if part == "bins" and name not in BIN_MODELS:
                continue
            if name in CUSTOM and part not in ("params", "lengths"):
                continue
            nsplit = 1
            if part == "params":
                nsplit = 2 if tier == "quick" else 6
            elif part == "lengths" and tier == "thorough":
                nsplit = 6
            for c in range(nsplit):
                heavy.append({"family": "codon", "model": name, "kw": {}, "ntips": 2, "shape": 0, "part": part,
                              "chunk": c, "of": nsplit})
        if tier == "thorough" and name not in CUSTOM:
            for si in range(2):
                heavy.append({"family": "codon", "model": name, "kw": {}, "ntips": 3, "shape": si, "part": "codon3"})
    tipsets = [2, 3, 4] if tier == "quick" else [2, 3, 4, 5]
    for name, kw in NUC_VARIANTS + [(n, {}) for n in CUSTOM if F.MODELS[n][0] == "nuc"]:
        for nt in reversed(tipsets):
            for si in range(len(F.rooted_shapes(nt))):
                parts = ["params", "lengths", "bins", "options"] if nt < 5 else ["params", "lengths"]
                for part in parts:
                    if part == "bins" and (kw or name not in BIN_MODELS):
                        continue
                    out.append({"family": "nuc", "model": name, "kw": kw, "ntips": nt, "shape": si, "part": part})
    for name in [n for n in CUSTOM if F.MODELS[n][0] == "dinuc"]:
        for nt in ([2] if tier == "quick" else [2, 3]):
            for si in range(len(F.rooted_shapes(nt))):
                for part in ("params", "lengths", "bins", "options"):
                    if part == "bins" and name not in BIN_MODELS:
                        continue
                    out.append({"family": "dinuc", "model": name, "kw": {}, "ntips": nt, "shape": si, "part": part})
    for name in F.PROTEIN_MODELS:
        for nt in ([2, 3] if tier == "quick" else [2, 3, 4]):
            for si in range(len(F.rooted_shapes(nt))):
                for part in ("params", "lengths") + (("bins", "options") if nt == 2 else ()):
                    if part == "bins" and name not in BIN_MODELS:
                        continue
                    if nt == 4 and (part != "params" or si not in (2, 3)):
                        continue
                    out.append({"family": "protein", "model": name, "kw": {}, "ntips": nt, "shape": si, "part": part})
    for name in (("MG94HKY", "GY94") if tier == "quick" else ("MG94HKY", "GY94", "CNFGTR", "H04G")):
        heavy.append({"family": "codon", "model": name, "part": "gcodes", "order": [1, 12, 1, 26]})
        heavy.append({"family": "codon", "model": name, "part": "gcodes", "order": [12, 1]})
    out = heavy + out
    for s in out:
        s["tier"] = tier
    return out


def shard_configs(spec, tier):
    cfgs = configs_for(spec["model"], spec["kw"], spec["shape"], spec["ntips"], tier, spec["part"])
    if spec.get("of", 1) > 1:
        cfgs = [c for i, c in enumerate(cfgs) if i % spec["of"] == spec["chunk"]]
    return cfgs


def run_shard(spec, acc):
    if spec["part"] == "sitehmm3":
        run_site_hmm3({k: spec[k] for k in ("ncol", "switch")}, acc)
        return
    if spec["part"] == "sitehmm":
        run_site_hmm({k: spec[k] for k in ("ntips", "ncol", "length", "switch")}, acc)
        return
    if spec["part"] == "gcodes":
        run_genetic_codes(spec, acc, spec["tier"])
        return
    for cfg in shard_configs(spec, spec["tier"]):
        fails = check_config(cfg, acc)
        acc.outcome((cfg["model"], bins_class(cfg), bool(fails)))
        if spec["part"] in ("params", "bins"):
            acc.sample({k: cfg[k] for k in ("model", "tree", "lengths", "params", "bins") if k in cfg}
                       | {"n_columns": len(columns_for(cfg))}, f"{spec['family']}-{spec['part']}")


def replay(case):
    from vf.kernel.runner import Acc

    acc = Acc()
    if case.get("part") == "sitehmm3":
        run_site_hmm3({k: case[k] for k in ("ncol", "switch")}, acc)
        return [(sig, rec["cases"][0]["detail"]) for sig, rec in acc.failures.items()]
    if case.get("part") == "sitehmm":
        run_site_hmm({k: case[k] for k in ("ntips", "ncol", "length", "switch")}, acc)
        return [(sig, rec["cases"][0]["detail"]) for sig, rec in acc.failures.items()]
    for g in case.get("built_before") or []:
        make_model(case["model"], {"gc": g} if g != 1 else {})  # re-create the history of the recorded case
    gc = (case.get("model_kw") or {}).get("gc")
    if gc:
        with F.genetic_code(golden_code(gc)):
            return check_config(case, acc, report=False)
    return check_config(case, acc, report=False)


LEVEL_TEXT = (
    "Bounded exhaustive exploration on the real likelihood function: for every configuration of the stated lattice "
    "(all named continuous-time models incl. the solved nucleotide path, user-built nucleotide / dinucleotide predicate models, "
    "every tree shape up to the tip bound incl. polytomies, branch-length / parameter / motif-probability lattices incl. the declared "
    "bounds, global and per-edge scopes, gamma / free / explicit / ordered rate classes, discrete edges, every expm setting) an alignment "
    "holding EVERY column over the symbol set (incl. all IUPAC degenerate symbols, gap and '?') is evaluated and each column's likelihood, "
    "each Q and P, lnL and the sum over all columns are compared with an independent brute-force oracle (own predicates, scipy expm, "
    "explicit sum over all internal-state assignments). Complete inside the bounds; a continuum is not covered between lattice points."
)
LEVEL_NOTE = (
    "Trusted: numpy, scipy.linalg.expm, scipy.stats.gamma, the ~300-line oracle in vf/models/felsenstein.py (standard genetic code, "
    "published model definitions; empirical protein tables are the shipped PAML constants). Tolerances in the assumptions."
)
