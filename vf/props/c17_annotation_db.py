"""C17 - annotation databases return exactly the records a linear scan selects.

Three parts, all enumerated completely inside the recorded bounds:

* query (K2): one *universal* db per class (Basic / Gff / Genbank) holding the whole record lattice
  (every single span and every ordered pair of disjoint spans on a short coordinate line x strand x
  biotype x name x seqid x attribute tag), the native table of the Gff / Genbank classes being filled by
  load_annotations from generated GFF3 / GenBank text.  It is queried with the full cross-product of
  seqid x biotype (scalar / tuple) x name (exact / pattern) x strand x attributes x start x stop x
  allow_partial through get_records_matching, get_features_matching, num_matches, subset and
  count_distinct.  SQL WHERE clauses are evaluated row by row, so a db that holds every row is a universal
  witness for every smaller record set.
* text (K2): every span shape x strand rendered as GFF3 line(s) and as every GenBank location spelling
  (a..b, single base, complement(), join(), complement(join()), join(complement()), < and > markers)
  and parsed back: 1-based closed -> 0-based half-open.
* history (K1): breadth-first search over histories of add / update / union / subset / deepcopy / pickle /
  rich-dict and json round trip / write + reload, on dbs of <= 3 records (with duplicates), multiset
  equality with a list model after every operation plus a differential comparison with a fresh db built
  from the model value.

Oracle: a linear scan over the list of records with extent-based window tests (a record's window is
[min start, max stop) of its spans, the documented meaning of the start / stop columns).
"""

from __future__ import annotations

import copy
import itertools
import json
import os
import pickle
import re
import tempfile

PID = "C17"
LEVEL = "model_checking"
TECHNIQUE = "universal-db query cross-product and BFS over db operation histories against a linear-scan / multiset model"
RULE = (
    "query: every query argument combination (seqid x biotype x name x strand x attributes x start x stop x allow_partial) on "
    "a db holding the whole record lattice, per class and entry point, enumerated once; non-trivial = the linear scan selects "
    "at least one and not all records.  text: every span shape x strand x spelling.  history: every operation sequence up to "
    "the depth bound from every initial db, de-duplicated on (class, multiset of records per table); non-trivial = the db is non-empty"
)
ASSUMPTIONS = [
    "a record's window is [min start, max stop) of its spans; two-sided query windows are judged only when proper (start < stop)",
    "allow_partial=True: window and extent overlap; False: extent inside the window; only start (stop) given: the extent contains that position (as documented in the code)",
    "name / attributes patterns use only the % wildcard on lower-case text; an `attributes` argument is a substring test on the stored text",
    "strand is compared literally with the stored value",
    "GFF rows sharing an ID are one record (documented merge); native GFF names are therefore unique per record",
    "update / union between unrelated classes must raise TypeError (documented); update from a super-class db likewise",
    "SQLite evaluates WHERE row by row (universal-witness argument)",
]
EXHAUSTIVE = True
SHARD_TIMEOUT = {"quick": 900, "thorough": 3600}


def bounds(tier):
    return {
        "quick": {"line": 3, "window_values": "None,0..4", "classes": 3, "history_depth": 3, "history_max_records": 2,
                  "text_line": 6},
        "thorough": {"line": 5, "window_values": "None,0..6", "classes": 3, "history_depth": 4, "history_max_records": 3,
                     "text_line": 8},
    }[tier]


CLASSES = ("Basic", "Gff", "Genbank")
NATIVE = {"Basic": None, "Gff": "gff", "Genbank": "gb"}
TAG = "Note=x"


def db_class(name):
    from cogent3.core import annotation_db as adb

    return {"Basic": adb.BasicAnnotationDb, "Gff": adb.GffAnnotationDb, "Genbank": adb.GenbankAnnotationDb}[name]


def call(f, *a, **k):
    try:
        return ("ok", f(*a, **k))
    except Exception as e:  # noqa: BLE001 - exceptions are outcomes
        return ("err", type(e).__name__)


# ----------------------------------------------------------------------------- record lattice and the model
def shapes(line):
    """every single span and every ordered pair of disjoint (possibly abutting) spans on 0..line"""
    out = []
    for a in range(line):
        for b in range(a + 1, line + 1):
            out.append(((a, b),))
    for a, b, c, d in itertools.product(range(line + 1), repeat=4):
        if a < b <= c < d:
            out.append(((a, b), (c, d)))
    return out


def overlap_shapes(line):
    """ordered pairs of spans of one multi-row GFF feature that overlap or nest (legal in GFF3: e.g. a segment inside another);
    the earlier-starting segment may end later, so the record's extent is not its last segment's end"""
    out = []
    for a, b, c, d in itertools.product(range(line + 1), repeat=4):
        if a < b and c < d and a <= c < b and (a, b) != (c, d):
            out.append(((a, b), (c, d)))
    return out


def rec(table, seqid, biotype, name, spans, strand, tag):
    spans = tuple(sorted(tuple(s) for s in spans))
    return {"table": table, "seqid": seqid, "biotype": biotype, "name": name, "spans": spans, "strand": strand,
            "tag": bool(tag), "start": min(s[0] for s in spans), "stop": max(s[1] for s in spans)}


def lattice(line, table, unique_names=False, shape_list=None):
    out = []
    k = 0
    for sh in shape_list if shape_list is not None else shapes(line):
        for strand, biotype, name, seqid, tag in itertools.product("+-", ("gene", "cds"), ("n1", "n2"), ("s1", "s2"), (False, True)):
            nm = f"{name}x{k}" if unique_names else name
            out.append(rec(table, seqid, biotype, nm, sh, strand, tag))
            k += 1
    return out


def like(pattern, text):
    """a value containing '%' is documented to be a pattern and is matched by SQLite's LIKE, whose semantics are taken as
    given: '%' = any run, '_' = any one character, ASCII case-insensitive.  A value without '%' is an exact match."""
    rx = "".join(".*" if c == "%" else "." if c == "_" else re.escape(c) for c in pattern)
    return re.fullmatch(rx, text, flags=re.S | re.I) is not None


def attr_text(r):
    """what the attributes column of the record's table contains (None = NULL)"""
    if r["table"] == "user":
        return TAG if r["tag"] else None
    if r["table"] == "gff":
        # tagged rows also carry a lower-case key that ends in "id" before the real ID (Ensembl style)
        return (f"exon_id=E1;ID={r['name']};{TAG}" if r["tag"] else f"ID={r['name']}")
    return ("note " + TAG) if r["tag"] else "gene"  # gb: a json text that holds the note iff tagged


def selects(r, q):
    """linear-scan predicate: does query q select record r?"""
    for col in ("seqid", "biotype", "name", "strand"):
        v = q.get(col)
        if v is None:
            continue
        rv = r[col]
        if isinstance(v, (tuple, list)):
            ok = rv in v
        elif "%" in v:
            ok = rv is not None and like(v, rv)
        else:
            ok = rv == v
        if not ok:
            return False
    a = q.get("attributes")
    if a is not None:
        t = attr_text(r)
        if t is None or a not in t:
            return False
    qs, qe = q.get("start"), q.get("stop")
    rs, re_ = r["start"], r["stop"]
    if qs is not None and qe is not None:
        if q.get("allow_partial"):
            return rs < qe and re_ > qs
        return rs >= qs and re_ <= qe
    if qs is not None:
        return rs <= qs < re_
    if qe is not None:
        return rs <= qe < re_
    return True


def key_of_model(r, with_tag=True):
    return (r["seqid"], r["biotype"], r["name"], r["spans"], r["strand"]) + ((r["tag"],) if with_tag else ())


def key_of_row(row, with_tag=True):
    spans = tuple(tuple(int(x) for x in s) for s in row["spans"])
    k = (row["seqid"], row["biotype"], row["name"], spans, row["strand"])
    if with_tag:
        a = row.get("attributes")
        if isinstance(a, dict):
            a = json.dumps(a)
        k += (bool(a) and TAG in a,)
    return k


# ----------------------------------------------------------------------------- text rendering
def gff_lines(r):
    out = []
    strand = r["strand"] or "."
    attrs = f"exon_id=E1;ID={r['name']};{TAG}" if r["tag"] else f"ID={r['name']}"
    for a, b in r["spans"]:
        out.append("\t".join([r["seqid"], "vf", r["biotype"], str(a + 1), str(b), ".", strand, ".", attrs]))
    return out


def gb_location(spans, strand, form=0, partial=False):
    """GenBank location text of 0-based half-open spans (1-based closed in the text)"""
    def seg(a, b, first=False, last=False):
        lo, hi = a + 1, b
        if lo == hi and form % 2 == 0 and not partial:
            return str(lo)
        return ("<" if partial and first else "") + str(lo) + ".." + (">" if partial and last else "") + str(hi)

    n = len(spans)
    segs = [seg(a, b, i == 0, i == n - 1) for i, (a, b) in enumerate(spans)]
    if strand == "mixed":
        assert n == 2
        return f"join(complement({segs[0]}),{segs[1]})" if form % 2 == 0 else f"join({segs[0]},complement({segs[1]}))"
    if strand == "-":
        if n == 1:
            return f"complement({segs[0]})"
        if form % 2 == 0:
            return "complement(join(" + ",".join(segs) + "))"
        return "join(" + ",".join(f"complement({s})" for s in reversed(segs)) + ")"
    return segs[0] if n == 1 else "join(" + ",".join(segs) + ")"


def gb_text(seqid, records):
    lines = [f"LOCUS       {seqid}                        60 bp    DNA     linear   BCT 01-JAN-2000", "FEATURES             Location/Qualifiers"]
    for i, r in enumerate(records):
        lines.append(f"     {r['biotype']:<16}{gb_location(r['spans'], 'mixed' if r.get('mixed') else r['strand'], form=i, partial=r['tag'] and i % 3 == 0 and not r.get('mixed'))}")
        lines.append(f'                     /gene="{r["name"]}"')
        if r["tag"]:
            lines.append(f'                     /note="{TAG}"')
    lines += ["ORIGIN", "        1 acgtacgtac gtacgtacgt acgtacgtac gtacgtacgt acgtacgtac gtacgtacgt", "//", ""]
    return "\n".join(lines)


# ----------------------------------------------------------------------------- building real dbs from model records
def _tmp(suffix):
    fd, path = tempfile.mkstemp(suffix=suffix, dir=tempfile.gettempdir())
    os.close(fd)
    os.remove(path)
    return path


def add_user(db, r, flip=False):
    spans = [list(s) for s in r["spans"]]
    if flip:
        spans.reverse()
    db.add_feature(seqid=r["seqid"], biotype=r["biotype"], name=r["name"], spans=spans, strand=r["strand"],
                   attributes=TAG if r["tag"] else None)


def build_db(cls, records, via_text=True, block=None):
    """a fresh real db of class cls holding exactly the model records.

    via_text: native rows come in through load_annotations on generated GFF3 / GenBank text; otherwise through the
    class constructor's `data` argument (parsed rows / feature dicts)."""
    import io

    from cogent3.core.annotation_db import load_annotations

    native = [r for r in records if r["table"] != "user"]
    db = None
    if native:
        assert all(r["table"] == NATIVE[cls] for r in native)
        if cls == "Gff":
            text = "##gff-version 3\n" + "\n".join(l for r in native for l in gff_lines(r)) + "\n"
            if via_text:
                path = _tmp(".gff3")
                with open(path, "w") as f:
                    f.write(text)
                # block: the number of text lines handed to the parser at a time; rows of one feature may straddle blocks
                db = load_annotations(path=path) if block is None else load_annotations(path=path, lines_per_block=block)
                os.remove(path)
            else:
                from cogent3.parse.gff import gff_parser

                db = db_class(cls)(data=list(gff_parser(io.StringIO(text), attribute_parser=lambda *a: a[0], gff3=True)))
        else:
            for seqid in sorted({r["seqid"] for r in native}):
                rows = [r for r in native if r["seqid"] == seqid]
                if via_text:
                    path = _tmp(".gb")
                    with open(path, "w") as f:
                        f.write(gb_text(seqid, rows))
                    db = load_annotations(path=path, db=db)
                    os.remove(path)
                else:
                    from cogent3.parse.genbank import location_line_tokenizer, parse_location_line

                    data = []
                    for i, r in enumerate(rows):
                        loc = parse_location_line(location_line_tokenizer([gb_location(r["spans"], r["strand"], form=i)]))
                        feat = {"type": r["biotype"], "location": loc, "gene": [r["name"]]}
                        if r["tag"]:
                            feat["note"] = [TAG]
                        data.append(feat)
                    db = db_class(cls)(data=data, seqid=seqid, db=db)
    if db is None:
        db = db_class(cls)()
    for i, r in enumerate(records):
        if r["table"] == "user":
            add_user(db, r, flip=i % 2 == 1)
    return db


def all_rows(db):
    return sorted(key_of_row(r) + (("user",) if "on_alignment" in r else ("native",)) for r in db.get_records_matching())


def model_rows(records):
    return sorted(key_of_model(r) + (("user",) if r["table"] == "user" else ("native",)) for r in records)


# ----------------------------------------------------------------------------- part: query
USER_SHAPES = [((1, 3),), ((0, 1), (2, 4)), ((1, 2), (2, 3)), ((0, 4), (1, 2))]  # the last one nests: its extent is not its last span's end
NESTED_SHAPES = [((0, 4), (1, 2)), ((0, 3), (0, 1))]


def universe(cls, line):
    if cls == "Basic":
        return lattice(line, "user") + [dict(r, name=r["name"] + "ns") for r in lattice(line, "user", shape_list=NESTED_SHAPES)]
    extra = []
    if cls == "Gff":
        # multi-row GFF features whose segments overlap / nest: the record's extent is not its last segment's end
        ov = [sh for sh in overlap_shapes(line) if sh[0][1] > sh[1][1]][:12] + [sh for sh in overlap_shapes(line) if sh[0][1] <= sh[1][1]][:6]
        extra = [dict(r, name=r["name"] + "ov") for r in lattice(line, NATIVE[cls], unique_names=True, shape_list=ov)]
    return lattice(line, NATIVE[cls], unique_names=cls == "Gff") + extra + lattice(line, "user", shape_list=USER_SHAPES)


def query_axes(cls, line):
    names = [None, "n1", "n1%", "%2"] if cls != "Gff" else [None, "n1", "n1%", "%2", "n1x0"]
    return {
        "seqid": [None, "s1", "s3"],
        "biotype": [None, "gene", ("gene", "cds")],
        "name": names,
        "strand": [None, "+", "-"],
        "attributes": [None, TAG],
        "window": [(s, e, p) for s in [None] + list(range(line + 2)) for e in [None] + list(range(line + 2)) for p in (False, True)],
    }


def window_class(s, e, p):
    if s is None and e is None:
        return "no window"
    if s is None:
        return "stop only"
    if e is None:
        return "start only"
    return f"start and stop, allow_partial={p}"


def run_queries(acc, cls, line, seqid_i, biotype_i, name_i, only=None):
    ax = query_axes(cls, line)
    records = universe(cls, line)
    db = build_db(cls, records)
    case0 = {"part": "query", "cls": cls, "line": line}
    got_all = call(all_rows, db)
    if got_all != ("ok", model_rows(records)):
        acc.fail(f"{cls}AnnotationDb: loaded universal db differs from the record lattice", case0,
                 {"got": len(got_all[1]) if got_all[0] == "ok" else got_all, "want": len(records)})
        return
    seqid, biotype, name = ax["seqid"][seqid_i], ax["biotype"][biotype_i], ax["name"][name_i]
    for strand, attributes, (s, e, p) in itertools.product(ax["strand"], ax["attributes"], ax["window"]):
        if s is not None and e is not None and s >= e:
            continue  # empty / inverted windows have no stated meaning
        if (s is None or e is None) and p:
            continue  # allow_partial is meaningless without a two-sided window: enumerated once
        q = {"seqid": seqid, "biotype": biotype, "name": name, "strand": strand, "attributes": attributes,
             "start": s, "stop": e, "allow_partial": p}
        if only is not None and q != only:
            continue
        check_query(acc, cls, db, records, q, case0)


CONFUSABLE = ["s_1", "sa1", "S_1", "s%1"]  # '_' and '%' are SQL LIKE wildcards; LIKE ignores ASCII case


def confusable_records():
    out = []
    for seqid in CONFUSABLE[:3]:
        for name in ("n_1", "na1", "N_1"):
            for strand in "+-":
                out.append(rec("user", seqid, "gene", name, ((1, 3),), strand, False))
    return out


def run_confusable(acc, cls, only=None):
    """identifiers that an SQL pattern match would confuse: an exact (wildcard-free) query value must match exactly"""
    records = confusable_records()
    db = build_db(cls, records)
    case0 = {"part": "confusable", "cls": cls}
    for seqid in [None] + CONFUSABLE:
        for name in (None, "n_1", "na1", "N_1", "n%1"):
            for strand in (None, "+"):
                q = {"seqid": seqid, "biotype": None, "name": name, "strand": strand, "attributes": None, "start": None, "stop": None, "allow_partial": False}
                if only is not None and q != only:
                    continue
                check_query(acc, cls, db, records, q, case0)
    acc.sample({"confusable identifiers": CONFUSABLE[:3], "names": ["n_1", "na1", "N_1"], "class": cls}, "confusable")


def _kwargs(q):
    kw = {k: v for k, v in q.items() if v is not None and k != "allow_partial"}
    if q["start"] is not None and q["stop"] is not None:
        kw["allow_partial"] = q["allow_partial"]
    return kw


def _diff(got, want):
    from collections import Counter

    g, w = Counter(got), Counter(want)
    return {"extra": [list(map(str, k)) for k in list((g - w))[:3]], "missing": [list(map(str, k)) for k in list((w - g))[:3]],
            "n_got": len(got), "n_want": len(want)}


def eval_op(op, db, records, q):
    """run one reading entry point for query q -> None (agrees with the scan) | (what, got, want)"""
    kw = _kwargs(q)
    sel = [r for r in records if selects(r, q)]
    if op in ("get_records_matching", "get_features_matching", "subset"):
        tag = op != "get_features_matching"
        if op == "subset":
            r = call(lambda: sorted(key_of_row(x) for x in db.subset(**kw).get_records_matching()))
        else:
            def read():
                rows = list(getattr(db, op)(**kw))
                keys = sorted(key_of_row(x, with_tag=tag) for x in rows)
                # what a query hands out belongs to the caller: editing it in place must not reach any later answer
                for x in rows:
                    sp = x.get("spans") if hasattr(x, "get") else None
                    if hasattr(sp, "flags") and sp.flags.writeable and sp.size:
                        sp += 1000
                return keys

            r = call(read)
        want = sorted(key_of_model(x, with_tag=tag) for x in sel)
        if r[0] != "ok":
            return (f"raised {r[1]}", r[1], len(want))
        if r[1] != want:
            d = _diff(r[1], want)
            what = "selects a record the scan rejects" if d["extra"] and not d["missing"] else (
                "misses a record the scan selects" if d["missing"] and not d["extra"] else "records differ")
            return (what, d, None)
        return None
    if op == "num_matches":
        r = call(db.num_matches, **{k: v for k, v in kw.items() if k != "allow_partial"})
        if r != ("ok", len(sel)):
            return ("count" if r[0] == "ok" else f"raised {r[1]}", r[1], len(sel))
        return None
    raise ValueError(op)


def minimal_class(op, db, records, q, what):
    """drop query conditions one at a time while the same failure persists -> structural class of the smallest failing query"""
    q = dict(q)
    for col in ("seqid", "biotype", "name", "strand", "attributes"):
        if q[col] is None:
            continue
        q2 = dict(q, **{col: None})
        r = eval_op(op, db, records, q2)
        if r and r[0] == what:
            q = q2
    if op != "num_matches" and (q["start"] is not None or q["stop"] is not None):
        for q2 in (dict(q, start=None, stop=None, allow_partial=False), dict(q, start=None, allow_partial=False), dict(q, stop=None, allow_partial=False)):
            if (q2["start"], q2["stop"]) == (q["start"], q["stop"]):
                continue
            r = eval_op(op, db, records, q2)
            if r and r[0] == what:
                q = q2
                break
    return query_class(q, what)


def query_class(q, what):
    """structural class of a query: which kind of window, which kinds of column conditions"""
    cols = []
    for col in ("seqid", "biotype", "name", "strand", "attributes"):
        v = q.get(col)
        if v is not None:
            cols.append(col + (" tuple" if isinstance(v, (tuple, list)) else (" pattern" if "%" in v and col != "attributes" else "")))
    if what.startswith("raised"):
        w = "no window" if q.get("start") is None and q.get("stop") is None else "window given"
    else:
        w = window_class(q.get("start"), q.get("stop"), q.get("allow_partial", False))
    return w + "; column conditions: " + (", ".join(cols) or "none")


def check_query(acc, cls, db, records, q, case0):
    nsel = sum(1 for r in records if selects(r, q))
    nt = 0 < nsel < len(records)
    case = dict(case0, q={k: (list(v) if isinstance(v, tuple) else v) for k, v in q.items()})
    ops = ["get_records_matching", "get_features_matching", "subset"]
    if q["start"] is None and q["stop"] is None:
        ops.append("num_matches")
    acc.outcome(("n", nsel))
    for op in ops:
        acc.case((op, cls, str(q)), nontrivial=nt)
        r = eval_op(op, db, records, q)
        if r:
            what, got, want = r
            acc.fail(f"{op}: {what} [{minimal_class(op, db, records, q, what)}]", dict(case, op=op), {"got": got, "want": want})


def check_count_distinct(acc, cls, line):
    from collections import Counter

    records = universe(cls, line)
    db = build_db(cls, records)
    case0 = {"part": "count_distinct", "cls": cls, "line": line}
    for flags in itertools.product((False, True), repeat=3):
        for cons in ({}, {"seqid": "s1"}, {"biotype": "gene"}, {"name": "n1"}):
            args = dict(zip(("seqid", "biotype", "name"), flags))
            args.update(cons)
            counted = [k for k, v in args.items() if v is True]
            acc.case(("count_distinct", cls, str(args)))
            r = call(db.count_distinct, **args)
            if not counted:
                if r != ("ok", None):
                    acc.fail("count_distinct: value [no column requested]", dict(case0, args=args), {"got": str(r)[:100], "want": None})
                continue
            if r[0] != "ok":
                acc.fail(f"count_distinct: raised {r[1]}", dict(case0, args=args), {"got": r[1]})
                continue
            t = r[1]
            got = Counter()
            for row in t.to_list() if t.shape[0] else []:
                d = dict(zip(t.header, row))
                got[tuple(d[c] for c in counted)] += int(d["count"])
            want = Counter(tuple(x[c] for c in counted) for x in records if all(x[k] == v for k, v in cons.items()))
            acc.outcome(("cd", len(got)))
            if got != want:
                acc.fail("count_distinct: counts", dict(case0, args=args), {"got": sorted(got.items())[:4], "want": sorted(want.items())[:4]})


# ----------------------------------------------------------------------------- part: text
def check_text(acc, line):
    import io

    from cogent3.parse.genbank import location_line_tokenizer, parse_location_line
    from cogent3.parse.gff import gff_parser, merged_gff_records

    for sh in shapes(line):
        for strand in "+-":
            r = rec("gff", "s1", "gene", "n1", sh, strand, False)
            case = {"part": "text", "spans": [list(s) for s in sh], "strand": strand, "line": line}
            cls = ("single span" if len(sh) == 1 else "two spans") + f", strand {strand}"
            # GFF: one line per span, merged by ID
            acc.case(("gff", sh, strand))
            text = "##gff-version 3\n" + "\n".join(gff_lines(r)) + "\n"
            g = call(lambda: list(gff_parser(io.StringIO(text), attribute_parser=lambda *a: a[0], gff3=True)))
            if g[0] != "ok":
                acc.fail(f"gff_parser: raised {g[1]} [{cls}]", case, {"text": text})
            else:
                got = [(x.start, x.stop, x.strand, x.seqid, x.biotype) for x in g[1]]
                want = [(a, b, strand, "s1", "gene") for a, b in sh]
                acc.outcome(("gff", str(got)))
                if got != want:
                    acc.fail(f"gff_parser: coordinates [{cls}]", case, {"got": got, "want": want, "text": text})
                m = call(lambda: merged_gff_records(g[1], 0))
                if m[0] != "ok" or list(m[1][0]) != ["n1"] or sorted(tuple(s) for s in m[1][0]["n1"].spans) != sorted(sh):
                    acc.fail(f"merged_gff_records: spans [{cls}]", case, {"got": str(m)[:200], "want": sh})
            # GenBank: every spelling
            for form, partial in itertools.product((0, 1), (False, True)):
                loc = gb_location(sh, strand, form=form, partial=partial)
                acc.case(("gb", sh, strand, form, partial))
                p = call(lambda: parse_location_line(location_line_tokenizer([loc])))
                if p[0] != "ok":
                    acc.fail(f"parse_location_line: raised {p[1]} [{cls}]", dict(case, location=loc), {"got": p[1]})
                    continue
                got = ([tuple(int(v) for v in c) for c in p[1].get_coordinates()], p[1].strand)
                want = (sorted(sh), -1 if strand == "-" else 1)
                acc.outcome(("gb", str(got)))
                if got != want:
                    what = "strand" if got[0] == want[0] else "coordinates"
                    acc.fail(f"parse_location_line: {what} [{cls}]", dict(case, location=loc), {"got": got, "want": want})
    # a GenBank join that mixes strands has no single strand
    for sh in shapes(line):
        if len(sh) != 2:
            continue
        (a0, b0), (c0, d0) = sh
        for loc in (f"join(complement({a0 + 1}..{b0}),{c0 + 1}..{d0})", f"join({a0 + 1}..{b0},complement({c0 + 1}..{d0}))"):
            acc.case(("gb-mixed", sh, loc))
            p = call(lambda: parse_location_line(location_line_tokenizer([loc])))
            case = {"part": "text", "spans": [list(x) for x in sh], "strand": "mixed", "line": line, "location": loc}
            if p[0] != "ok":
                acc.fail(f"parse_location_line: raised {p[1]} [two spans, mixed strands]", case, {"got": p[1]})
                continue
            got = (sorted(tuple(int(v) for v in c) for c in p[1].get_coordinates()), p[1].strand)
            if got[0] != sorted(sh):
                acc.fail("parse_location_line: coordinates [two spans, mixed strands]", case, {"got": got, "want": sorted(sh)})
            elif got[1] in (1, -1, "+", "-"):
                acc.fail("parse_location_line: a single strand reported for a location that mixes strands [two spans, mixed strands]", case, {"got": got[1]})
    # through load_annotations into the two native tables: one db per strand holding every shape
    for cls in ("Gff", "Genbank"):
        for strand in "+-":
            all_shapes = shapes(line) + (overlap_shapes(line) if cls == "Gff" else [])
            records = [rec(NATIVE[cls], "s1", "gene", f"n{i}" if cls == "Gff" else "n1", sh, strand, i % 2 == 1)
                       for i, sh in enumerate(all_shapes)]
            for block in ((None, 1, 2, 3, 5) if cls == "Gff" else (None,)):
                acc.case(("load", cls, strand, block))
                r = call(lambda: all_rows(build_db(cls, records, block=block)))
                if r != ("ok", model_rows(records)):
                    bad = None
                    if r[0] == "ok":
                        want = model_rows(records)
                        bad = [(g, w) for g, w in zip(r[1], want) if g != w][:2]
                    how = "" if block is None else "; read in blocks of a few lines"
                    acc.fail(f"load_annotations({cls}): " + (f"raised {r[1]}" if r[0] != "ok" else "records differ from the text") + f" [strand {strand}{how}]",
                             {"part": "text", "line": line, "cls": cls, "strand": strand, "lines_per_block": block}, {"first differences": str(bad)[:600]})
                if r[0] == "ok" and block is not None:
                    # the coordinate columns the window queries use
                    db = build_db(cls, records, block=block)
                    rows = sorted((x["name"], int(x["start"]), int(x["stop"])) for x in db.db.execute("select name, start, stop from gff").fetchall())
                    want_cols = sorted((x["name"], min(a for a, b in x["spans"]), max(b for a, b in x["spans"])) for x in records)
                    if rows != want_cols:
                        acc.fail(f"load_annotations(Gff): start / stop columns differ from the extent of the spans [strand {strand}; read in blocks of a few lines]",
                                 {"part": "text", "line": line, "cls": cls, "strand": strand, "lines_per_block": block}, {"got": str(rows)[:300], "want": str(want_cols)[:300]})
    # rows of two multi-row features interleaved (exon, CDS, exon, CDS ...), read in blocks smaller than the distance
    # between two rows of one feature: each feature is still one record
    multi = [sh for sh in shapes(line) if len(sh) == 2][:4]
    if len(multi) >= 2:
        from cogent3.core.annotation_db import load_annotations as _load

        ra = rec("gff", "s1", "exon", "ia", multi[0], "+", False)
        rb = rec("gff", "s1", "cds", "ib", multi[1], "+", False)
        rows_a, rows_b = gff_lines(ra), gff_lines(rb)
        inter = [x for pair in zip(rows_a, rows_b) for x in pair] + rows_a[len(rows_b):] + rows_b[len(rows_a):]
        tail = gff_lines(rec("gff", "s1", "gene", "ic", shapes(line)[0], "-", False))
        text = "##gff-version 3\n" + "\n".join(inter[:2] + tail + inter[2:]) + "\n"
        want = model_rows([ra, rb, rec("gff", "s1", "gene", "ic", shapes(line)[0], "-", False)])
        path = _tmp(".gff3")
        with open(path, "w") as f:
            f.write(text)
        try:
            for block in (None, 1, 2, 3):
                acc.case(("load-interleaved", block))
                r = call(lambda: all_rows(_load(path=path) if block is None else _load(path=path, lines_per_block=block)))
                if r != ("ok", want):
                    acc.fail("load_annotations(Gff): records differ from the text [rows of two features interleaved" + ("; read in blocks of a few lines]" if block else "]"),
                             {"part": "text", "line": line, "cls": "Gff", "lines_per_block": block, "interleaved": True}, {"got": str(r[1])[:400], "want": str(want)[:400]})
        finally:
            os.remove(path)
    # loading only some sequence ids of a GFF file: the ids are chosen so that one is a substring of another; every way
    # of giving the selection (a str, a list, a tuple, a set) selects by equality
    from cogent3.core.annotation_db import load_annotations

    sel_ids = ["s1", "s10", "s"]
    sel_records = [rec("gff", sid, "gene", f"g{k}{j}", sh, "+-"[(k + j) % 2], False)
                   for k, sid in enumerate(sel_ids) for j, sh in enumerate(shapes(line)[:3])]
    text = "##gff-version 3\n" + "\n".join(l for r in sel_records for l in gff_lines(r)) + "\n"
    path = _tmp(".gff3")
    with open(path, "w") as f:
        f.write(text)
    try:
        for target in sel_ids:
            want = model_rows([r for r in sel_records if r["seqid"] == target])
            for form, arg in (("str", target), ("list", [target]), ("tuple", (target,)), ("set", {target})):
                acc.case(("load-seqids", target, form))
                r = call(lambda: all_rows(load_annotations(path=path, seqids=arg)))
                if r != ("ok", want):
                    acc.fail(f"load_annotations(Gff, seqids given as a {form}): " + (f"raised {r[1]}" if r[0] != "ok" else "records of another sequence id were loaded or some are missing"),
                             {"part": "text", "line": line, "cls": "Gff", "seqids": target, "form": form}, {"got": str(r[1])[:300], "want": str(want)[:300]})
    finally:
        os.remove(path)
    # GenBank records of which every second one mixes strands (no single strand: stored as none), each directly after an
    # ordinary record on one strand: nothing of one record may show up in the next
    two = [sh for sh in shapes(line) if len(sh) == 2]
    one = [sh for sh in shapes(line) if len(sh) == 1]
    records = []
    for i, sh in enumerate(two):
        records.append(rec("gb", "s1", "gene", "n1", one[i % len(one)], "+-"[i % 2], False))
        r = rec("gb", "s1", "gene", "n1", sh, None, False)
        r["mixed"] = True
        records.append(r)
    if records:
        acc.case(("load", "Genbank", "mixed"))
        r = call(lambda: all_rows(build_db("Genbank", records)))
        want = model_rows(records)
        if r != ("ok", want):
            bad = [(g, w) for g, w in zip(r[1], want) if g != w][:2] if r[0] == "ok" else None
            acc.fail("load_annotations(Genbank): " + (f"raised {r[1]}" if r[0] != "ok" else "records differ from the text") + " [mixed-strand joins between ordinary records]",
                     {"part": "text", "line": line, "cls": "Genbank", "strand": "mixed"}, {"first differences": str(bad)[:600]})
    acc.sample({"line": line, "shapes": len(shapes(line)), "spellings": "GFF3 rows; GenBank a..b / a / complement / join / <,>"}, "text")


# ----------------------------------------------------------------------------- part: history (K1)
# A state is (class, multiset of records per table, source kind).  `source` (":memory:" or a file path) is part of the
# key because serialisation re-creates the object from its init arguments, so later operations read it.
def alphabet_records():
    """records that can be added (adding r1 twice gives duplicates)"""
    r1 = rec("user", "s1", "gene", "n1", ((1, 3),), "+", False)
    r2 = rec("user", "s2", "cds", "n2", ((0, 2), (3, 5)), "-", True)
    r3 = rec("user", "s1", "cds", "n2", ((2, 4),), None, False)
    return [r1, r2, r3]


def native_records(cls):
    n1 = rec(NATIVE[cls], "s1", "gene", "g1", ((0, 2),), "+", False)
    n2 = rec(NATIVE[cls], "s2", "cds", "g2", ((1, 2), (4, 6)), "-", True)
    return [n1, n2]


def other_dbs():
    """fixed argument dbs for update / union: name -> (class, records)"""
    r1, r2, r3 = alphabet_records()
    out = {"basic(r1,r3)": ("Basic", [r1, r3]), "basic(empty)": ("Basic", [])}
    for c in ("Gff", "Genbank"):
        n1, n2 = native_records(c)
        out[f"{c.lower()}(n1,n2,r2)"] = (c, [dict(n1, name="h1"), dict(n2, name="h2"), r2])
    return out


def tables_of(cls):
    return {"Basic": {"user"}, "Gff": {"gff", "user"}, "Genbank": {"gb", "user"}}[cls]


SUBSETS = [{"seqid": "s1"}, {"biotype": "cds", "strand": "-"}, {"attributes": TAG}, {"seqid": "s1", "start": 0, "stop": 3},
           {"name": "%1", "start": 1, "stop": 2, "allow_partial": True}, {"start": 2}, {"start": 1, "stop": 5}]
COPIES = ("deepcopy", "pickle", "rich_dict", "json", "write_reload", "init_db")


def history_ops(cls):
    ops = [("add", 0), ("add", 1)]
    for name, (ocls, orecs) in other_dbs().items():
        for seqids in (None, "s1", ["s1", "s2"]):
            if not orecs and seqids is not None:
                continue
            ops.append(("update", name, seqids))
        ops.append(("union", name))
    ops += [("update_self",), ("union_self",)]
    ops += [("subset", kw) for kw in SUBSETS]
    ops += [(how,) for how in COPIES]
    return ops


def model_apply(state, op):
    """state = (cls, records, source kind) -> new state | ('err', exception name)"""
    cls, records, src = state
    kind = op[0]
    if kind == "add":
        return cls, records + [alphabet_records()[op[1]]], src
    if kind in ("update", "union"):
        ocls, orecs = other_dbs()[op[1]]
        mine, theirs = tables_of(cls), tables_of(ocls)
        if kind == "update":
            if not mine >= theirs:
                return ("err", "TypeError")
            seqids = op[2]
            if seqids is None:
                add = list(orecs)
            else:
                s = {seqids} if isinstance(seqids, str) else set(seqids)
                add = [r for r in orecs if r["seqid"] in s]
            return cls, records + add, src
        if not orecs:
            return cls, list(records), src  # union with an empty db is a copy of self
        if mine >= theirs:
            return cls, records + list(orecs), "memory"
        if mine <= theirs:
            return ocls, records + list(orecs), "memory"
        return ("err", "TypeError")
    if kind == "update_self":
        return cls, list(records), src  # updating from itself changes nothing
    if kind == "union_self":
        return (cls, records + records, "memory") if records else (cls, [], src)
    if kind == "subset":
        q = dict(op[1])
        q.setdefault("allow_partial", False)
        return cls, [r for r in records if selects(r, q)], "memory"
    if kind == "write_reload":
        return cls, list(records), "file"
    return cls, list(records), src  # copies / round trips keep class, records and source


def real_apply(db, op, others):
    kind = op[0]
    if kind == "add":
        add_user(db, alphabet_records()[op[1]])
        return db
    if kind in ("update", "union"):
        other = others(op[1])
        if kind == "update":
            db.update(other, seqids=op[2])
            return db
        return db.union(other)
    if kind == "update_self":
        db.update(db)
        return db
    if kind == "union_self":
        return db.union(db)
    if kind == "subset":
        return db.subset(**op[1])
    if kind == "deepcopy":
        return copy.deepcopy(db)
    if kind == "pickle":
        return pickle.loads(pickle.dumps(db))
    if kind == "rich_dict":
        return type(db).from_dict(db.to_rich_dict())
    if kind == "json":
        from cogent3.util.deserialise import deserialise_object

        return deserialise_object(db.to_json())
    if kind == "write_reload":
        path = _tmp(".sqlitedb")
        _write_guarded(db, path)
        return type(db)(source=path)
    if kind == "init_db":
        # a new instance initialised from an existing one of the same class holds the same records
        return type(db)(db=db)
    raise ValueError(op)


class WriteHangs(Exception):
    """db.write() did not return (sqlite backup retries for ever while the source connection holds a transaction)"""


def _write_guarded(db, path):
    """db.write(path), but a write that never returns becomes the outcome WriteHangs.

    sqlite's backup loop runs in C and cannot be interrupted by a signal handler, so the write is first tried in a
    forked child (in-memory dbs are copied by fork); only if the child returns is it done in this process too."""
    import time

    probe = path + ".probe"
    limit = 4.0 if db.db.in_transaction else 120.0
    pid = os.fork()
    if pid == 0:
        code = 1
        try:
            db.write(probe)
            code = 0
        finally:
            os._exit(code)
    t0 = time.time()
    done = False
    while time.time() - t0 < limit:
        got, status = os.waitpid(pid, os.WNOHANG)
        if got:
            done = True
            break
        time.sleep(0.01)
    if not done:
        os.kill(pid, 9)
        os.waitpid(pid, 0)
    for extra in (probe, probe + "-journal"):
        if os.path.exists(extra):
            os.remove(extra)
    if not done:
        raise WriteHangs()
    db.write(path)


def class_name(db):
    return type(db).__name__.replace("AnnotationDb", "")


def canon(state, hidden=("memory", False)):
    """model value + the internal fields of the real object that later operations read (source kind, open transaction)"""
    return (state[0], tuple(model_rows(state[1])), tuple(hidden))


PROBES = [{"seqid": "s1"}, {"strand": "-"}, {"start": 1, "stop": 4, "allow_partial": True}, {"biotype": "cds", "start": 2}]


def hidden_of(db):
    return ("memory" if str(db.source) == ":memory:" else "file", bool(db.db.in_transaction))


def observe(db):
    """observable content of a db: class, len, all rows, and a few query answers"""
    out = {"class": class_name(db), "len": len(db), "rows": all_rows(db)}
    for i, kw in enumerate(PROBES):
        out[f"q{i}"] = sorted(key_of_row(r, with_tag=False) for r in db.get_features_matching(**kw))
    return out


def model_observe(state):
    cls, records, _ = state
    out = {"class": cls, "len": len(records), "rows": model_rows(records)}
    for i, kw in enumerate(PROBES):
        q = dict(kw)
        q.setdefault("allow_partial", False)
        out[f"q{i}"] = sorted(key_of_model(r, with_tag=False) for r in records if selects(r, q))
    return out


def op_class(op):
    kind = op[0]
    if kind == "update":
        return f"update(seqids={'None' if op[2] is None else ('str' if isinstance(op[2], str) else 'list')})"
    return kind


def _others(name):
    ocls, orecs = other_dbs()[name]
    return build_db(ocls, orecs, via_text=False)


def replay_history(cls, init, hist):
    """re-execute a history on a fresh db
    -> ('ok', db, hidden fields before the last op) | ('err', name, index of failing op, hidden fields before it)"""
    db = build_db(cls, init, via_text=False)
    hidden = hidden_of(db)
    for i, op in enumerate(hist):
        hidden = hidden_of(db)
        r = call(real_apply, db, op, _others)
        if r[0] != "ok":
            return ("err", r[1], i, hidden)
        db = r[1]
    return ("ok", db, hidden)


def judge_step(r, m, nops):
    """compare the outcome r of a replay with the model state m -> None | (what, detail)"""
    if m[0] == "err":
        if r[0] == "err" and r[1] == m[1] and r[2] == nops - 1:
            return None
        return (f"expected {m[1]}" + (f", raised {r[1]}" if r[0] == "err" else ", returned"), {"got": str(r[:3])[:200], "want": m[1]})
    if r[0] == "err":
        if r[2] == nops - 1:
            return (f"raised {r[1]}", {"got": r[1], "want": "ok"})
        return ("an earlier operation of the history failed", {"got": str(r[:3])})
    got = call(observe, r[1])
    want = model_observe(m)
    if got[0] != "ok":
        return (f"result db cannot be read, raised {got[1]}", {"got": got[1]})
    if got[1] != want:
        key = next(k for k in want if got[1].get(k) != want[k])
        what = {"class": "class of the result", "len": "number of records", "rows": "multiset of records"}.get(key, "query answers on the result")
        if key == "len":
            what += " (more than the model)" if got[1]["len"] > want["len"] else " (fewer than the model)"
        return (what, {"observable": key, "got": str(got[1][key])[:500], "want": str(want[key])[:500]})
    return None


def state_class(pre, op, m, what, hidden, cls=None, init=None, hist=None):
    """structural class of the state a failing last operation was applied to: does the failure need the history?"""
    if pre is None:
        return ""
    # (a) the same operation on a fresh in-memory db holding the same records
    def on_fresh(file_backed):
        db = build_db(pre[0], pre[1], via_text=False)
        if file_backed:
            db = real_apply(db, ("write_reload",), _others)
        r = call(real_apply, db, op, _others)
        r = ("ok", r[1], None) if r[0] == "ok" else ("err", r[1], 0, None)
        j = judge_step(r, m, 1)
        return j is not None and j[0] == what

    if call(on_fresh, False) == ("ok", True):
        return ""
    after_commit = None
    if hidden[1] and hist:
        # the same history, but with the pending transaction committed before the last operation
        def committed():
            r = replay_history(cls, init, hist[:-1])
            r[1].db.commit()
            x = call(real_apply, r[1], op, _others)
            x = ("ok", x[1], None) if x[0] == "ok" else ("err", x[1], 0, None)
            j = judge_step(x, m, 1)
            return "agrees" if j is None else j[0]

        after_commit = call(committed)
        if after_commit == ("ok", "agrees"):
            return " [connection holds an open transaction]"
    if hidden[0] == "file" and (call(on_fresh, True) == ("ok", True) or after_commit == ("ok", what)):
        return " [file-backed db]"
    parts = (["file-backed db"] if hidden[0] == "file" else []) + (["connection holds an open transaction"] if hidden[1] else [])
    return " [" + (", ".join(parts) or "history-dependent") + "]"


def run_history(acc, cls, init_name, depth, max_records):
    init = initial_dbs(cls)[init_name]
    case0 = {"part": "history", "cls": cls, "init": init_name}
    s0 = (cls, init, None)
    fresh_ok = {}
    acc.state(0)
    ok, hid = check_state(acc, cls, init, None, s0, [], case0, fresh_ok)
    seen = {canon(s0, hid)}
    frontier = [(s0, [])]
    for d in range(1, depth + 1):
        nxt = []
        for state, hist in frontier:
            for op in history_ops(state[0]):
                m = model_apply(state, op)
                if m[0] == "err" and d > 1:
                    continue  # class-compatibility errors do not depend on the content: explored from the initial dbs only
                h2 = hist + [op]
                acc.transitions += 1
                acc.traces += 1
                acc.case(("history", cls, init_name, str(h2)), nontrivial=bool(state[1]))
                ok, hid = check_state(acc, cls, init, state, m, h2, case0, fresh_ok)
                if m[0] == "err" or not ok or len(m[1]) > max_records:
                    continue  # bigger dbs are checked but not expanded
                k = canon(m, hid)
                if k not in seen:
                    seen.add(k)
                    acc.state(d)
                    nxt.append((m, h2))
        frontier = nxt
    acc.sample({"class": cls, "initial": init_name, "depth": depth, "states": len(seen)}, "history")


def check_state(acc, cls, init, pre, m, hist, case0, fresh_ok=None):
    """execute hist on a fresh real db and compare with the model state m (pre = model state before the last op)
    -> (agrees?, hidden fields of the reached db)"""
    case = dict(case0, hist=[list(o) for o in hist])
    r = replay_history(cls, init, hist)
    last = op_class(hist[-1]) if hist else "construct"
    j = judge_step(r, m, len(hist))
    acc.outcome((m[0], len(m[1]) if m[0] != "err" else m[1], j[0] if j else "agrees"))
    if j:
        if j[0] != "an earlier operation of the history failed":
            sig = f"{last}: {j[0]}"
            if hist:
                if hist[-1][0] == "subset":
                    sig += f" [{query_class(hist[-1][1], j[0])}]"
                sig += state_class(pre, hist[-1], m, j[0], r[-1], cls, init, hist)
            acc.fail(sig, case, j[1])
        return False, None
    if m[0] == "err":
        return True, None
    hid = hidden_of(r[1])
    # differential: a fresh db built from the model value (through text loading) answers the same; once per model value
    k = canon(m)[:2]
    natives = [x["name"] for x in m[1] if x["table"] == "gff"]
    if len(set(natives)) != len(natives):
        acc.count("fresh_db_not_constructible_duplicate_gff_ids")  # GFF rows sharing an ID are merged on load
    elif fresh_ok is not None and k not in fresh_ok:
        fresh = call(lambda: observe(build_db(m[0], m[1], via_text=True)))
        fresh_ok[k] = fresh == ("ok", model_observe(m))
        if not fresh_ok[k]:
            acc.fail("fresh db built from the model records differs from the model", case, {"got": str(fresh)[:300]})
            return False, None
    return True, hid


def initial_dbs(cls):
    r1, r2, r3 = alphabet_records()
    out = {"empty": [], "user(r1,r3)": [r1, r3]}
    if cls != "Basic":
        n1, n2 = native_records(cls)
        out["native(n1,n2)"] = [n1, n2]
        out["native(n2)+user(r1)"] = [n2, r1]
    return out


# ----------------------------------------------------------------------------- shards
def shards(tier, seed):
    b = bounds(tier)
    out = [{"part": "text", "line": b["text_line"]}]
    for cls in CLASSES:
        ax = query_axes(cls, b["line"])
        for si, bi, ni in itertools.product(range(len(ax["seqid"])), range(len(ax["biotype"])), range(len(ax["name"]))):
            out.append({"part": "query", "cls": cls, "line": b["line"], "seqid": si, "biotype": bi, "name": ni})
        out.append({"part": "count_distinct", "cls": cls, "line": min(b["line"], 4)})
        out.append({"part": "confusable", "cls": cls})
        for init in initial_dbs(cls):
            out.append({"part": "history", "cls": cls, "init": init, "depth": b["history_depth"], "max_records": b["history_max_records"]})
    return out


def run_shard(spec, acc):
    part = spec["part"]
    if part == "text":
        for line in range(1, spec["line"] + 1):
            if line in (spec["line"], 2):
                check_text(acc, line)
    elif part == "query":
        run_queries(acc, spec["cls"], spec["line"], spec["seqid"], spec["biotype"], spec["name"])
        acc.sample({"class": spec["cls"], "records": len(universe(spec["cls"], spec["line"])),
                    "fixed": {"seqid": spec["seqid"], "biotype": spec["biotype"], "name": spec["name"]}}, "query")
    elif part == "confusable":
        run_confusable(acc, spec["cls"])
    elif part == "count_distinct":
        check_count_distinct(acc, spec["cls"], spec["line"])
    elif part == "history":
        run_history(acc, spec["cls"], spec["init"], spec["depth"], spec["max_records"])


def replay(case):
    from vf.kernel.runner import Acc

    acc = Acc()
    part = case.get("part")
    if part == "query" and "q" not in case:
        run_queries(acc, case["cls"], case["line"], 0, 0, 0)  # the failure was in building / reading back the universal db
    elif part == "query":
        q = {k: (tuple(v) if isinstance(v, list) else v) for k, v in case["q"].items()}
        ax = query_axes(case["cls"], case["line"])
        run_queries(acc, case["cls"], case["line"], ax["seqid"].index(q["seqid"]), ax["biotype"].index(q["biotype"]),
                    ax["name"].index(q["name"]), only=q)
    elif part == "confusable":
        q = {k: (tuple(v) if isinstance(v, list) else v) for k, v in case["q"].items()}
        run_confusable(acc, case["cls"], only=q)
    elif part == "count_distinct":
        check_count_distinct(acc, case["cls"], case["line"])
    elif part == "text":
        check_text(acc, case["line"])
    elif part == "history":
        hist = [_op_from_json(o) for o in case["hist"]]
        init = initial_dbs(case["cls"])[case["init"]]
        m = (case["cls"], init, None)
        pre = None
        for op in hist:
            pre = m
            m = model_apply(m, op)
        check_state(acc, case["cls"], init, pre, m, hist, {k: case[k] for k in ("part", "cls", "init")}, {})
    return [(sig, rec_["cases"][0]["detail"]) for sig, rec_ in acc.failures.items()]


def _op_from_json(o):
    return tuple(o)


LEVEL_TEXT = (
    "Explicit-state exploration on the real sqlite-backed annotation dbs.  Queries: the WHERE clause is assembled from optional "
    "arguments and evaluated row by row, so a db that holds the complete record lattice is a universal witness; every argument "
    "combination and every proper window over the coordinate line is executed through every reading entry point and compared "
    "with a linear scan.  Histories: breadth-first search over add / update / union / subset / copy / pickle / serialise / "
    "write+reload sequences with multiset equality after every step and a differential comparison against a fresh db built from "
    "the model value.  Coordinate conversion is checked for every span shape and every GFF3 / GenBank spelling."
)
LEVEL_NOTE = (
    "Trusted: SQLite's row-wise WHERE evaluation, the 40-line scan predicate, python Counter equality.  Windows are judged only "
    "when proper; patterns are limited to the % wildcard; get_feature_children / get_feature_parent are not covered."
)
