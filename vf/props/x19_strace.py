"""Syscall-level validation of C19 (thorough tier): real kill -9 at every mutating syscall of a write.

The same write is executed in a child process under
    strace -f -e trace=<mutating syscalls> -e inject=<syscall>:signal=SIGKILL:when=<k>
for every k-th invocation of every mutating syscall after a start marker, and the directory is inspected
afterwards.  The strace log of the un-injected run is also compared with the audit-hook boundary list, to
show the in-process interposer of c19_atomic misses no mutating call.
"""

import os
import re
import shutil
import subprocess
import sys
import tempfile

CHILD = r"""
import os, sys
sys.path.insert(0, {verif!r})
import cogent3
from vf.props import c19_atomic as c19
work, writer, target, existing = sys.argv[1], sys.argv[2], sys.argv[3], sys.argv[4] == "1"
key, targets, kw = c19.WRITERS[writer]
objs = c19._objects()
c19.pre_state(work, target, existing)
os.chdir(work)  # start marker: everything after this line belongs to the write
c19.do_write(key, objs, os.path.join(work, target), kw)
os.chdir("/")   # end marker
"""

SYSCALLS = ["openat", "write", "rename", "renameat", "renameat2", "unlink", "unlinkat", "mkdir", "mkdirat", "rmdir", "close", "ftruncate"]


def _run(work, writer, target, existing, inject=None, log=None):
    env = dict(os.environ, PYTHONDONTWRITEBYTECODE="1", PYTHONHASHSEED="0", DONT_USE_MPI="1")
    verif = os.path.dirname(os.path.dirname(os.path.dirname(os.path.abspath(__file__))))
    script = os.path.join(work + "_child.py")
    with open(script, "w") as f:
        f.write(CHILD.format(verif=verif))
    cmd = ["strace", "-f", "-qq", "-e", "trace=" + ",".join(SYSCALLS + ["chdir"])]
    if inject:
        cmd += ["-e", f"inject={inject[0]}:signal=SIGKILL:when={inject[1]}"]
    cmd += ["-o", log or os.devnull, sys.executable, "-W", "ignore", script, work, writer, target, "1" if existing else "0"]
    p = subprocess.run(cmd, env=env, capture_output=True, text=True, timeout=300)
    os.unlink(script)
    return p.returncode


def _parse(log, work):
    """per syscall: number of invocations before the start marker, between markers; list of mutating calls under work"""
    before, during = {}, {}
    phase = 0
    mutating = []
    fds = set()
    for line in open(log, errors="replace"):
        m = re.match(r"^(\d+\s+)?(\w+)\((.*)", line)
        if not m:
            continue
        name, rest = m.group(2), m.group(3)
        if name == "chdir":
            if work in rest and phase == 0:
                phase = 1
            elif phase == 1:
                phase = 2
            continue
        if name not in SYSCALLS:
            continue
        tgt = before if phase == 0 else during if phase == 1 else None
        if tgt is None:
            continue
        tgt[name] = tgt.get(name, 0) + 1
        if phase == 1 and (work in rest or name in ("write", "close")):
            if name == "openat" and not re.search(r"O_WRONLY|O_RDWR|O_CREAT", rest):
                continue
            mutating.append((name, tgt[name] + before.get(name, 0) if False else before.get(name, 0) + tgt[name], rest[:120]))
    return before, during, mutating


def explore(spec, acc, base):
    from vf.props import c19_atomic as c19

    writer, existing = spec["writer"], spec["existing"]
    key, targets, kw = c19.WRITERS[writer]
    target = targets[0]
    cls = f"{writer}; destination {'exists' if existing else 'absent'}"
    work = tempfile.mkdtemp(prefix="c19s-", dir=base)
    log = work + ".strace"
    try:
        rc = _run(work, writer, target, existing, None, log)
        if rc != 0:
            acc.fail(f"harness: strace child failed (rc={rc})", {"strace": spec}, {})
            return
        before, during, mutating = _parse(log, work)
        snap = c19.snapshot(work)
        new = c19.logical(target, snap.get(target))
        old = c19.OLD if existing else None
        # cross-check with the audit-hook boundary list of the in-process run
        rec = c19.run_write(writer, key, target, kw, existing, (), c19._objects(), base, "record")
        hook = [k for k, _ in rec["ctl"].events]
        want = {"open(w)": 0, "rename": 0, "remove": 0, "mkdir": 0, "rmdir": 0}
        for name, _, rest in mutating:
            if name == "openat" and work in rest:
                want["open(w)"] += 1
            elif name.startswith("rename"):
                want["rename"] += 1
            elif name.startswith("unlink") and work in rest and "AT_REMOVEDIR" not in rest:
                want["remove"] += 1
            elif name.startswith("mkdir"):
                want["mkdir"] += 1
            elif name == "rmdir" or (name == "unlinkat" and "AT_REMOVEDIR" in rest):
                want["rmdir"] += 1
        got = {k: hook.count(k) for k in want}
        got["remove"] += 0
        acc.case({"strace": spec, "crosscheck": True})
        # rmtree is one audit event but several unlink/rmdir syscalls: compare only the calls made one-to-one
        for k in ("open(w)", "rename", "mkdir"):
            if got[k] < want[k]:
                acc.fail(f"audit-hook interposer misses a mutating call seen by strace: {k} [{cls}]", {"strace": spec}, {"hook": got, "strace": want})
        acc.count("strace_mutating_calls", len(mutating))
        # kill at every mutating syscall invocation between the markers
        for name in sorted(during):
            if name == "close":
                continue
            for j in range(1, during[name] + 1):
                k = before.get(name, 0) + j
                w2 = tempfile.mkdtemp(prefix="c19k-", dir=base)
                try:
                    acc.case({"strace": spec, "kill": [name, j]})
                    _run(w2, writer, target, existing, (name, k), None)
                    s2 = c19.snapshot(w2)
                    content = c19.logical(target, s2.get(target))
                    acc.outcome(("skill", name, content == old, content == new))
                    if not c19.dest_ok(content, old, new, target):
                        acc.fail(f"SIGKILL at a {name} syscall leaves the destination neither old nor new [{cls}]",
                                 {"strace": spec, "kill": [name, j]}, {"destination": repr(content)[:200], "files": sorted(s2)})
                finally:
                    shutil.rmtree(w2, ignore_errors=True)
        acc.sample({"strace": spec, "syscalls_during_write": during, "mutating": [m[0] for m in mutating]}, "strace")
    finally:
        shutil.rmtree(work, ignore_errors=True)
        if os.path.exists(log):
            os.unlink(log)
