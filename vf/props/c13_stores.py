"""C13 - data stores hold exactly what was written, record by record.

K1: breadth-first explicit-state search over histories of
    write | write_not_completed | write_log | drop_not_completed() | drop_not_completed(id) | close+reopen(mode)
on DataStoreDirectory and DataStoreSqlite, over identifiers that are suffixes / prefixes of one another,
with and without the format suffix.  The store is mutable, so each state is rebuilt by replaying its
history on a fresh store in a private /dev/shm directory.  Reference model = two dicts (completed,
not completed) + a log dict.  After every step the live store object AND a freshly opened read-only
store on the same source are compared with the model: membership, content, md5, validate() counts.
"""

from __future__ import annotations

import hashlib
import os
import shutil
import tempfile

PID = "C13"
LEVEL = "model_checking"
TECHNIQUE = "explicit-state BFS over store operation histories (replayed on fresh stores) against a dict model"
RULE = (
    "states = canonical (on-disk content incl. md5 side records, cached member lists of the live store object, mode, model dicts); "
    "transitions = every operation of the alphabet (identifiers x payloads x record kinds, drops, reopen in r/a/w) applied to every "
    "reachable state up to the depth bound; each history is replayed on a fresh store"
)
ASSUMPTIONS = [
    "identifier equivalence is the store's own: the directory store treats x and x.<store suffix> as one record, the SQLite store uses identifiers verbatim",
    "re-writing an existing completed identifier in overwrite mode may keep the old or take the new content (both accepted, md5 must match whichever it is)",
    "writing a not-completed record for an identifier that already has a completed record may raise, or add the record; it must not change the completed record",
    "in append mode a write to an existing record of the same kind may raise or be ignored; it must not change content",
    "log records: only the last written log of a session is required to be present and readable",
    "stores are unlocked and closed through the API before a reopen",
]

SUFFIX = "fasta"


def bounds(tier):
    return {
        "quick": {"ids": ["a", "ba", "a.fasta", "fasta1"], "payloads": ["d1", "d2"], "depth": 3, "init_modes": ["w", "a"]},
        "thorough": {"ids": ["a", "ba", "a.fasta", "fasta1", "a.b", "a.v2.fasta", "a.v2.json"], "payloads": ["d1", "d2"], "depth": 3, "init_modes": ["w", "a"]},
    }[tier]


def text_md5(data: str) -> str:
    from scitrack import get_text_hexdigest

    return get_text_hexdigest(data)


# ----------------------------------------------------------------------------- model
class Model:
    def __init__(self, kind, mode):
        self.kind = kind  # "dir" | "sqlite"
        self.mode = mode
        self.completed = {}  # canonical id -> set of acceptable contents (usually one)
        self.nc = {}
        self.last_log = None  # (id, data)

    def canon(self, ident):
        if self.kind == "dir":
            # the directory store identifies a record by its name without the store suffix; a not-completed record may be
            # addressed with the .json suffix its file carries (this is what the writer apps pass)
            for sfx in ("." + SUFFIX, ".json"):
                if ident.endswith(sfx):
                    return ident[: -len(sfx)]
        return ident

    def copy(self):
        m = Model(self.kind, self.mode)
        m.completed = {k: set(v) for k, v in self.completed.items()}
        m.nc = {k: set(v) for k, v in self.nc.items()}
        m.last_log = self.last_log
        return m

    def key(self):
        return (
            self.mode,
            tuple(sorted((k, tuple(sorted(v))) for k, v in self.completed.items())),
            tuple(sorted((k, tuple(sorted(v))) for k, v in self.nc.items())),
            self.last_log,
        )

    def apply(self, op):
        """returns (new model, may_raise, must_raise)"""
        m = self.copy()
        kind = op[0]
        if kind == "reopen":
            m.mode = op[1]
            m.last_log = self.last_log
            return m, False, False
        if kind in ("write", "write_nc", "write_log") and self.mode == "r":
            return m, True, True
        if kind == "write":
            i = self.canon(op[1])
            if i in self.completed:
                if self.mode == "a":
                    return m, True, False  # raise or ignore, content unchanged
                m.completed[i] = self.completed[i] | {op[2]}  # w: old or new
                m.nc.pop(i, None)
                return m, False, False
            if i in self.nc and self.mode == "a":
                # replacing a not-completed record by a completed one: allowed (the write contract drops the
                # not-completed record) and refusable (append mode never overwrites); follow the implementation
                m.alt = ("promote", i, op[2])
                return m, True, False
            m.completed[i] = {op[2]}
            m.nc.pop(i, None)
            return m, False, False
        if kind == "write_nc":
            i = self.canon(op[1])
            if i in self.completed:
                # may raise / be ignored, or add an nc record leaving the completed record untouched; in overwrite
                # mode the record may instead be replaced by the not-completed one
                m.alt = ("nc_over_completed", i, op[2])
                return m, True, False
            if i in self.nc:
                if self.mode == "a":
                    return m, True, False
                m.nc[i] = self.nc[i] | {op[2]}
                return m, False, False
            m.nc[i] = {op[2]}
            return m, False, False
        if kind == "write_log":
            m.last_log = (op[1], op[2])
            return m, False, False
        if kind == "drop_all":
            if self.mode == "r":
                return m, True, False  # must not mutate; raising is fine
            m.nc = {}
            return m, False, False
        if kind == "drop":
            if self.mode == "r":
                return m, True, False
            m.nc.pop(self.canon(op[1]), None)
            return m, False, False
        raise ValueError(op)


# ----------------------------------------------------------------------------- implementation access
def open_store(kind, path, mode):
    if kind == "dir":
        from cogent3.app.data_store import DataStoreDirectory

        return DataStoreDirectory(path, mode=mode, suffix=SUFFIX)
    from cogent3.app.sqlite_data_store import DataStoreSqlite

    return DataStoreSqlite(path, mode=mode)


def close_store(kind, store):
    if kind == "sqlite":
        try:
            store.unlock()
        finally:
            store.close()


def real_apply(kind, store, path, op):
    k = op[0]
    if k == "write":
        store.write(unique_id=op[1], data=op[2])
    elif k == "write_nc":
        store.write_not_completed(unique_id=op[1], data=op[2])
    elif k == "write_log":
        store.write_log(unique_id=op[1], data=op[2])
    elif k == "drop_all":
        store.drop_not_completed()
    elif k == "drop":
        store.drop_not_completed(unique_id=op[1])
    elif k == "reopen":
        close_store(kind, store)
        return open_store(kind, path, op[1])
    return store


def member_id(kind, m, which):
    """canonical identifier of a store member"""
    uid = str(m.unique_id)
    if kind == "dir":
        name = os.path.basename(uid)
        if which == "nc":
            return name[: -len(".json")] if name.endswith(".json") else name
        return name[: -len(SUFFIX) - 1] if name.endswith("." + SUFFIX) else name
    return uid


def snapshot(kind, store):
    """observable content of a store object: {kind: {id: [(content, md5)...]}} keeps duplicates"""
    out = {"completed": {}, "nc": {}, "errors": []}
    for which, members in (("completed", store.completed), ("nc", store.not_completed)):
        for m in list(members):
            i = member_id(kind, m, which)
            try:
                data = m.read()
            except Exception as e:  # noqa: BLE001
                data = f"<read raised {type(e).__name__}>"
            try:
                md5 = store.md5(str(m.unique_id))
            except Exception as e:  # noqa: BLE001
                md5 = f"<md5 raised {type(e).__name__}>"
            try:
                mmd5 = m.md5  # the member object lives as long as the store's member list: asked after every step
            except Exception as e:  # noqa: BLE001
                mmd5 = f"<md5 raised {type(e).__name__}>"
            if mmd5 != md5:
                out["errors"].append((which, i, mmd5, md5))
            out[which].setdefault(i, []).append((data, md5))
    return out


def compare(snap, model: Model):
    """problems between a store snapshot and the model; list of (observable, affected id, got, want)"""
    probs = []
    for which, i, mmd5, md5 in snap["errors"]:
        probs.append((f"{which} member's own md5 differs from the store's md5 of that record", i, mmd5, md5))
    for which, want in (("completed", model.completed), ("nc", model.nc)):
        got = snap[which]
        want = dict(want)
        for i in sorted(set(got) - set(want)):
            probs.append((f"unexpected {which} record", i, sorted(got), sorted(want)))
        for i in sorted(set(want) - set(got)):
            probs.append((f"lost {which} record", i, sorted(got), sorted(want)))
        for i, recs in got.items():
            if len(recs) > 1:
                probs.append((f"duplicate {which} member", i, len(recs), 1))
            if i in want:
                data, md5 = recs[0]
                if data not in want[i]:
                    probs.append((f"{which} content changed", i, data, sorted(want[i])))
                elif md5 != text_md5(data):
                    probs.append((f"{which} md5 does not match content", i, md5, text_md5(data)))
    return probs


def disk_digest(path):
    """canonical digest of everything on disk (directory tree or sqlite tables)"""
    h = hashlib.sha1()
    if os.path.isdir(path):
        for root, dirs, files in sorted(os.walk(path)):
            dirs.sort()
            h.update(os.path.relpath(root, path).encode())
            for f in sorted(files):
                h.update(f.encode())
                with open(os.path.join(root, f), "rb") as fh:
                    h.update(fh.read())
    else:
        import sqlite3

        p = path if os.path.exists(path) else path + ".sqlitedb"
        if os.path.exists(p):
            db = sqlite3.connect(f"file:{p}?mode=ro", uri=True)
            for row in db.execute("SELECT record_id, md5, is_completed, data FROM results ORDER BY record_id"):
                h.update(repr(tuple(row)).encode())
            for row in db.execute("SELECT log_name, data FROM logs ORDER BY log_id"):
                h.update(repr(tuple(row)).encode())
            for row in db.execute("SELECT lock_pid IS NULL FROM state"):
                h.update(repr(tuple(row)).encode())
            db.close()
    return h.hexdigest()


def object_state(kind, store):
    """cached fields of the live store object that later operations read"""
    comp = tuple(str(m.unique_id) for m in store._completed)
    nc = tuple(str(m.unique_id) for m in store._not_completed)
    extra = (getattr(store, "_log_id", None) is not None,) if kind == "sqlite" else ()
    return (store.mode.value, comp, nc) + extra


# ----------------------------------------------------------------------------- execution of one history
class Run:
    """replays a history on a fresh store; judges every step"""

    def __init__(self, kind, init_mode, base):
        self.kind = kind
        self.dir = tempfile.mkdtemp(prefix="c13-", dir=base)
        # the file name contains the word the library uses for its in-memory store: only ":memory:" itself means that
        self.path = os.path.join(self.dir, "store" if kind == "dir" else "memory_store.sqlitedb")
        self.store = open_store(kind, self.path, init_mode)
        _ = self.store.completed, self.store.not_completed  # touch like a user listing the store
        self.model = Model(kind, init_mode)
        self.failures = []  # (sig, detail)

    def step(self, op):
        self.pre = self.model
        m2, may_raise, must_raise = self.model.apply(op)
        before = disk_digest(self.path) if self.model.mode == "r" else None
        raised = None
        try:
            self.store = real_apply(self.kind, self.store, self.path, op)
        except Exception as e:  # noqa: BLE001
            raised = e
        cls = self.op_class(op)
        if raised is not None:
            if not may_raise:
                self.failures.append((f"{self.kind} store {op[0]}: raised {type(raised).__name__} [{cls}]", {"error": str(raised)[:200]}))
            # a failed operation must leave the model state as it was
            m2 = self.model.copy()
            if op[0] == "reopen":
                # could not reopen: open read-only to keep going
                self.store = open_store(self.kind, self.path, "r")
                m2.mode = "r"
        elif must_raise:
            self.failures.append((f"{self.kind} store {op[0]}: read-only store accepted a write [{cls}]", {}))
        if self.model.mode == "r" and op[0] != "reopen":
            after = disk_digest(self.path)
            if after != before:
                self.failures.append((f"{self.kind} store {op[0]}: read-only store changed what is on disk [{cls}]", {}))
        alt = getattr(m2, "alt", None)
        if alt is not None:
            # the statement allows more than one outcome: follow the implementation, but only to an allowed one
            del m2.alt
            snap = snapshot(self.kind, self.store)
            what, i, d = alt
            if raised is None and what == "promote" and i in snap["completed"]:
                m2.completed[i] = {d}
                m2.nc.pop(i, None)
            elif raised is None and what == "nc_over_completed" and i in snap["nc"]:
                m2.nc[i] = set(self.pre.nc.get(i, ())) | {d}  # an existing nc record may be kept or replaced
                if self.pre.mode == "w" and i not in snap["completed"]:
                    m2.completed.pop(i, None)
        self.model = m2
        self.observe(op, cls)

    def op_class(self, op):
        """structural class of the operation w.r.t. the current model (for signatures)"""
        m = self.model
        if op[0] in ("write", "write_nc", "drop"):
            i = m.canon(op[1])
            tags = []
            if i in m.completed:
                tags.append("id has completed record")
            if i in m.nc:
                tags.append("id has not-completed record")
            if SUFFIX in i:
                tags.append("id contains the suffix text")
            if "." in i:
                tags.append("id has another extension")
            return f"mode {m.mode}; " + (", ".join(tags) or "new id")
        return f"mode {m.mode}"

    def relation(self, op, affected):
        """how the affected identifier relates to the identifier operated on"""
        if len(op) < 2 or op[0] in ("write_log", "reopen"):
            return "n/a"
        i = self.pre.canon(op[1])
        if affected == i:
            return "the id operated on"
        if affected.endswith(i):
            return "another id, of which the operated id is a suffix"
        if i.endswith(affected):
            return "another id, which is a suffix of the operated id"
        return "an unrelated id" if affected in self.pre.completed or affected in self.pre.nc else "an id never written"

    def observe(self, op, cls):
        live = compare(snapshot(self.kind, self.store), self.model)
        fresh = open_store(self.kind, self.path, "r")
        extra = []
        try:
            snap = snapshot(self.kind, fresh)
            reopened = compare(snap, self.model)
            # membership tests and validate on the fresh store
            for i in self.model.completed:
                forms = [i, f"{i}.{SUFFIX}"] if self.kind == "dir" else [i]
                for f in forms:
                    if f not in fresh:
                        extra.append(("completed id is not 'in' the store", i, f, True))
            n = len(self.model.completed) + len(snap["nc"])
            v = fresh.validate()
            vd = dict(zip(v.columns["Condition"].tolist(), v.columns["Value"].tolist()))
            if not reopened and (int(vd["Num md5sum correct"]) != n or int(vd["Num md5sum incorrect"]) or int(vd["Num md5sum missing"])):
                extra.append(("validate() counts", "", {k: str(x) for k, x in vd.items()}, n))
            if self.model.last_log:
                lid, ldata = self.model.last_log
                logs = {os.path.basename(str(m.unique_id)): m for m in fresh.logs}
                stem = os.path.splitext(lid)[0] + ".log"
                name = next((x for x in (lid, f"{lid}.log", stem) if x in logs), None)
                if name is None:
                    extra.append(("last log missing", "", sorted(logs), lid))
                elif logs[name].read() != ldata:
                    extra.append(("log content", "", logs[name].read(), ldata))
        except Exception as e:  # noqa: BLE001
            reopened = []
            extra.append((f"observing the reopened store raised {type(e).__name__}", "", str(e)[:200], None))
        finally:
            if self.kind == "sqlite":
                fresh.close()
        lk = {(w, a) for w, a, _, _ in live}
        rk = {(w, a) for w, a, _, _ in reopened}
        seen = set()
        for what, affected, got, want in live + reopened + extra:
            if (what, affected) in lk and (what, affected) in rk:
                where = "store"
            elif (what, affected) in lk:
                where = "live store object only (stale cache)"
            else:
                where = "store as reopened"
            rel = self.relation(op, affected) if affected else "n/a"
            sig = f"{self.kind} store after {op[0]}: {where}: {what} of {rel} [{cls}]"
            if SUFFIX == "json" and self.kind == "dir":
                sig = sig[:-1] + "; the store's record suffix is json]"
            if sig not in seen:
                seen.add(sig)
                self.failures.append((sig, {"affected": affected, "got": got, "want": want}))

    def canon_key(self):
        return (self.kind, disk_digest(self.path), object_state(self.kind, self.store), self.model.key())

    def close(self):
        try:
            close_store(self.kind, self.store)
        except Exception:  # noqa: BLE001
            pass
        shutil.rmtree(self.dir, ignore_errors=True)


def alphabet(b):
    ops = []
    for i in b["ids"]:
        for d in b["payloads"]:
            if not i.endswith(".json"):  # the .json form only addresses not-completed records
                ops.append(("write", i, d))
            ops.append(("write_nc", i, d))
    ops.append(("write_log", "run.log", "log text"))
    ops.append(("drop_all",))
    for i in b["ids"]:
        if not i.endswith(".json"):  # drop_not_completed takes the record's identifier, not the file name of its json
            ops.append(("drop", i))
    for mode in ("r", "a", "w"):
        ops.append(("reopen", mode))
    return ops


def execute(kind, init_mode, hist, base):
    """run a whole history; returns (failures_of_last_step, canonical key or None)"""
    run = Run(kind, init_mode, base)
    try:
        for op in hist[:-1]:
            run.step(tuple(op))
        run.failures = []  # prefixes were judged when they were the last step
        if hist:
            run.step(tuple(hist[-1]))
        return run.failures, run.canon_key()
    finally:
        run.close()


def explore(spec, acc):
    global SUFFIX
    b = spec["bounds"]
    SUFFIX = spec.get("suffix", "fasta")  # the directory store's record suffix for this shard
    kind, init_mode = spec["kind"], spec["mode"]
    base = tempfile.gettempdir()
    ops = alphabet(b)
    first = tuple(spec["first"])
    seen = set()
    frontier = []
    # depth 1: the shard's first operation
    fails, key = execute(kind, init_mode, [first], base)
    acc.transitions += 1
    acc.traces += 1
    acc.case(None)
    report(acc, kind, init_mode, [first], fails)
    if not fails:
        seen.add(key)
        acc.state(1)
        frontier.append([first])
    for d in range(2, b["depth"] + 1):
        nxt = []
        for hist in frontier:
            for op in ops:
                h2 = hist + [op]
                fails, key = execute(kind, init_mode, h2, base)
                acc.transitions += 1
                acc.traces += 1
                acc.case(None)
                report(acc, kind, init_mode, h2, fails)
                acc.outcome((bool(fails), key[3][1:3] if key else None))
                if fails:
                    continue  # do not explore beyond a state that already disagrees with the model
                if key in seen:
                    continue
                seen.add(key)
                acc.state(d)
                if d < b["depth"]:
                    nxt.append(h2)
                elif len(acc.samples) < 2:
                    acc.sample({"store": kind, "initial_mode": init_mode, "history": [list(o) for o in h2]}, f"{kind}-{init_mode}")
        frontier = nxt


def report(acc, kind, init_mode, hist, fails):
    for sig, detail in fails:
        acc.fail(sig, {"kind": kind, "mode": init_mode, "history": [list(o) for o in hist], "suffix": SUFFIX}, detail)


def shards(tier, seed):
    b = bounds(tier)
    out = []
    for kind in ("dir", "sqlite"):
        for mode in b["init_modes"]:
            for op in alphabet(b):
                out.append({"kind": kind, "mode": mode, "first": list(op), "bounds": b})
    # a directory store whose records have the suffix json, which is also the suffix of its not-completed records
    # (what write_json produces): a completed x.json and not_completed/x.json are different members
    bj = dict(b, ids=["a", "ba", "a.json"])
    for mode in b["init_modes"]:
        for op in alphabet(bj):
            out.append({"kind": "dir", "mode": mode, "first": list(op), "bounds": bj, "suffix": "json"})
    return out


def run_shard(spec, acc):
    explore(spec, acc)


def replay(case):
    global SUFFIX
    SUFFIX = case.get("suffix", "fasta")
    fails, _ = execute(case["kind"], case["mode"], [tuple(o) for o in case["history"]], tempfile.gettempdir())
    return fails


LEVEL_TEXT = (
    "Explicit-state model checking of both writable store classes: every history of record writes (completed / not-completed / log), "
    "drops and close+reopen in every mode, over identifiers chosen to collide (suffix / prefix / embedded-suffix relations), is replayed on a "
    "fresh store up to the depth bound; after every step the live object and a freshly opened store are compared with a dict model "
    "(membership, content, checksum, validate()), states are merged on a key holding the disk content, the object's cached member lists and the model."
)
LEVEL_NOTE = (
    "Trusted: the file system in /dev/shm, sqlite3, scitrack's digest function (used as the definition of a record checksum). "
    "Decides histories up to the stated depth over the stated identifiers and payloads; single process, no concurrent writers."
)
