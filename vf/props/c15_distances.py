"""C15 - closed-form pairwise distances equal their published formulas; NJ / UPGMA are exact
on additive / ultrametric matrices.

K2, exhaustive input enumeration:

* estimators: every 4x4 pair-count matrix up to a total, realised as a two-sequence alignment
  (optionally on top of one AA,CC,GG,TT column each so that every base is present), every column
  order up to a length, every insertion of <= 2 non-canonical columns, every three-sequence
  alignment up to a length (duplicate shortcut), a protein sub-alphabet; all estimators and several
  entry points.  Oracle = the closed forms of vf.models.distances, exact rationals up to the log.
* trees: every labelled unrooted tree (multifurcations included) on 3..N tips with integer edge
  lengths, leaf i at matrix row i (= every shape x every tip order, once each) for NJ; every labelled
  dendrogram with integer node heights for UPGMA.  Oracle = the generating tree (path sums, splits).
"""

from __future__ import annotations

import itertools
import math

from vf.models import distances as D

PID = "C15"
LEVEL = "exploration"
TECHNIQUE = "exhaustive bounded enumeration of pair-count matrices / labelled trees against closed forms and the generating tree"
RULE = (
    "estimators: every 4x4 count matrix with total <= n (stars and bars, each once) x {as is, plus one column of each "
    "identical pair} x estimator x entry point; every column order of every alignment of length <= L; every insertion "
    "of <= 2 columns containing a gap / ambiguity code at every position; every 3-sequence alignment of length <= L3 "
    "over ACGT (+N,-); protein: every 3x3 sub-alphabet matrix. Non-trivial = the pair differs in >= 1 comparable column. "
    "trees: every labelled unrooted tree on 3..N tips (each internal node degree >= 3) x every integer length vector, "
    "leaf i = row i of the matrix; every labelled dendrogram with integer node heights; non-trivial = >= 4 tips "
    "(NJ) / >= 3 tips (UPGMA). All cases are distinct by construction."
)
ASSUMPTIONS = [
    "closed forms as written in vf/models/distances.py (JC69, TN93 with purine/pyrimidine classes and averaged base "
    "frequencies, Lake's paralinear, LogDet with and without the Tamura-Kumar coefficient); values compared with "
    "relative tolerance 1e-9 (absolute 1e-12)",
    "paralinear / LogDet: a zero diagonal count is replaced by 0.5 before normalising (cogent3's documented convention)",
    "where a formula is undefined (0 comparable columns, log of a non-positive number, exactly singular matrix, division "
    "by zero) the implementation must give nan / None / ArithmeticError; exact rational arithmetic decides 'undefined'",
    "a pair with >= 1 comparable column and no observed difference, and a pair of identical strings, may be reported as 0 by "
    "every estimator; TN93 with a base "
    "absent from both sequences may be undefined (formula as printed) or the limit value",
    "columns in which either sequence has a gap or an ambiguity code are excluded (documented); "
    "the distance of a pair depends only on that pair's columns",
    "NJ / UPGMA: integer edge lengths / node heights make every intermediate value a dyadic rational, so path sums are "
    "compared exactly; only edges of positive length define the topology (a multifurcation may be returned resolved "
    "with zero-length edges)",
]
EXHAUSTIVE = True
SHARD_TIMEOUT = {"quick": 600, "thorough": 3600}

NAMES = ["a", "ba", "c", "ab", "e", "f", "g"]  # names that are prefixes / reversals of each other
SEQNAMES = ["s1", "s2", "s3"]


def bounds(tier):
    return {
        "quick": {
            "matrix_total": 4, "matrix_total_variants": 2, "order_len": 3,
            "noncanon": {"one_column_total": 2, "two_columns_total": 1},
            "three": {"ACGT": 2, "ACN-": 2}, "protein_total": 3,
            "nj_tips_len128": 5, "nj_tips_len18": 6, "nj_forms_tips": 4,
            "upgma": {"2": 4, "3": 4, "4": 4, "5": 4, "6": 3},
        },
        "thorough": {
            "matrix_total": 6, "matrix_total_variants": 3, "order_len": 4,
            "noncanon": {"one_column_total": 3, "two_columns_total": 2},
            "three": {"ACGT": 2, "ACGTN-": 2, "ACN": 3}, "protein_total": 4,
            "nj_tips_len128": 6, "nj_tips_len18": 6, "nj_forms_tips": 5,
            "upgma": {"2": 5, "3": 5, "4": 5, "5": 5, "6": 5, "7": 4},
        },
    }[tier]


# ----------------------------------------------------------------------------- estimators: implementation access
_APPS = {}


def _moltype_letters(moltype):
    return {"dna": "ACGT", "rna": "ACGU", "protein": D.PROTEIN}[moltype]


def _calc_kwargs(est):
    if est == "logdet_classic":
        return "logdet", {"use_tk_adjustment": False}
    return est, {}


def _as_outcome(x):
    """float / None / nan -> finite float or UNDEF"""
    if x is None:
        return D.UNDEF
    try:
        x = float(x)
    except (TypeError, ValueError):
        return ("not a number", repr(x))
    if math.isinf(x):
        # an undefined distance is reported as an invalid (nan) entry, which drop_invalid() removes; an infinite one
        # is a number as far as drop_invalid() and the tree builders are concerned
        return ("infinite", repr(x))
    return x if math.isfinite(x) else D.UNDEF


def make_aln(seqs, names, moltype, array_align):
    from cogent3 import make_aligned_seqs

    return make_aligned_seqs(dict(zip(names, seqs)), moltype=moltype, array_align=array_align)


class _NoSuchForm(Exception):
    """this estimator cannot be asked for in this argument form (documented refusal at construction)"""


def observe(aln, names, moltype, est, entry):
    """returns (matrix-or-None, problems); matrix = {(i,j): outcome} over sequence indices"""
    from cogent3 import get_app
    from cogent3.evolve.fast_distance import get_distance_calculator

    cname, kw = _calc_kwargs(est)
    dm = None
    if entry == "calculator":
        c = get_distance_calculator(cname, moltype=moltype, alignment=aln, **kw)
        c.run(show_progress=False)
        dm = c.get_pairwise_distances()
    elif entry == "distance_matrix":
        try:
            dm = aln.distance_matrix(calc=cname)
        except ArithmeticError:
            return None, []
    elif entry == "drop_invalid":
        dm = aln.distance_matrix(calc=cname, drop_invalid=True)
        if dm is None:
            return None, []
    elif entry == "app":
        key = (cname, moltype)
        if key not in _APPS:
            _APPS[key] = get_app("fast_slow_dist", fast_calc=cname, moltype=moltype)
        dm = _APPS[key](aln)
        if not hasattr(dm, "array"):
            return None, [("app returned " + type(dm).__name__, str(dm)[:200], None)]
    elif entry in ("app_fast_only", "app_distance"):
        # the same app built without a moltype: the alignment's own letters still decide what a canonical column is
        key = (cname, entry)
        if key not in _APPS:
            try:
                _APPS[key] = get_app("fast_slow_dist", **{"fast_calc" if entry == "app_fast_only" else "distance": cname})
            except ValueError as e:
                _APPS[key] = str(e)
        if isinstance(_APPS[key], str):
            if "must provide a moltype" in _APPS[key]:
                raise _NoSuchForm
            raise ValueError(_APPS[key])
        dm = _APPS[key](aln)
        if not hasattr(dm, "array"):
            return None, [("app returned " + type(dm).__name__, str(dm)[:200], None)]
    probs = []
    got_names = list(dm.names)
    arr = dm.array
    if entry != "drop_invalid" and sorted(got_names) != sorted(names):
        probs.append(("names", got_names, names))
    out = {}
    pos = {n: k for k, n in enumerate(got_names)}
    for i, a in enumerate(names):
        for j, b in enumerate(names):
            if a in pos and b in pos:
                out[(i, j)] = _as_outcome(arr[pos[a], pos[b]])
    return out, probs


def pair_matrices(seqs, letters):
    return {(i, j): D.columns_to_matrix(list(zip(seqs[i], seqs[j])), letters)
            for i in range(len(seqs)) for j in range(len(seqs)) if i < j}


def equal_up_to_noncanonical(seqs, mats):
    """some pair shows no difference in its comparable columns although the strings differ"""
    return any(D.is_identical(m) and seqs[i] != seqs[j] for (i, j), m in mats.items())


def check_seqs(seqs, moltype, array_align, ests, entries, acc, part):
    """all estimators x entry points on one alignment of 2 or 3 sequences"""
    letters = _moltype_letters(moltype)
    k = len(seqs)
    names = SEQNAMES[:k]
    mats = pair_matrices(seqs, letters)
    allowed = {p: D.allowed(m, letters, ests) for p, m in mats.items()}
    for (i, j), a in allowed.items():
        if seqs[i] == seqs[j]:  # identity of a distance: d(x, x) = 0 is always acceptable
            for v in a.values():
                if 0.0 not in v:
                    v.append(0.0)
    nontrivial = any(not D.is_identical(m) for m in mats.values())
    fuzzy_dup = equal_up_to_noncanonical(seqs, mats)
    case = {"part": part, "seqs": list(seqs), "moltype": moltype, "array_align": array_align}
    aln = make_aln(seqs, names, moltype, array_align)
    for est in ests:
        at_calculator = set()  # (pair, kind) that already diverged in the calculator class itself
        for entry in entries:
            if entry != "calculator" and est == "logdet_classic":
                continue  # use_tk_adjustment is only reachable through the calculator class
            acc.case((part, seqs, moltype, array_align, est, entry), nontrivial=nontrivial)
            try:
                got, probs = observe(aln, names, moltype, est, entry)
            except _NoSuchForm:
                continue
            except Exception as e:  # noqa: BLE001
                acc.fail(f"{est} via {entry}: raised {type(e).__name__}", dict(case, est=est, entry=entry),
                         {"error": str(e)[:300]})
                acc.outcome((est, entry, "raised", type(e).__name__))
                continue
            for what, g, w in probs:
                acc.fail(f"{est} via {entry}: {what}", dict(case, est=est, entry=entry), {"got": g, "want": w})
            for (i, j), m in mats.items():
                want = allowed[(i, j)][est]
                if got is None:
                    # whole matrix refused (ArithmeticError / drop_invalid -> None): allowed iff some pair is undefined
                    obs = "refused"
                    if k == 2:
                        ok = D.UNDEF in want
                    else:
                        ok = any(D.UNDEF in allowed[p][est] for p in mats)
                    g1 = g2 = D.UNDEF
                else:
                    if (i, j) not in got:
                        # drop_invalid removed a sequence: allowed iff that sequence has an undefined pair
                        ok = any(D.UNDEF in allowed[p][est] for p in mats if i in p or j in p)
                        acc.outcome((est, "dropped"))
                        if not ok:
                            acc.fail(f"{est} via {entry}: sequence dropped although all its distances are defined",
                                     dict(case, est=est, entry=entry), {"pair": [i, j], "want": want})
                        continue
                    g1, g2 = got[(i, j)], got[(j, i)]
                    obs = g1 if g1 == D.UNDEF or isinstance(g1, tuple) else round(g1, 9)
                    ok = not isinstance(g1, tuple) and D.agrees(g1, want)
                    if g1 != g2 and not isinstance(g1, tuple):
                        acc.fail(f"{est} via {entry}: matrix not symmetric", dict(case, est=est, entry=entry),
                                 {"d_ij": g1, "d_ji": g2})
                acc.outcome((est, obs))
                if ok:
                    continue
                n_comp = sum(m)
                if n_comp == 0 and g1 != D.UNDEF:
                    sig = f"duplicate shortcut via {entry}: distance 0 reported for a pair [no comparable column]"
                elif fuzzy_dup and k > 2:
                    sig = (f"duplicate shortcut via {entry}: distance of a pair is not that of its own columns "
                           "[some pair is identical only up to non-canonical characters]")
                elif g1 == D.UNDEF:
                    sig = f"{est} via {entry}: no value where the closed form is defined"
                elif isinstance(g1, tuple) and g1[0] == "infinite":
                    sig = f"{est} via {entry}: infinite entry instead of an invalid one"
                elif D.UNDEF in want and len(want) == 1:
                    fam = "paralinear/logdet" if est in ("paralinear", "logdet", "logdet_classic") else est
                    sig = (f"{fam} via {entry}: finite value where the closed form is undefined "
                           f"[{D.why_undefined(est, m, letters)}]")
                else:
                    sig = f"{est} via {entry}: value differs from the closed form"
                kind = sig.split(": ", 1)[1]
                if entry == "calculator":
                    at_calculator.add(((i, j), kind))
                elif ((i, j), kind) in at_calculator:
                    continue  # same divergence, first seen at the calculator: one defect, one signature
                acc.fail(sig, dict(case, est=est, entry=entry),
                         {"pair": [seqs[i], seqs[j]], "count_matrix": list(m), "got": g1, "allowed": want})
            if got is not None:
                for i in range(k):
                    if (i, i) in got and got[(i, i)] != 0.0:
                        acc.fail(f"{est} via {entry}: non-zero diagonal", dict(case, est=est, entry=entry),
                                 {"got": got[(i, i)]})


NUC_ESTS = D.ESTIMATORS
ENTRIES_ALL = ("calculator", "distance_matrix", "drop_invalid", "app")
ENTRIES_MAIN = ("calculator", "distance_matrix")
ENTRIES_RNA = ("calculator", "distance_matrix", "app", "app_fast_only", "app_distance")


def realise(flat, base, letters):
    cols = D.matrix_columns(flat, letters) + [(c, c) for c in letters] * base
    return D.columns_to_seqs(cols)


def run_est(spec, acc):
    n, b = spec["n"], spec["b"]
    variants = n <= spec["vt"]
    done = 0
    for idx, flat in enumerate(D.count_matrices(n)):
        if idx % spec["of"] != spec["chunk"]:
            continue
        seqs = realise(flat, b, "ACGT")
        if not seqs[0]:
            continue
        check_seqs(seqs, "dna", True, NUC_ESTS, ENTRIES_ALL if variants else ENTRIES_MAIN, acc, "matrix")
        if variants:
            check_seqs(realise(flat, b, "ACGU"), "rna", True, NUC_ESTS, ENTRIES_RNA, acc, "matrix")
            check_seqs(seqs, "dna", False, NUC_ESTS, ENTRIES_MAIN, acc, "matrix")
        done += 1
        if done == 3:
            acc.sample({"count_matrix(ACGT x ACGT)": list(flat), "plus_identity_columns": b, "seqs": list(seqs)},
                       f"matrix{n}")


COLTYPES = [(x, y) for x in "ACGT" for y in "ACGT"]


def run_order(spec, acc):
    L = spec["L"]
    for idx, cols in enumerate(itertools.product(COLTYPES, repeat=L)):
        if idx % spec["of"] != spec["chunk"]:
            continue
        check_seqs(D.columns_to_seqs(cols), "dna", True, NUC_ESTS, ("calculator",), acc, "order")
    acc.sample({"all column sequences of length": L}, "order")


NONCANON = [("-", "A"), ("C", "-"), ("-", "-"), ("N", "C"), ("G", "N"), ("R", "G"), ("T", "Y"), ("?", "A"), ("N", "-"),
            ("N", "N")]


def run_noncanon(spec, acc):
    n, k = spec["n"], spec["k"]
    for idx, flat in enumerate(D.count_matrices(n)):
        if idx % spec["of"] != spec["chunk"]:
            continue
        cols = D.matrix_columns(flat)
        for extra in itertools.product(NONCANON, repeat=k):
            for where in itertools.combinations_with_replacement(range(len(cols) + 1), k):
                new = list(cols)
                for off, (p, c) in enumerate(zip(where, extra)):
                    new.insert(p + off, c)
                check_seqs(D.columns_to_seqs(new), "dna", True, NUC_ESTS, ("calculator",), acc, "noncanon")
    acc.sample({"matrices of total": n, "inserted columns": k, "column types": ["/".join(c) for c in NONCANON]}, "noncanon")


def run_three(spec, acc):
    L, alpha = spec["L"], spec["alphabet"]
    triples = list(itertools.product(alpha, repeat=3))
    for idx, cols in enumerate(itertools.product(triples, repeat=L)):
        if idx % spec["of"] != spec["chunk"]:
            continue
        seqs = tuple("".join(c[r] for c in cols) for r in range(3))
        check_seqs(seqs, "dna", True, NUC_ESTS, ("calculator",), acc, "three")
    acc.sample({"all 3-sequence alignments of length": L, "alphabet": alpha}, "three")


PROT_SUB = "AKW"
PROT_NONCANON = [("-", "W"), ("W", "-"), ("X", "Y"), ("Y", "?"), ("-", "A"), ("K", "X"), ("-", "-"), ("X", "?")]
PROT_ESTS = ("hamming", "pdist", "paralinear", "logdet", "logdet_classic")


def run_protein(spec, acc):
    n = spec["n"]
    for flat in D.count_matrices(n, 9):
        seqs = D.columns_to_seqs(D.matrix_columns(flat, PROT_SUB))
        if seqs[0]:
            check_seqs(seqs, "protein", True, PROT_ESTS, ENTRIES_MAIN, acc, "protein")
        # the same columns with one non-canonical column inserted (a gap, X or ? facing a residue from either end of the
        # alphabet): it is left out of the count whatever state it faces
        if seqs[0] and n <= 2:
            cols = D.matrix_columns(flat, PROT_SUB)
            for extra in PROT_NONCANON:
                for where in (0, len(cols)):
                    new = list(cols)
                    new.insert(where, extra)
                    check_seqs(D.columns_to_seqs(new), "protein", True, PROT_ESTS, ("calculator",), acc, "protein-noncanon")
    acc.sample({"protein sub-alphabet": PROT_SUB, "total": n, "non-canonical columns": ["/".join(c) for c in PROT_NONCANON]}, "protein")


# ----------------------------------------------------------------------------- trees: implementation access
def tree_edges(tree):
    """[(tip-name set below, length)] for every non-root node, and the list of tip names, by walking children"""
    out = []

    def rec(node):
        if not node.children:
            return [node.name]
        tips = []
        for c in node.children:
            t = rec(c)
            out.append((frozenset(t), c.length))
            tips += t
        return tips

    return rec(tree), out


def _num(x):
    return None if x is None else float(x)


def build_tree(method, form, dists, names):
    from cogent3 import get_app
    from cogent3.cluster.UPGMA import upgma
    from cogent3.evolve.fast_distance import DistanceMatrix
    from cogent3.phylo.nj import nj

    if form == "upper":
        arg = {k: v for k, v in dists.items() if names.index(k[0]) < names.index(k[1])}
    elif form == "lower-first":
        arg = {k: dists[k] for k in sorted(dists, reverse=True)}
    elif form in ("DistanceMatrix", "quick_tree", "app"):
        arg = DistanceMatrix(dists)
    elif form == "DistanceMatrix sliced before":
        # a part of the matrix was looked at first: that must not change the matrix
        arg = DistanceMatrix(dists)
        before = (list(arg.names), arg.array.tolist())
        arg[:2, :2]
        arg[[names[0], names[-1]]]
        if (list(arg.names), arg.array.tolist()) != before:
            raise RuntimeError("taking a slice of a DistanceMatrix changed the matrix it was taken from")
    elif form == "int dict":
        # exact data given as python ints
        arg = {k: (int(v) if float(v).is_integer() else v) for k, v in dists.items()}
    else:
        arg = dict(dists)
    if method == "nj":
        if form == "quick_tree":
            return arg.quick_tree()
        if form == "app":
            if "qt" not in _APPS:
                _APPS["qt"] = get_app("quick_tree")
            return _APPS["qt"](arg)
        return nj(arg, show_progress=False)
    return upgma(arg)


def check_tree(method, form, names, metric, want_groups, acc, case, root_height=None):
    """metric: {(i,j): number} over indices; want_groups: set of frozenset(names) (splits w/o anchor, or clades)"""
    n = len(names)
    dists = {(names[i], names[j]): float(v) for (i, j), v in metric.items()}
    sig0 = f"{method}({form})"
    try:
        tree = build_tree(method, form, dists, names)
        tips, edges = tree_edges(tree)
    except Exception as e:  # noqa: BLE001
        acc.fail(f"{sig0}: raised {type(e).__name__}", case, {"error": str(e)[:300]})
        acc.outcome((method, "raised", type(e).__name__))
        return
    if not hasattr(tree, "children"):
        acc.fail(f"{sig0}: returned {type(tree).__name__}", case, {"value": str(tree)[:300]})
        return
    newick = tree.get_newick(with_distances=True)
    if form in ("dict", "DistanceMatrix"):
        # the distances given to the tree builder are an input, not scratch space: the same object must give the same
        # tree again and must still hold the generating matrix (a seeded change made upgma() consume its argument)
        try:
            from cogent3.cluster.UPGMA import upgma
            from cogent3.evolve.fast_distance import DistanceMatrix
            from cogent3.phylo.nj import nj

            arg = DistanceMatrix(dists) if form == "DistanceMatrix" else dict(dists)
            fn = (lambda a: nj(a, show_progress=False)) if method == "nj" else upgma
            before = {k: float(v) for k, v in (arg.to_dict() if hasattr(arg, "to_dict") else arg).items()}
            first = fn(arg).get_newick(with_distances=True)
            after = {k: float(v) for k, v in (arg.to_dict() if hasattr(arg, "to_dict") else arg).items()}
            second = fn(arg).get_newick(with_distances=True)
            if after != before:
                acc.fail(f"{sig0}: the distance matrix passed in was modified", case, {"before": str(before)[:200], "after": str(after)[:200]})
            elif second != first:
                acc.fail(f"{sig0}: a second call on the same matrix object returns a different tree", case, {"first": first, "second": second})
        except Exception as e:  # noqa: BLE001
            acc.fail(f"{sig0}: re-using the distance matrix object raised {type(e).__name__}", case, {"error": str(e)[:300]})
    if sorted(tips) != sorted(names):
        acc.fail(f"{sig0}: tip names", case, {"got": tips, "want": names, "tree": newick})
        return
    lens = [_num(l) for _, l in edges]
    if any(l is None or l < 0 or l != l for l in lens):
        acc.fail(f"{sig0}: missing or negative branch length", case, {"tree": newick})
        return
    sets = [e for e, _ in edges]
    got = D.metric_from_edges(sets, lens, sorted(names))
    want = {(a, b): v for (a, b), v in dists.items()}
    want = {k: v for k, v in want.items() if k in got}
    if any(got[k] != want[k] for k in want):
        bad = next(k for k in sorted(want) if got[k] != want[k])
        acc.fail(f"{sig0}: tip-to-tip path length differs from the generating matrix", case,
                 {"pair": bad, "got": got[bad], "want": want[bad], "tree": newick})
    if method == "nj":
        anchor = names[0]
        groups = D.nontrivial_splits(sets, lens, names, anchor)
    else:
        groups = {e for e, l in zip(sets, lens) if l > 0 and 1 < len(e) < n}
        depth = {}

        def rec(node, d):
            if not node.children:
                depth[node.name] = d
            for c in node.children:
                rec(c, d + float(c.length))

        rec(tree, 0.0)
        if any(v != root_height for v in depth.values()):
            acc.fail(f"{sig0}: tips not at the generating root height", case,
                     {"root_to_tip": depth, "want": root_height, "tree": newick})
    if groups != want_groups:
        acc.fail(f"{sig0}: {'splits' if method == 'nj' else 'clades'} of positive-length edges differ from the generator",
                 case, {"got": sorted(map(sorted, groups)), "want": sorted(map(sorted, want_groups)), "tree": newick})
    # the library's own distance read-out of the returned tree
    try:
        own = tree.get_distances()
        if any(float(own[k]) != want[k] for k in want):
            bad = next(k for k in sorted(want) if float(own[k]) != want[k])
            acc.fail(f"{sig0}.get_distances(): differs from the generating matrix", case,
                     {"pair": bad, "got": float(own[bad]), "want": want[bad], "tree": newick})
    except Exception as e:  # noqa: BLE001
        acc.fail(f"{sig0}.get_distances(): raised {type(e).__name__}", case, {"error": str(e)[:300]})
    acc.outcome((method, tuple(sorted(len(g) for g in groups)), sum(lens)))


NJ_FORMS_MAIN = ("dict",)
NJ_FORMS_ALL = ("dict", "upper", "lower-first", "DistanceMatrix", "quick_tree", "app", "int dict", "DistanceMatrix sliced before")
UPGMA_FORMS_ALL = ("dict", "upper", "lower-first", "DistanceMatrix", "int dict", "DistanceMatrix sliced before")


def nj_case(n, tree, lens, forms, acc):
    names = NAMES[:n]
    es = D.unrooted_edge_sets(tree)
    metric = D.metric_from_edges(es, lens, range(n))
    want = {frozenset(names[i] for i in s)
            for s in D.nontrivial_splits(es, lens, list(range(n)), 0)}
    for form in forms:
        case = {"part": "nj", "n": n, "tree": tree, "lengths": list(lens), "form": form}
        acc.case(case, nontrivial=n >= 4)
        check_tree("nj", form, names, metric, want, acc, case)


def run_nj(spec, acc):
    n, vals = spec["n"], spec["vals"]
    forms = NJ_FORMS_ALL if spec["all_forms"] else NJ_FORMS_MAIN
    for idx, tree in enumerate(D.rooted_trees(range(1, n))):
        if idx % spec["of"] != spec["chunk"]:
            continue
        ne = len(D.unrooted_edge_sets(tree))
        for lens in itertools.product(vals, repeat=ne):
            nj_case(n, tree, lens, forms, acc)
        acc.sample({"unrooted tree: leaf 0 joined to": tree, "edge lengths": f"all of {vals}^{ne}",
                    "tips": NAMES[:n]}, f"nj{n}")


def run_nj_contrast(spec, acc):
    """additive matrices whose internal edges are many orders of magnitude shorter than their terminal edges (all
    dyadic, so every intermediate value of neighbour joining is exact in double precision): the join criterion of a
    true cherry and of a wrong pair then differ only in the low bits of numbers of the size of the whole tree"""
    n = spec["n"]
    for idx, tree in enumerate(D.rooted_trees(range(1, n))):
        if idx % spec["of"] != spec["chunk"]:
            continue
        es = D.unrooted_edge_sets(tree)
        for shift in range(3):
            ti, ii = itertools.count(shift), itertools.count(shift)
            lens = tuple(2.0 ** (7 + next(ti) % 4) if len(e) in (1, n - 1) else 2.0 ** (-13 + next(ii) % 2) for e in es)
            nj_case(n, tree, lens, NJ_FORMS_MAIN, acc)
    acc.sample({"nj, contrasting edge lengths": True, "tips": n, "terminal": "2^7..2^10", "internal": "2^-13, 2^-12"}, f"njcontrast{n}")


def upgma_case(n, tree, heights, forms, acc):
    names = NAMES[:n]
    metric, clades = D.dendrogram_metric(tree, heights)
    want = {frozenset(names[i] for i in c) for c in clades if 1 < len(c) < n}
    for form in forms:
        case = {"part": "upgma", "n": n, "tree": tree, "heights": heights, "form": form}
        acc.case(case, nontrivial=n >= 3)
        check_tree("upgma", form, names, metric, want, acc, case, root_height=float(heights[0]))


def run_upgma(spec, acc):
    n, H = spec["n"], spec["H"]
    forms = UPGMA_FORMS_ALL if n <= 4 else ("dict",)
    for idx, (tree, heights) in enumerate(D.dendrograms(range(n), H)):
        if idx % spec["of"] != spec["chunk"]:
            continue
        upgma_case(n, tree, heights, forms, acc)
        if idx % 499 == 0:
            acc.sample({"dendrogram": tree, "node heights": heights, "tips": NAMES[:n]}, f"upgma{n}")


# ----------------------------------------------------------------------------- the conversion apps of app/dist.py
APPROX_P = [0.0, 0.1, 0.25, 0.5]


def run_approx(spec, acc):
    """approx_jc69 / approx_pdist on every matrix over three names with entries from a small lattice; the same input matrix
    is converted twice (4 states, then 20): the closed form each time, and the input is the caller's and stays as it was"""
    from cogent3 import get_app
    from cogent3.app.dist import JACCARD_PDIST_POLY_COEFFS
    from cogent3.evolve.fast_distance import DistanceMatrix

    names = ["a", "b", "c"]
    pairs = [(0, 1), (0, 2), (1, 2)]
    for vals in itertools.product(APPROX_P, repeat=3):
        d = {}
        for (i, j), v in zip(pairs, vals):
            d[(names[i], names[j])] = d[(names[j], names[i])] = v
        for order in (("jc4", "jc20"), ("jc20", "jc4"), ("pdist", "pdist"), ("pdist", "jc4")):
            case = {"part": "approx", "values": list(vals), "order": list(order)}
            acc.case(case, nontrivial=any(vals))
            dm = DistanceMatrix(dict(d))
            for step, which in enumerate(order):
                if which == "pdist":
                    app = get_app("approx_pdist")
                    f = lambda x: sum(float(c) * x ** k for k, c in enumerate(reversed(list(JACCARD_PDIST_POLY_COEFFS))))  # noqa: E731
                else:
                    ns = 4 if which == "jc4" else 20
                    app = get_app("approx_jc69", num_states=ns)
                    f = lambda x, ns=ns: -(ns - 1) / ns * math.log(1 - ns / (ns - 1) * x)  # noqa: E731
                try:
                    got = app(dm)
                    garr = got.array
                    gn = list(got.names)
                except Exception as e:  # noqa: BLE001
                    acc.fail(f"{which} conversion app: raised {type(e).__name__}", case, {"error": str(e)[:200]})
                    break
                acc.outcome(("approx", which, step))
                bad = []
                for (i, j), v in zip(pairs, vals):
                    for a, b2 in ((i, j), (j, i)):
                        g = float(garr[gn.index(names[a]), gn.index(names[b2])])
                        if abs(g - f(v)) > 1e-12 * max(1.0, abs(f(v))):
                            bad.append([names[a], names[b2], g, f(v)])
                if any(float(garr[k, k]) != 0.0 for k in range(3)):
                    bad.append(["diagonal"])
                if bad:
                    acc.fail(f"{which} conversion app: result differs from the closed form of the matrix it was given"
                             + (" [second conversion of the same matrix]" if step else ""), case, {"differences": bad[:3]})
                    break
                now = {(names[i], names[j]): float(dm.array[list(dm.names).index(names[i]), list(dm.names).index(names[j])]) for i in range(3) for j in range(3) if i != j}
                if now != {k: float(v) for k, v in d.items()}:
                    acc.fail(f"{which} conversion app: the matrix it was given is changed", case, {"now": [[*k, v] for k, v in now.items()][:3]})
                    break
    acc.sample({"approx apps": ["approx_jc69", "approx_pdist"], "lattice": APPROX_P, "names": names}, "approx")


# ----------------------------------------------------------------------------- shards
def shards(tier, seed):
    b = bounds(tier)
    out = [{"part": "approx"}]
    for n in range(0, b["matrix_total"] + 1):
        of = max(1, min(128, D.n_count_matrices(n) * (50 if n <= b["matrix_total_variants"] else 7) // 1500))
        for base in (0, 1):
            for c in range(of):
                out.append({"part": "est", "n": n, "b": base, "vt": b["matrix_total_variants"], "chunk": c, "of": of})
    for L in range(1, b["order_len"] + 1):
        of = max(1, min(128, 16 ** L * 7 // 1500))
        for c in range(of):
            out.append({"part": "order", "L": L, "chunk": c, "of": of})
    for k, key in ((1, "one_column_total"), (2, "two_columns_total")):
        for n in range(0, b["noncanon"][key] + 1):
            of = max(1, min(136, D.n_count_matrices(n) * (10 * (n + 1) if k == 1 else 50 * (n + 1) * (n + 2)) * 7 // 1500))
            for c in range(of):
                out.append({"part": "noncanon", "n": n, "k": k, "chunk": c, "of": of})
    for alpha, Lmax in sorted(b["three"].items()):
        for L in range(1, Lmax + 1):
            of = max(1, min(128, (len(alpha) ** 3) ** L * 7 // 1000))
            for c in range(of):
                out.append({"part": "three", "L": L, "alphabet": alpha, "chunk": c, "of": of})
    for n in range(1, b["protein_total"] + 1):
        out.append({"part": "protein", "n": n})
    for n in range(3, max(b["nj_tips_len128"], b["nj_tips_len18"]) + 1):
        vals = [1, 2, 8] if n <= b["nj_tips_len128"] else [1, 8]
        ntrees = {3: 1, 4: 4, 5: 26, 6: 236, 7: 2752}[n]
        of = 1 if n < 5 else (26 if n == 5 else (118 if n == 6 else 344))
        of = min(of, ntrees)
        for c in range(of):
            out.append({"part": "nj", "n": n, "vals": vals, "all_forms": n <= b["nj_forms_tips"], "chunk": c, "of": of})
    for n in (5, 6):
        of = 4 if n == 5 else 16
        for c in range(of):
            out.append({"part": "njcontrast", "n": n, "chunk": c, "of": of})
    for n_s, H in sorted(b["upgma"].items()):
        n = int(n_s)
        of = 1 if n < 5 else (8 if n == 5 else 48)
        for c in range(of):
            out.append({"part": "upgma", "n": n, "H": H, "chunk": c, "of": of})
    return out


def run_shard(spec, acc):
    {"est": run_est, "order": run_order, "noncanon": run_noncanon, "three": run_three, "protein": run_protein,
     "approx": run_approx, "nj": run_nj, "njcontrast": run_nj_contrast, "upgma": run_upgma}[spec["part"]](spec, acc)


def _tuplify(x):
    return tuple(_tuplify(v) for v in x) if isinstance(x, list) else x


def replay(case):
    from vf.kernel.runner import Acc

    acc = Acc()
    part = case["part"]
    if part == "nj":
        nj_case(case["n"], _tuplify(case["tree"]), tuple(case["lengths"]), (case["form"],), acc)
    elif part == "upgma":
        upgma_case(case["n"], _tuplify(case["tree"]), _tuplify(case["heights"]), (case["form"],), acc)
    elif part == "approx":
        run_approx({}, acc)
    else:
        ests = (case["est"],) if "est" in case else NUC_ESTS
        entries = ENTRIES_MAIN
        if "entry" in case:  # the calculator is always observed first (wrapper failures are attributed to it)
            entries = ("calculator",) + ((case["entry"],) if case["entry"] != "calculator" else ())
        check_seqs(tuple(case["seqs"]), case["moltype"], case["array_align"], ests, entries, acc, part)
    return [(sig, rec["cases"][0]["detail"]) for sig, rec in acc.failures.items()]


LEVEL_TEXT = (
    "Bounded exhaustive exploration on the real estimators and tree builders: every 4x4 pair-count matrix up to the stated total "
    "(also on top of a complete set of identical columns, so that TN93 / paralinear / LogDet are defined for most of them), every "
    "column order, every insertion of gap / ambiguity columns, every 3-sequence alignment up to the stated length, and every labelled "
    "tree with small integer edge lengths (= every shape x every tip order) are executed and compared with closed forms evaluated in "
    "exact rational arithmetic and with the generating tree. Inside the bounds the verdict is complete; the formulas are functions "
    "of the count matrix only and NJ / UPGMA on exact data depend only on shape, tip order and ties, all of which are enumerated."
)
LEVEL_NOTE = (
    "Trusted: python fractions / math.log and the ~250-line reference model (closed forms as transcribed from the papers, tree metric "
    "by edge separation). Nothing is claimed for totals, lengths or tip numbers above the bounds in the evidence file, nor for "
    "non-integer branch lengths (floating-point rounding is outside the 'exact data' premise)."
)
