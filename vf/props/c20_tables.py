"""C20 - tables follow the list-of-rows model and survive delimited / JSON / pickle round trips.

K2: exhaustive enumeration of
  ops    every table with typed columns (int / float / bool / str, incl. ties, prefixes, the empty string) up to the
         row x column bound x every operation x every argument of a small complete argument domain
         (sorted: every ordered column subset x every reverse subset; filtered / count: every column x every domain
         value x callable / string expression; count_unique / distinct_values / get_columns: every ordered column
         subset; every row slice; derived columns; renamed headers; transposed on every column), followed by a
         second operation on every table-valued result (depth 2)
  pairs  every ordered pair of (key, payload) tables up to the row bound: inner_join (explicit key, natural),
         joined, cross_join, appended (with / without a source column)
  rt     every table over a cell domain of tricky texts (delimiter, tab, quotes, empty, builtin names, numeric-looking,
         None) x {write tsv/csv/explicit sep} x {plain, .gz, .bz2}, to_csv()/to_tsv(), JSON, pickle
Oracle = header list + list of row tuples with python's sorted / comprehensions / nested loops / zip / Counter;
round trip: same header, same cell text (numbers restored as numbers), the written text is also read with python's
csv module so that a failure is attributed to the writer or to the loader.
"""

from __future__ import annotations

import bz2
import collections
import csv
import gzip
import io
import itertools
import math
import os
import pickle
import tempfile

PID = "C20"
LEVEL = "exploration"
TECHNIQUE = "exhaustive bounded enumeration of tables x operation arguments x output formats against a list-of-row-tuples model"
RULE = (
    "every table whose columns are drawn from typed column families (all value tuples over the type's small domain) up to the "
    "row x column bound x every operation argument of the listed domains x a second operation on every table-valued result; "
    "every ordered pair of key/payload tables for joins and appending; every table over the round-trip cell domain x every "
    "output configuration. Tables are distinct by construction (value tuples de-duplicated); non-trivial = the table has "
    ">= 1 row (round trips: >= 1 cell that is not a plain word / plain number)"
)
ASSUMPTIONS = [
    "columns are homogeneous (one python type per column, optionally None as missing value in the round-trip part)",
    "sorting is judged on tables with >= 1 row and nan-free columns; the order among rows that tie on all sort keys is judged like python's stable sort but reported under its own signature",
    "sorted(columns, reverse) with reverse partly outside columns is not judged (undocumented)",
    "transposed is judged on tables with >= 1 row; it must raise ValueError when the header column has duplicate values (documented)",
    "delimited round trip: cell text of None is the empty string; a str cell that is itself a numeric literal may come back as that number (documented type inference); float cells written by to_csv/to_tsv are compared to 4 decimals (documented display precision), by write() exactly",
    "python's csv module (excel dialect) is the reference reader for deciding whether the writer or the loader is at fault",
    "summed / normalized / head / tail are not part of the statement and not judged",
]
EXHAUSTIVE = True
SHARD_TIMEOUT = {"quick": 600, "thorough": 3600}

NAN = float("nan")


def bounds(tier):
    return {
        "quick": {
            "ops_rows": 2, "ops_cols": 2, "ops_rows3_reduced_domain": True,
            "pair_rows": 2, "rt_rows": 2, "rt_cols_full_domain": 1, "rt_cols_reduced_domain": 2,
        },
        "thorough": {
            "ops_rows": 3, "ops_cols": 2, "ops_rows3_reduced_domain": False,
            "pair_rows": 3, "rt_rows": 2, "rt_cols_full_domain": 2, "rt_rows_one_column": 3, "rt_cols_tiny_domain": 3,
        },
    }[tier]


# ----------------------------------------------------------------------------- domains
OPS_DOMAIN = {
    "int": [0, 1, -2],
    "float": [0.5, 2.0, -1.5],
    "bool": [True, False],
    "str": ["a", "ab", "", "b"],
}
OPS_DOMAIN_SMALL = {
    "int": [0, 1],
    "float": [0.5, -1.5],
    "bool": [True, False],
    "str": ["a", "ab", ""],
}
RT_FULL = {
    "int": [0, 1, -2, None],
    "float": [0.5, 1e-3, NAN, None],
    "bool": [True, False, None],
    "str": ["a", "b c", "x,y", "x\ty", ",y", "\ty", 'q"t', "'s", "", "max", "01", 'x,"y', None],  # incl. a delimiter as the first character
}
RT_REDUCED = {
    "int": [1, None],
    "float": [0.5, NAN],
    "bool": [True],
    "str": ["a", "x,y", "x\ty", ",y", 'q"t', "", "max", 'x,"y'],
}
RT_TINY = {"int": [1], "float": [0.5], "str": ["a", "x,y", "", None]}
HEADERS = {1: ["k"], 2: ["k", "p"], 3: ["k", "p", "q"]}
RT_HEADERS = [["a", "b c", "d"], ["x,y", 'q"t', "t\tu"]]


def typed_columns(domain, nrows):
    """[(type, values)] for every value tuple of every type; identical value tuples of different types once"""
    out, seen = [], set()
    for typ, vals in domain.items():
        for t in itertools.product(vals, repeat=nrows):
            key = repr(t)
            if key in seen:
                continue
            seen.add(key)
            out.append((typ, list(t)))
    return out


def tables(domain, nrows, ncols):
    """every (types, header, rows) with ncols typed columns of nrows values"""
    cols = typed_columns(domain, nrows) if nrows else [(t, []) for t in domain]
    for combo in itertools.product(cols, repeat=ncols):
        types = [c[0] for c in combo]
        rows = [tuple(c[1][i] for c in combo) for i in range(nrows)]
        yield types, HEADERS[ncols], rows


# ----------------------------------------------------------------------------- cell comparison
def py(v):
    import numpy

    if isinstance(v, numpy.generic):
        return v.item()
    if isinstance(v, (list, tuple)):
        return [py(x) for x in v]
    return v


def same(a, b, tol=0.0):
    a, b = py(a), py(b)
    if isinstance(a, (list, tuple)) or isinstance(b, (list, tuple)):
        return (isinstance(a, (list, tuple)) and isinstance(b, (list, tuple)) and len(a) == len(b)
                and all(same(x, y, tol) for x, y in zip(a, b)))
    if isinstance(a, bool) != isinstance(b, bool):
        return False
    if isinstance(a, float) or isinstance(b, float):
        if not isinstance(a, (int, float)) or not isinstance(b, (int, float)):
            return False
        if a != a or b != b:
            return a != a and b != b
        return a == b or abs(a - b) <= tol or math.isclose(a, b, rel_tol=1e-12)
    return type(a) is type(b) and a == b


def jv(v):
    """JSON-able rendering of a cell"""
    v = py(v)
    if isinstance(v, float) and v != v:
        return "nan"
    if isinstance(v, (list, tuple)):
        return [jv(x) for x in v]
    if isinstance(v, (str, int, float, bool)) or v is None:
        return v
    return repr(v)


def unj(v):
    if v == "nan":
        return NAN
    if isinstance(v, list):
        return tuple(unj(x) for x in v)
    return v


# ----------------------------------------------------------------------------- model
class Rev:
    """reverses the order of the wrapped value"""

    __slots__ = ("v",)

    def __init__(self, v):
        self.v = v

    def __lt__(self, other):
        return other.v < self.v

    def __eq__(self, other):
        return self.v == other.v


def m_sort_columns(header, columns, reverse):
    """the (column, reversed?) key list documented for Table.sorted, or None when undefined"""
    reverse = [] if reverse is None else ([reverse] if isinstance(reverse, str) else list(reverse))
    if columns is None:
        columns = list(reverse) if reverse else list(header)
    elif isinstance(columns, str):
        columns = [columns]
    columns = list(columns)
    if reverse and not set(columns) & set(reverse):
        columns += [c for c in reverse if c not in columns]
    if any(c not in columns for c in reverse):
        return None
    return [(c, c in reverse) for c in columns]


def m_sorted(header, rows, keys):
    idx = [(header.index(c), r) for c, r in keys]
    return sorted(rows, key=lambda row: tuple(Rev(row[i]) if r else row[i] for i, r in idx))


def m_inner_join(h1, r1, h2, r2, k1, k2, prefix="right_"):
    i1 = [h1.index(c) for c in k1]
    i2 = [h2.index(c) for c in k2]
    keep = [j for j, c in enumerate(h2) if c not in k2]
    header = list(h1) + [prefix + h2[j] for j in keep]
    rows = []
    for a in r1:
        for b in r2:
            if all(a[x] == b[y] for x, y in zip(i1, i2)):
                rows.append(tuple(a) + tuple(b[j] for j in keep))
    return header, rows


def m_cross_join(h1, r1, h2, r2, prefix="right_"):
    return list(h1) + [prefix + c for c in h2], [tuple(a) + tuple(b) for a in r1 for b in r2]


# ----------------------------------------------------------------------------- implementation access
def mk(header, rows, **kw):
    from cogent3 import make_table

    if rows:
        return make_table(header=list(header), data=[list(r) for r in rows], **kw)
    return make_table(header=list(header), data=[], **kw)


def observe(t):
    header = [str(h) for h in t.header]
    shape = tuple(int(x) for x in t.shape)
    rows = [tuple(py(r)) for r in t.array.tolist()]
    return header, shape, rows, py(t.to_list())


class Ctx:
    """per-table context: reports failures with an operation label and a structural class"""

    def __init__(self, acc, case, nontrivial):
        self.acc, self.case, self.nt = acc, case, nontrivial

    def fail(self, op, obs, cls, arg, got, want):
        c = dict(self.case)
        c["op"], c["arg"] = op, jv(arg)
        self.acc.fail(f"Table.{op}: {obs} [{cls}]", c, {"got": jv(got), "want": jv(want)})

    def table(self, op, cls, arg, thunk, want_header, want_rows, raises=None, tol=0.0, rows_only=False):
        """run thunk, compare the resulting table with the model; returns the table or None

        rows_only: the source table has no rows and the operation selects rows / columns: cogent3 drops columns
        without values by design, so only the (empty) row list is judged"""
        self.acc.case((op, jv(arg)), nontrivial=self.nt)
        try:
            t = thunk()
        except Exception as e:  # noqa: BLE001
            if raises and isinstance(e, raises):
                self.acc.outcome((op, "raised as documented"))
                return None
            self.fail(op, f"raised {type(e).__name__}", cls, arg, f"{type(e).__name__}: {str(e)[:150]}",
                      {"header": want_header, "rows": want_rows})
            self.acc.outcome((op, "raised", type(e).__name__))
            return None
        if raises:
            self.fail(op, "did not raise", cls, arg, None, raises.__name__)
            return None
        try:
            header, shape, rows, tl = observe(t)
        except Exception as e:  # noqa: BLE001
            self.fail(op, f"observing the result raised {type(e).__name__}", cls, arg, str(e)[:150], None)
            return None
        want_rows = [tuple(r) for r in want_rows]
        ok = True
        if rows_only and not want_rows:
            if rows or shape[0] != 0:
                self.fail(op, "rows", cls, arg, rows, want_rows)
                ok = False
            self.acc.outcome((op, ok, "empty source"))
            return t if ok and header == list(want_header) else None
        if header != list(want_header):
            self.fail(op, "header", cls, arg, header, want_header)
            ok = False
        elif shape != (len(want_rows), len(want_header)):
            self.fail(op, "shape", cls, arg, shape, (len(want_rows), len(want_header)))
            ok = False
        elif not same(rows, want_rows, tol):
            what = "rows"
            if sorted(map(repr, map(jv, rows))) == sorted(map(repr, map(jv, want_rows))):
                what = "row order"
            self.fail(op, what, cls, arg, rows, want_rows)
            ok = False
        else:
            want_tl = [r[0] for r in want_rows] if len(want_header) == 1 else [list(r) for r in want_rows]
            if not same(tl, want_tl, tol):
                self.fail(op, "to_list", cls, arg, tl, want_tl)
                ok = False
        self.acc.outcome((op, ok, len(want_rows), len(want_header)))
        return t if ok else None

    def value(self, op, cls, arg, thunk, want, conv=lambda x: x):
        self.acc.case((op, jv(arg)), nontrivial=self.nt)
        try:
            got = conv(thunk())
        except Exception as e:  # noqa: BLE001
            self.fail(op, f"raised {type(e).__name__}", cls, arg, f"{type(e).__name__}: {str(e)[:150]}", want)
            self.acc.outcome((op, "raised", type(e).__name__))
            return
        ok = got == want if isinstance(want, (dict, set)) else same(got, want)
        if not ok:
            self.fail(op, "value", cls, arg, sorted(map(repr, got.items())) if isinstance(got, dict) else
                      (sorted(map(repr, got)) if isinstance(got, set) else got),
                      sorted(map(repr, want.items())) if isinstance(want, dict) else
                      (sorted(map(repr, want)) if isinstance(want, set) else want))
        self.acc.outcome((op, ok, repr(jv(want))[:40] if not isinstance(want, (dict, set)) else len(want)))


def ordered_subsets(items, nonempty=True):
    out = []
    for k in range(1 if nonempty else 0, len(items) + 1):
        out.extend(list(p) for p in itertools.permutations(items, k))
    return out


def counter_of(cc):
    """CategoryCounter -> dict with python keys"""
    out = {}
    for k, v in cc.items():
        k = py(k)
        out[tuple(k) if isinstance(k, list) else k] = int(v)
    return out


def frozen(v):
    v = py(v)
    return tuple(v) if isinstance(v, list) else v


# ----------------------------------------------------------------------------- operations on one table
def check_table(acc, types, header, rows, domain, depth, case):
    """every operation x argument on the table built from (header, rows)"""
    n, ncol = len(rows), len(header)
    ctx = Ctx(acc, case, nontrivial=n > 0)
    zero = ", table with zero rows" if n == 0 else ""
    t = mk(header, rows, title="T")
    if ctx.table("make_table", "construction" + zero, None, lambda: t, header, rows) is None:
        return
    col = {c: [r[i] for r in rows] for i, c in enumerate(header)}
    typ = dict(zip(header, types))
    results = []  # (header, rows, table) for depth 2

    # --- sorted
    if n >= 1:
        col_args = [None] + [c for c in header] + ordered_subsets(header)
        rev_args = [None] + [c for c in header] + ordered_subsets(header)
        for columns in col_args:
            for reverse in rev_args:
                keys = m_sort_columns(header, columns, reverse)
                if keys is None:
                    continue
                want = m_sorted(header, rows, keys)
                rcols = [c for c, r in keys if r]
                rtypes = {typ[c] for c in rcols}

                def has_prefix_pair(c):
                    vals = set(col[c])
                    return any(a != b and b.startswith(a) for a in vals for b in vals)

                if "bool" in rtypes:
                    cls = "reverse on a bool column"
                elif any(typ[c] == "str" and has_prefix_pair(c) for c in rcols):
                    cls = "reverse on a str column in which one value is a prefix of another"
                elif "str" in rtypes:
                    cls = "reverse on a str column"
                elif rtypes:
                    cls = "reverse on a numeric column"
                else:
                    cls = "no reverse"
                keyidx = [header.index(c) for c, _ in keys]
                arg = {"columns": columns, "reverse": reverse}
                # the order among rows that tie on every sort key is reported under its own class
                res, exc = None, None
                try:
                    res = t.sorted(columns=columns, reverse=reverse)
                    got_rows = [tuple(py(x)) for x in res.array.tolist()]
                    if (not same(got_rows, want) and sorted(map(repr, got_rows)) == sorted(map(repr, want))
                            and same([[r[i] for i in keyidx] for r in got_rows], [[r[i] for i in keyidx] for r in want])):
                        cls = "order among rows that tie on every sort key"
                except Exception as e:  # noqa: BLE001
                    exc = e

                def thunk(res=res, exc=exc):
                    if exc is not None:
                        raise exc
                    return res

                r = ctx.table("sorted", cls, arg, thunk, header, want)
                if r is not None and depth:
                    results.append((header, want, r))

    # --- filtered / count
    cmp_ops = [("==", lambda a, b: a == b), ("<", lambda a, b: a < b)]
    if True:
        for c in header:
            for v in domain[typ[c]]:
                for sym, fn in cmp_ops:
                    if sym == "<" and typ[c] == "bool":
                        continue
                    want = [r for r in rows if fn(r[header.index(c)], v)]
                    arg = {"column": c, "test": sym, "value": v}
                    r1 = ctx.table("filtered", "callable, one column" + zero, arg,
                                   lambda: t.filtered(lambda x, v=v, fn=fn: fn(x, v), columns=c), header, want)
                    ctx.table("filtered", "string expression" + zero, arg,
                              lambda: t.filtered(f"{c} {sym} {v!r}"), header, want)
                    ctx.value("count", "callable, one column" + zero, arg,
                              lambda: t.count(lambda x, v=v, fn=fn: fn(x, v), columns=c), len(want), conv=lambda x: int(x))
                    ctx.value("count", "string expression" + zero, arg,
                              lambda: t.count(f"{c} {sym} {v!r}"), len(want), conv=lambda x: int(x))
                    if r1 is not None and depth and sym == "==":
                        results.append((header, want, r1))
        if ncol == 2:
            c0, c1 = header
            for v0 in domain[typ[c0]]:
                for v1 in domain[typ[c1]]:
                    want = [r for r in rows if r[0] == v0 or r[1] == v1]
                    arg = {"columns": header, "test": "r[0]==v0 or r[1]==v1", "values": [v0, v1]}
                    ctx.table("filtered", "callable, several columns" + zero, arg,
                              lambda: t.filtered(lambda r, v0=v0, v1=v1: r[0] == v0 or r[1] == v1, columns=list(header)),
                              header, want)
                    ctx.value("count", "callable, several columns" + zero, arg,
                              lambda: t.count(lambda r, v0=v0, v1=v1: r[0] == v0 or r[1] == v1), len(want), conv=lambda x: int(x))

    # --- filtered_by_column
    preds = {
        "constant column": (lambda a: len(set(a.tolist())) <= 1, lambda vals: len(set(vals)) <= 1),
        "first value equals last": (lambda a: len(a) > 0 and a[0] == a[-1], lambda vals: len(vals) > 0 and vals[0] == vals[-1]),
        "never": (lambda a: False, lambda vals: False),
    }
    for name, (real, model) in preds.items():
        keep = [c for c in header if model(col[c])]
        want_rows = [tuple(r[header.index(c)] for c in keep) for r in rows] if keep else []
        acc.case(("filtered_by_column", name), nontrivial=n > 0)
        try:
            r = t.filtered_by_column(real)
            got = [str(h) for h in r.header]
            if got != keep:
                ctx.fail("filtered_by_column", "header", "callable on column arrays" + zero, name, got, keep)
            elif keep and not same([tuple(py(x)) for x in r.array.tolist()], want_rows):
                ctx.fail("filtered_by_column", "rows", "callable on column arrays" + zero, name, r.array.tolist(), want_rows)
            acc.outcome(("filtered_by_column", tuple(keep) == tuple(got)))
        except Exception as e:  # noqa: BLE001
            ctx.fail("filtered_by_column", f"raised {type(e).__name__}", "callable on column arrays" + zero, name, str(e)[:150], keep)

    # --- count_unique / distinct_values / get_columns / to_list(columns)
    subsets = ordered_subsets(header)
    for cols in [None] + [c for c in header] + subsets:
        use = list(header) if cols is None else ([cols] if isinstance(cols, str) else cols)
        idx = [header.index(c) for c in use]
        if len(use) == 1:
            keys = [r[idx[0]] for r in rows]
        else:
            keys = [tuple(r[i] for i in idx) for r in rows]
        cls = ("one column" if len(use) == 1 else "several columns") + zero
        ctx.value("count_unique", cls, cols, lambda: t.count_unique(cols), dict(collections.Counter(keys)), conv=counter_of)
        if cols is not None:
            ctx.value("distinct_values", cls, cols, lambda: t.distinct_values(cols), set(keys),
                      conv=lambda s: {frozen(x) for x in s})
            want = [tuple(r[i] for i in idx) for r in rows]
            r = ctx.table("get_columns", cls, cols, lambda: t.get_columns(cols), use, want, rows_only=n == 0)
            ctx.table("__getitem__[:, columns]", cls, cols, lambda: t[:, cols], use, want, rows_only=n == 0)
            if r is not None and depth and isinstance(cols, list):
                results.append((use, want, r))

    # --- row slices
    bnds = [None] + list(range(-n, n + 1))
    for a in bnds:
        for b in bnds:
            r = ctx.table("__getitem__[a:b]", "row slice" + zero, [a, b], lambda: t[a:b], header, rows[a:b], rows_only=n == 0)
    # --- derived columns
    for c in header:
        double = {"int": lambda x: x * 2, "float": lambda x: x * 2, "bool": lambda x: not x, "str": lambda x: x + "z"}[typ[c]]
        want = [tuple(r) + (double(r[header.index(c)]),) for r in rows]
        r = ctx.table("with_new_column", "callable, one column" + zero, {"column": c},
                      lambda: t.with_new_column("new", double, columns=c), list(header) + ["new"], want)
        if r is not None and depth:
            results.append((list(header) + ["new"], want, r))
        if typ[c] != "bool":
            want = [tuple(r) + (r[header.index(c)] * 2,) for r in rows]
            ctx.table("with_new_column", "string expression" + zero, {"expr": f"{c} * 2"},
                      lambda: t.with_new_column("new", f"{c} * 2"), list(header) + ["new"], want)
    if ncol == 2:
        want = [tuple(r) + (repr(r[0]) + "|" + repr(r[1]),) for r in rows]
        ctx.table("with_new_column", "callable, several columns" + zero, {"columns": header},
                  lambda: t.with_new_column("new", lambda r: repr(py(r[0])) + "|" + repr(py(r[1])), columns=list(header)),
                  list(header) + ["new"], want)
    # --- renamed headers
    for c in header:
        newh = ["z 1" if h == c else h for h in header]
        ctx.table("with_new_header", "one label" + zero, {"old": c}, lambda: t.with_new_header(c, "z 1"), newh, rows)
    if ncol == 2:
        ctx.table("with_new_header", "swap two labels" + zero, None,
                  lambda: t.with_new_header(list(header), list(header)[::-1]), list(header)[::-1], rows)
    # --- transposed
    if n >= 1:
        for c in header:
            vals = col[c]
            others = [h for h in header if h != c]
            newh = ["new"] + [str(v) for v in vals]
            want = [tuple([o] + col[o]) for o in others]
            dup = len(set(vals)) != len(vals)
            cls = ("header column of type " + typ[c]) + (", duplicate values" if dup else "")
            if len(set(newh)) != len(newh) and not dup:
                continue  # the new labels would collide as text
            ctx.table("transposed", cls, {"select_as_header": c},
                      lambda: t.transposed("new", select_as_header=c), newh, want, raises=ValueError if dup else None)

    # --- operations that change the table object itself: the object is observed (rows materialised) before and after
    # each step of a short history, so whatever it keeps from an earlier observation is exposed
    for c in header:
        ci = header.index(c)
        unique = len(set(col[c])) == len(col[c])
        t2 = mk(header, rows)
        mh, mr = list(header), [tuple(r) for r in rows]
        if ctx.table("in place", "fresh copy" + zero, None, lambda: t2, mh, mr) is None:
            break

        def _set_index(name):
            t2.index_name = name
            return t2

        if unique:
            mh = [c] + [h for h in header if h != c]
            mr = [tuple([r[ci]] + [v for i, v in enumerate(r) if i != ci]) for r in rows]
            if ctx.table("in place: index_name = column", "after the rows were read once" + zero, {"index_name": c}, lambda: _set_index(c), mh, mr) is None:
                continue
            if ctx.table("in place: index_name = None", "after the rows were read once" + zero, {"index_name": None}, lambda: _set_index(None), mh, mr) is None:
                continue
        else:
            ctx.table("in place: index_name = column", "column with repeated values" + zero, {"index_name": c}, lambda: _set_index(c), mh, mr, raises=ValueError)
            # the refused assignment must leave the table as it was (the same object keeps being used below)
            if ctx.table("in place: after a refused index_name", "column with repeated values" + zero, {"index_name": c}, lambda: t2, mh, mr) is None:
                continue
            ctx.value("in place: after a refused index_name", "index_name", {"index_name": c}, lambda: t2.index_name, None)
        # refused changes (a column of the wrong length, deleting a column that is not there) leave the table as it was
        def _bad_col():
            t2.columns["zz"] = list(range(n + 1))
            return t2

        def _bad_del():
            del t2.columns["no such column"]
            return t2

        if n:  # a table without rows takes its number of rows from the first column it is given
            ctx.table("in place: columns[new] = values of the wrong length", "refused" + zero, None, _bad_col, mh, mr, raises=ValueError)
        ctx.table("in place: del columns[missing]", "refused" + zero, None, _bad_del, mh, mr, raises=KeyError)
        if ctx.table("in place: after refused column changes", "refused" + zero, None, lambda: t2, mh, mr) is None:
            continue
        newvals = list(range(100, 100 + n))

        def _set_col():
            t2.columns["zz"] = newvals
            return t2

        mh2 = mh + ["zz"]
        mr2 = [tuple(r) + (newvals[i],) for i, r in enumerate(mr)]
        if n and ctx.table("in place: columns[new] = values", "after the rows were read once", {"column": "zz"}, _set_col, mh2, mr2) is not None:
            def _del_col():
                del t2.columns[mh2[0]]
                return t2

            ctx.table("in place: del columns[first]", "after the rows were read once", {"column": mh2[0]}, _del_col, mh2[1:], [r[1:] for r in mr2])

    # --- depth 2: a second operation on every table-valued result, against the model of that result
    for h2, r2, tab in results:
        c2 = dict(case)
        c2["via"] = "second operation"
        ctx2 = Ctx(acc, c2, nontrivial=len(r2) > 0)
        k0 = h2[0]
        ctx2.value("count_unique", "after another operation", None, lambda: tab.count_unique(), dict(collections.Counter(
            [r[0] for r in r2] if len(h2) == 1 else [tuple(r) for r in r2])), conv=counter_of)
        ctx2.table("get_columns", "after another operation", h2[::-1], lambda: tab.get_columns(h2[::-1]), h2[::-1],
                   [tuple(r[::-1]) for r in r2], rows_only=not r2)
        ctx2.table("__getitem__[a:b]", "after another operation", [0, 1], lambda: tab[0:1], h2, r2[0:1], rows_only=not r2)
        if r2:
            v = r2[-1][0]
            ctx2.table("filtered", "after another operation", {"column": k0, "value": v},
                       lambda: tab.filtered(lambda x: x == v, columns=k0), h2, [r for r in r2 if r[0] == v])
            if typ.get(k0, "new") != "bool" and all(isinstance(r[0], type(r2[0][0])) for r in r2):
                ctx2.table("sorted", "after another operation", {"columns": k0},
                           lambda: tab.sorted(columns=k0), h2, sorted(r2, key=lambda r: r[0]))


# ----------------------------------------------------------------------------- pairs of tables
def kp_tables(keys, payloads, maxrows):
    cells = [(k, p) for k in keys for p in payloads]
    for n in range(maxrows + 1):
        for rows in itertools.product(cells, repeat=n):
            yield list(rows)


PAIR_FAMILIES = {
    "int key": ([0, 1, -2], ["a", ""]),
    "str key": (["a", "ab", ""], [0, 1]),
}


def check_pair(acc, fam, rows1, rows2):
    h1, h2 = ["k", "p"], ["k", "p"]
    case = {"part": "pairs", "family": fam, "rows1": jv(rows1), "rows2": jv(rows2)}
    nt = bool(rows1) and bool(rows2)
    ctx = Ctx(acc, case, nontrivial=nt)
    zero = ", a table with zero rows" if not (rows1 and rows2) else ""
    dup = ", duplicate keys" if (len({r[0] for r in rows1}) < len(rows1) or len({r[0] for r in rows2}) < len(rows2)) else ""
    t1, t2 = mk(h1, rows1, title="left"), mk(h2, rows2, title="right")
    wh, wr = m_inner_join(h1, rows1, h2, rows2, ["k"], ["k"])
    ctx.table("inner_join", "explicit key column" + dup + zero, "k",
              lambda: t1.inner_join(t2, columns_self="k", columns_other="k"), wh, wr)
    ctx.table("joined", "explicit key column" + dup + zero, "k",
              lambda: t1.joined(t2, columns_self="k", columns_other="k"), wh, wr)
    ctx.table("inner_join", "key given for one side only" + dup + zero, "k",
              lambda: t1.inner_join(t2, columns_self="k"), wh, wr)
    wh, wr = m_inner_join(h1, rows1, h2, rows2, ["k", "p"], ["k", "p"])
    ctx.table("joined", "natural join on all shared columns" + zero, None, lambda: t1.joined(t2), wh, wr)
    ctx.table("inner_join", "natural join on all shared columns" + zero, None,
              lambda: t1.inner_join(t2, use_index=False), wh, wr)
    wh, wr = m_inner_join(h1, rows1, h2, rows2, ["p"], ["p"])
    ctx.table("inner_join", "explicit key column" + zero, "p",
              lambda: t1.inner_join(t2, columns_self=["p"], columns_other=["p"]), wh, wr)
    # key columns with different names in the two tables; the other table has an ordinary column named like self's key
    h3 = ["j", "k"]
    t3 = mk(h3, rows2, title="right")
    wh, wr = m_inner_join(h1, rows1, h3, rows2, ["k"], ["j"])
    ctx.table("inner_join", "key columns named differently" + dup + zero, ["k", "j"],
              lambda: t1.inner_join(t3, columns_self="k", columns_other="j"), wh, wr)
    ctx.table("joined", "key columns named differently" + dup + zero, ["k", "j"],
              lambda: t1.joined(t3, columns_self="k", columns_other="j"), wh, wr)
    wh, wr = m_cross_join(h1, rows1, h2, rows2)
    ctx.table("cross_join", "two tables" + zero, None, lambda: t1.cross_join(t2), wh, wr)
    ctx.table("cross_join", "two tables" + zero, "via joined(inner_join=False)", lambda: t1.joined(t2, inner_join=False), wh, wr)
    # index based join needs unique keys
    if rows1 and rows2 and not dup:
        i1, i2 = mk(h1, rows1, index_name="k"), mk(h2, rows2, index_name="k")
        wh, wr = m_inner_join(h1, rows1, h2, rows2, ["k"], ["k"])
        ctx.table("inner_join", "index columns", None, lambda: i1.inner_join(i2), wh, wr)
    # appended
    ctx.table("appended", "no source column" + zero, None, lambda: t1.appended(None, t2), h1, list(rows1) + list(rows2))
    ctx.table("appended", "with a source column" + zero, "src", lambda: t1.appended("src", t2), ["src"] + h1,
              [("left",) + tuple(r) for r in rows1] + [("right",) + tuple(r) for r in rows2])
    ctx.table("appended", "three tables" + zero, None, lambda: t1.appended(None, t2, t1), h1,
              list(rows1) + list(rows2) + list(rows1))
    ctx.table("appended", "list of tables" + zero, None, lambda: t1.appended(None, [t2, t2]), h1,
              list(rows1) + list(rows2) + list(rows2))


# ----------------------------------------------------------------------------- round trips
BUILTIN_WORDS = {"max", "min", "id", "sum", "len", "abs", "all", "any", "map", "set", "int", "str", "type", "list"}


def is_numeric_literal(s):
    for f in (int, float, complex):
        try:
            f(s)
            return True
        except ValueError:
            pass
    return False


def cell_class(v, sep=None):
    if v is None:
        return "missing value (None)"
    if isinstance(v, bool):
        return "bool cell"
    if isinstance(v, int):
        return "int cell"
    if isinstance(v, float):
        return "nan cell" if v != v else "float cell"
    if v == "":
        return "empty str cell"
    if v in BUILTIN_WORDS:
        return "str cell that is the name of a python builtin"
    has_sep = (sep is not None and sep in v) or (sep is None and ("," in v or "\t" in v))
    if has_sep and '"' in v:
        return "str cell containing the delimiter and a double quote"
    if has_sep:
        return "str cell containing the delimiter"
    if '"' in v or "'" in v:
        return "str cell containing a quote"
    if is_numeric_literal(v):
        return "numeric-looking str cell"
    if any(ch.isspace() for ch in v):
        return "str cell containing white space"
    return "plain str cell"


CLASS_ORDER = [
    "str cell containing the delimiter and a double quote", "str cell containing the delimiter", "str cell containing a quote",
    "str cell that is the name of a python builtin", "empty str cell", "missing value (None)", "nan cell",
    "numeric-looking str cell", "str cell containing white space", "bool cell", "float cell", "int cell", "plain str cell",
]


def table_class(header, rows, sep=None):
    if not rows:
        return "table with zero rows"
    have = {cell_class(v, sep) for r in rows for v in r}
    return next(c for c in CLASS_ORDER if c in have)


def expected_text(v):
    return "" if v is None else str(v)


def cell_text_ok(written, text, formatted):
    """does the text in the file denote the cell that was written?"""
    if written is None:
        return text in ("", "None")
    if isinstance(written, bool) or isinstance(written, str):
        return text == str(written)
    if isinstance(written, int):
        return text.strip() == str(written)
    try:
        f = float(text)
    except ValueError:
        return False
    return same(f, float(written), tol=0.5e-4 if formatted else 0.0)


def cell_loaded_ok(written, got, formatted, column_has_missing=False):
    got = py(got)
    if written is None:
        return got == "" or got is None
    if isinstance(written, bool):
        return (isinstance(got, bool) and got == written) or (column_has_missing and got == str(written))
    if isinstance(written, (int, float)):
        if column_has_missing and isinstance(got, str):
            # a column with missing values is not a numeric column: judged by cell text
            return cell_text_ok(written, got, formatted)
        if isinstance(got, bool) or not isinstance(got, (int, float)):
            return False
        return same(float(got), float(written), tol=0.5e-4 if formatted else 0.0)
    if isinstance(got, str):
        return got == written
    if is_numeric_literal(written) and isinstance(got, (int, float, complex)) and not isinstance(got, bool):
        return complex(got) == complex(written)
    return False


def _tmp(name):
    d = os.path.join(tempfile.gettempdir(), f"c20-{os.getpid()}")
    os.makedirs(d, exist_ok=True)
    return os.path.join(d, name)


def _clean():
    d = os.path.join(tempfile.gettempdir(), f"c20-{os.getpid()}")
    if os.path.isdir(d):
        for f in os.listdir(d):
            p = os.path.join(d, f)
            if os.path.isfile(p):
                os.remove(p)


DELIMITED = [
    # label, file name, sep given to write/load, how produced
    ("write(.tsv)", "t.tsv", None, "write", "\t"),
    ("write(.tsv.gz)", "t.tsv.gz", None, "write", "\t"),
    ("write(.tsv.bz2)", "t.tsv.bz2", None, "write", "\t"),
    ("write(.csv)", "t.csv", None, "write", ","),
    ("write(.csv.gz)", "t.csv.gz", None, "write", ","),
    ("write(.csv.bz2)", "t.csv.bz2", None, "write", ","),
    ("write(.txt, sep=',')", "t.txt", ",", "write", ","),
    ("write(.txt, sep=tab)", "t.txt", "\t", "write", "\t"),
    # an explicit separator that is not the one the file suffix suggests: the argument wins, on both sides
    ("write(.csv, sep=tab)", "u.csv", "\t", "write", "\t"),
    ("write(.tsv.gz, sep=',')", "u.tsv.gz", ",", "write", ","),
    ("to_csv()", "s.csv", None, "to_csv", ","),
    ("to_tsv()", "s.tsv", None, "to_tsv", "\t"),
]
_PLAIN_RT = {}


def read_any(path):
    with open(path, "rb") as f:
        raw = f.read()
    if raw[:2] == b"\x1f\x8b":
        return gzip.decompress(raw).decode("utf8"), "gz"
    if raw[:3] == b"BZh":
        return bz2.decompress(raw).decode("utf8"), "bz2"
    return raw.decode("utf8"), ""


def rt_delimited(acc, header, rows, conf, case, probe=False):
    from cogent3 import load_table

    label, fname, sep_arg, how, sep = conf
    formatted = how != "write"
    wlabel = "write (delimited)" if how == "write" else "to_csv()/to_tsv()"
    c = dict(case)
    c["config"] = label
    nt = table_class(header, rows, sep) not in ("plain str cell", "int cell", "float cell")
    if not probe:
        acc.case(c, nontrivial=nt)
    cls = table_class(header, rows, sep)
    _clean()
    path = _tmp(fname)
    t = mk(header, rows)

    def fail(sig, detail):
        if probe:
            raise AssertionError(sig)
        acc.fail(sig, c, detail)

    def raised_class(stage, e):
        if not probe:
            try:
                rt_delimited(acc, ["a", "b"], [("w", 1), ("v", 2)], conf, case, probe=True)
            except AssertionError as pe:
                if f"raised {type(e).__name__}" in str(pe):
                    return "any table"
            except Exception:  # noqa: BLE001
                pass
        return cls

    # 1. write
    try:
        if how == "write":
            kw = {} if sep_arg is None else {"sep": sep_arg}
            t.write(path, **kw)
        else:
            text = t.to_csv() if how == "to_csv" else t.to_tsv()
            with open(path, "w", newline="") as f:
                f.write(text + "\n")
    except Exception as e:  # noqa: BLE001
        fail(f"Table.{wlabel}: raised {type(e).__name__} [{raised_class('write', e)}]", {"error": str(e)[:200]})
        return
    if not os.path.exists(path):
        there = sorted(os.listdir(os.path.dirname(path)))
        suffix = os.path.splitext(fname)[1]
        fail(f"Table.write: no file at the given path [{suffix} suffix]", {"wanted": fname, "directory_has": there})
        acc.outcome(("rt", label, "no file")) if not probe else None
        return
    # 2. independent read of what was written
    text, comp = read_any(path)
    want_comp = {".gz": "gz", ".bz2": "bz2"}.get(os.path.splitext(fname)[1], "")
    if comp != want_comp:
        fail(f"Table.write: compression does not match the suffix [{os.path.splitext(fname)[1]} suffix]", {"found": comp})
    ref = list(csv.reader(io.StringIO(text, newline=""), dialect="excel", delimiter=sep))
    want_texts = [[expected_text(v) for v in r] for r in rows]
    writer_ok = True
    if not ref or ref[0] != list(header):
        writer_ok = False
        hc = table_class(["h"], [tuple(header)], sep)
        hc = hc.replace("str cell", "header label")
        fail(f"Table.{wlabel}: written header [{hc}]", {"text": text[:300], "csv_module_reads": ref[:3], "want": header})
    else:
        body = ref[1:]
        if len(body) != len(rows) or any(len(r) != len(header) for r in body):
            writer_ok = False
            bad = next((i for i, r in enumerate(body) if i >= len(rows) or len(r) != len(header)), len(body))
            rc = table_class(header, [rows[bad]], sep) if bad < len(rows) else cls
            if len(header) == 1:
                rc += ", one-column table"
            fail(f"Table.{wlabel}: written rows do not have the table's shape [{rc}]",
                 {"text": text[:300], "csv_module_reads": body[:4], "want": want_texts})
        else:
            for r_w, r_t in zip(rows, body):
                for v, txt in zip(r_w, r_t):
                    if writer_ok and not cell_text_ok(v, txt, formatted):
                        writer_ok = False
                        fail(f"Table.{wlabel}: written cell text [{cell_class(v, sep)}]",
                             {"text": text[:300], "csv_module_reads": txt, "want": expected_text(v)})
    if not probe:
        acc.outcome(("rt", label, "writer", writer_ok))
    if not writer_ok:
        if not probe:
            acc.count("loader_not_judged_after_writer_failure")
        return
    # 3. the loader
    try:
        kw = {} if sep_arg is None else {"sep": sep_arg}
        g = load_table(path, **kw)
        gh = [str(h) for h in g.header]
        gshape = tuple(int(x) for x in g.shape)
        grows = [tuple(py(r)) for r in g.array.tolist()]
    except Exception as e:  # noqa: BLE001
        fail(f"load_table (delimited text): raised {type(e).__name__} [{raised_class('load', e)}]",
             {"error": f"{type(e).__name__}: {str(e)[:200]}", "text": text[:300]})
        if not probe:
            acc.outcome(("rt", label, "load raised", type(e).__name__))
        return
    ok = True
    if gh != list(header):
        ok = False
        fail(f"load_table (delimited text): header [{table_class(['h'], [tuple(header)], sep)}]", {"got": gh, "want": header})
    elif gshape != (len(rows), len(header)):
        ok = False
        fail(f"load_table (delimited text): shape [{cls}]", {"got": gshape, "want": (len(rows), len(header)), "text": text[:300]})
    else:
        missing = [any(r[j] is None for r in rows) for j in range(len(header))]
        for r_w, r_g in zip(rows, grows):
            for j, (v, gv) in enumerate(zip(r_w, r_g)):
                if ok and not cell_loaded_ok(v, gv, formatted, missing[j]):
                    ok = False
                    what = "cell text" if isinstance(v, str) or v is None else "cell value / type"
                    fail(f"load_table (delimited text): {what} [{cell_class(v, sep)}]",
                         {"got": jv(gv), "got_type": type(py(gv)).__name__, "want": jv(v), "text": text[:300]})
    if not probe:
        acc.outcome(("rt", label, "loaded", ok))
    # the other reader of delimited text: load_table(reader=FilteringParser(...)) splits lines itself and returns text; where
    # no cell needs quoting it must see the same header and the same cells (an empty first / last cell included)
    texts = [expected_text(h) for h in header] + [expected_text(v) for r in rows for v in r]
    if (ok and writer_ok and not probe and label == "write(.tsv)" and len(header) > 1 and rows
            and all(not any(ch in t for ch in '\t"\n\r') and t == t.strip() for t in texts)
            and not all(all(expected_text(v) == "" for v in r) for r in rows)):
        from cogent3.parse.table import FilteringParser

        try:
            g2 = load_table(path, reader=FilteringParser(with_header=True, sep="\t"))
            gh2 = [str(h) for h in g2.header]
            grows2 = [[str(x) for x in r] for r in g2.array.tolist()]
            # judged against what the default loader made of the same file (text that reads as a number is a number for both)
            want2 = [[str(x) for x in gr] for r, gr in zip(rows, g.array.tolist()) if any(expected_text(v) != "" for v in r)]
            def norm(x):
                # a dropped empty line can change what a column is taken for (text or numbers): numbers are compared as numbers
                for conv in (int, float):
                    try:
                        return repr(conv(x))
                    except ValueError:
                        pass
                return x

            grows2 = [[norm(x) for x in r] for r in grows2]
            want2 = [[norm(x) for x in r] for r in want2]
            if gh2 != list(header) or grows2 != want2:
                fail("load_table(reader=FilteringParser): header / cells differ from the default loader [plain cells, possibly empty]",
                     {"got_header": gh2, "got": grows2[:4], "want": want2[:4], "text": text[:300]})
        except Exception as e:  # noqa: BLE001
            fail(f"load_table(reader=FilteringParser): raised {type(e).__name__} [plain cells, possibly empty]", {"error": str(e)[:200], "text": text[:300]})


def rt_exact(acc, header, rows, label, case):
    """JSON / pickle: header and cells come back exactly (values and python types)"""
    from cogent3 import load_table

    c = dict(case)
    c["config"] = label
    cls = table_class(header, rows)
    acc.case(c, nontrivial=cls not in ("plain str cell", "int cell", "float cell"))
    _clean()
    t = mk(header, rows)
    try:
        if label == "pickle.dumps/loads":
            g = pickle.loads(pickle.dumps(t))
        elif label == "to_json()/deserialise_object":
            from cogent3.util.deserialise import deserialise_object

            g = deserialise_object(t.to_json())
        else:
            path = _tmp({"write(.json)": "t.json", "write(.json.gz)": "t.json.gz", "write(.pickle)": "t.pickle"}[label])
            t.write(path)
            g = load_table(path)
        gh = [str(h) for h in g.header]
        gshape = tuple(int(x) for x in g.shape)
        grows = [tuple(py(r)) for r in g.array.tolist()]
    except Exception as e:  # noqa: BLE001
        acc.fail(f"Table.{label}: raised {type(e).__name__} [{cls}]", c, {"error": f"{type(e).__name__}: {str(e)[:200]}"})
        acc.outcome(("rt", label, "raised", type(e).__name__))
        return
    ok = True
    if gh != list(header):
        ok = False
        acc.fail(f"Table.{label}: header [{cls}]", c, {"got": gh, "want": header})
    elif gshape != (len(rows), len(header)):
        ok = False
        acc.fail(f"Table.{label}: shape [{cls}]", c, {"got": gshape, "want": (len(rows), len(header))})
    else:
        for r_w, r_g in zip(rows, grows):
            for v, gv in zip(r_w, r_g):
                if ok and not same(gv, v):
                    ok = False
                    acc.fail(f"Table.{label}: cell [{cell_class(v)}]", c, {"got": jv(gv), "got_type": type(py(gv)).__name__, "want": jv(v)})
    acc.outcome(("rt", label, ok))


EXACT = ["write(.json)", "write(.json.gz)", "write(.pickle)", "pickle.dumps/loads", "to_json()/deserialise_object"]


MIXED = [True, 1, 1.0, False, 0, 0.0]


def check_mixed(acc):
    """columns of mixed python types (object columns): values that are equal across types (True == 1 == 1.0) keep their
    own text, whatever was formatted before them - in the same column, or in an earlier table of the same process"""
    for first in itertools.product(MIXED, repeat=2):
        for second in itertools.product(MIXED, repeat=2):
            case = {"part": "mixed", "first_table": jv(list(first)), "second_table": jv(list(second))}
            acc.case(case, nontrivial=True)
            for label, vals in (("first", first), ("second", second)):
                rows = [(f"r{i}", v) for i, v in enumerate(vals)] + [("rz", "x")]
                t = mk(["k", "v"], rows)
                for how, sep in (("to_csv", ","), ("to_tsv", "\t")):
                    try:
                        text = getattr(t, how)()
                        body = list(csv.reader(io.StringIO(text, newline=""), dialect="excel", delimiter=sep))[1:]
                    except Exception as e:  # noqa: BLE001
                        acc.fail(f"Table.{how}(): raised {type(e).__name__} [column of mixed types]", case, {"error": str(e)[:200]})
                        continue
                    bad = [(v, r[1]) for (k, v), r in zip(rows, body) if not cell_text_ok(v, r[1], True)]
                    if len(body) != len(rows) or bad:
                        acc.fail("Table.to_csv()/to_tsv(): written cell text [column of mixed types: a value equal to one of another type]", dict(case, table=label),
                                 {"text": text[:200], "wrong": jv(bad[:3])})
            acc.outcome(("mixed", repr(first), repr(second)))
    acc.sample({"mixed-type columns": True, "values": jv(MIXED)}, "mixed")


SORT_TEXT = ["a", "z", "A", "~", "\x7f", "\x80", "\xe9", "\xfc", "\xf1", "\xff"]


def check_sorted_text(acc):
    """reverse sorting of a text column whose one-character values lie on both sides of the ASCII / Latin-1 boundary (no
    value is a prefix of another): every table of two or three distinct values, alone and as the second sort key"""
    for n in (2, 3):
        for vals in itertools.permutations(SORT_TEXT, n):
            rows = [(v, i % 2) for i, v in enumerate(vals)]
            case = {"part": "sorted_text", "values": list(vals)}
            acc.case(case, nontrivial=True)
            t = mk(["s", "k"], rows)
            for columns, reverse in (("s", "s"), (["k", "s"], "s"), (["s"], None), (["k", "s"], ["k", "s"])):
                keys = m_sort_columns(["s", "k"], columns, reverse)
                want = m_sorted(["s", "k"], rows, keys)
                try:
                    got = [tuple(py(x)) for x in t.sorted(columns=columns, reverse=reverse).array.tolist()]
                except Exception as e:  # noqa: BLE001
                    acc.fail(f"sorted: raised {type(e).__name__} [text beyond ASCII]", dict(case, columns=columns, reverse=reverse), {"error": str(e)[:200]})
                    continue
                acc.outcome(("sorted_text", reverse is not None, got == want))
                if got != want:
                    acc.fail("sorted: row order [" + ("reverse on a str column" if reverse else "no reverse") + "; one-character values beyond ASCII]",
                             dict(case, columns=columns, reverse=reverse), {"got": jv(got), "want": jv(want)})
    acc.sample({"sorted text": True, "values": SORT_TEXT}, "sorted_text")


def check_rt(acc, header, rows, case):
    for conf in DELIMITED:
        rt_delimited(acc, header, rows, conf, case)
    for label in EXACT:
        rt_exact(acc, header, rows, label, case)


# ----------------------------------------------------------------------------- shards
def shards(tier, seed):
    b = bounds(tier)
    out = []
    for ncols in range(1, b["ops_cols"] + 1):
        for nrows in range(0, b["ops_rows"] + 1):
            ntab = len(list(tables(OPS_DOMAIN, nrows, ncols)))
            nch = max(1, min(64, ntab // 40))
            for c in range(nch):
                out.append({"part": "ops", "domain": "full", "rows": nrows, "cols": ncols, "chunk": c, "of": nch})
    if b.get("ops_rows3_reduced_domain"):
        for ncols in (1, 2):
            ntab = len(list(tables(OPS_DOMAIN_SMALL, 3, ncols)))
            nch = max(1, min(64, ntab // 40))
            for c in range(nch):
                out.append({"part": "ops", "domain": "small", "rows": 3, "cols": ncols, "chunk": c, "of": nch})
    for fam in PAIR_FAMILIES:
        n1 = len(list(kp_tables(*PAIR_FAMILIES[fam], b["pair_rows"])))
        nch = max(1, min(64, n1 // 4))
        for c in range(nch):
            out.append({"part": "pairs", "family": fam, "rows": b["pair_rows"], "chunk": c, "of": nch})
    for nrows in range(0, b["rt_rows"] + 1):
        for ncols in range(1, b["rt_cols_full_domain"] + 1):
            ntab = len(list(tables(RT_FULL, nrows, ncols)))
            nch = max(1, min(128, ntab // 30))
            for c in range(nch):
                out.append({"part": "rt", "domain": "full", "rows": nrows, "cols": ncols, "chunk": c, "of": nch})
    if b.get("rt_cols_reduced_domain"):
        for nrows in (1, 2):
            ntab = len(list(tables(RT_REDUCED, nrows, 2)))
            nch = max(1, min(128, ntab // 30))
            for c in range(nch):
                out.append({"part": "rt", "domain": "reduced", "rows": nrows, "cols": 2, "chunk": c, "of": nch})
    if b.get("rt_rows_one_column"):
        ntab = len(list(tables(RT_FULL, 3, 1)))
        nch = max(1, min(128, ntab // 30))
        for c in range(nch):
            out.append({"part": "rt", "domain": "full", "rows": 3, "cols": 1, "chunk": c, "of": nch})
    if b.get("rt_cols_tiny_domain"):
        ntab = len(list(tables(RT_TINY, 2, 3)))
        nch = max(1, min(128, ntab // 30))
        for c in range(nch):
            out.append({"part": "rt", "domain": "tiny", "rows": 2, "cols": 3, "chunk": c, "of": nch})
    out.append({"part": "rtheaders"})
    out.append({"part": "mixed"})
    out.append({"part": "sorted_text"})
    return out


DOMAINS = {"full": OPS_DOMAIN, "small": OPS_DOMAIN_SMALL}
RT_DOMAINS = {"full": RT_FULL, "reduced": RT_REDUCED, "tiny": RT_TINY}


def run_shard(spec, acc):
    part = spec["part"]
    if part == "ops":
        dom = DOMAINS[spec["domain"]]
        for i, (types, header, rows) in enumerate(tables(dom, spec["rows"], spec["cols"])):
            if i % spec["of"] != spec["chunk"]:
                continue
            case = {"part": "ops", "domain": spec["domain"], "types": types, "header": header, "rows": jv(rows)}
            check_table(acc, types, header, rows, dom, 1, case)
            acc.sample({"header": header, "rows": jv(rows), "operations": "sorted, filtered, count, count_unique, distinct_values, "
                        "get_columns, slices, with_new_column, with_new_header, transposed, then a second operation"},
                       f"ops{spec['rows']}x{spec['cols']}")
    elif part == "pairs":
        keys, payloads = PAIR_FAMILIES[spec["family"]]
        all_t = list(kp_tables(keys, payloads, spec["rows"]))
        for i, r1 in enumerate(all_t):
            if i % spec["of"] != spec["chunk"]:
                continue
            for r2 in all_t:
                check_pair(acc, spec["family"], r1, r2)
        acc.sample({"pairs_of": spec["family"], "max_rows": spec["rows"], "operations": "inner_join, joined, cross_join, appended"}, "pairs")
    elif part == "rt":
        dom = RT_DOMAINS[spec["domain"]]
        for i, (types, header, rows) in enumerate(tables(dom, spec["rows"], spec["cols"])):
            if i % spec["of"] != spec["chunk"]:
                continue
            h = RT_HEADERS[0][: spec["cols"]]
            case = {"part": "rt", "header": h, "rows": jv(rows)}
            check_rt(acc, h, rows, case)
            acc.sample({"header": h, "rows": jv(rows), "configs": [c[0] for c in DELIMITED] + EXACT}, f"rt{spec['rows']}x{spec['cols']}")
    elif part == "mixed":
        check_mixed(acc)
    elif part == "sorted_text":
        check_sorted_text(acc)
    elif part == "rtheaders":
        for h in RT_HEADERS:
            for ncols in (1, 2, 3):
                for rows in ([], [tuple(["a", 1, 0.5][:ncols])], [tuple(["x,y", 1, 0.5][:ncols]), tuple(["", -2, NAN][:ncols])]):
                    for hh in itertools.permutations(h, ncols):
                        check_rt(acc, list(hh), rows, {"part": "rt", "header": list(hh), "rows": jv(rows)})


def replay(case):
    from vf.kernel.runner import Acc

    acc = Acc()
    part = case.get("part")
    if part == "ops":
        rows = [tuple(unj(v) for v in r) for r in case["rows"]]
        check_table(acc, case["types"], case["header"], rows, DOMAINS[case["domain"]], 1,
                    {k: case[k] for k in ("part", "domain", "types", "header", "rows")})
    elif part == "pairs":
        check_pair(acc, case["family"], [tuple(r) for r in case["rows1"]], [tuple(r) for r in case["rows2"]])
    elif part == "mixed":
        check_mixed(acc)
    elif part == "sorted_text":
        check_sorted_text(acc)
    else:
        rows = [tuple(unj(v) for v in r) for r in case["rows"]]
        check_rt(acc, case["header"], rows, {"part": "rt", "header": case["header"], "rows": case["rows"]})
    return [(sig, rec["cases"][0]["detail"]) for sig, rec in acc.failures.items()]


LEVEL_TEXT = (
    "Bounded exhaustive exploration on the real Table class, writers and load_table: every small table over typed cell domains "
    "built to collide (ties, duplicate keys, prefixes, empty strings, cells containing the delimiter / quotes / builtin names), every "
    "argument of every listed operation, every ordered pair of tables for joins, and every output configuration is executed and "
    "compared with a list-of-row-tuples model (python sorted / comprehensions / nested loops / Counter). Within the bounds the verdict "
    "is complete (no sampling); the operations are row-count generic so ties, duplicates and empty results all occur at these sizes."
)
LEVEL_NOTE = (
    "Trusted: python's sorted, Counter, csv module (reference reader), gzip/bz2, pickle. Tables have <= 3 rows and <= 3 columns with "
    "homogeneous columns; nothing is claimed above the recorded bounds."
)
