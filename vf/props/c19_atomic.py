"""C19 - file writes are all-or-nothing; interrupted runs resume to the same result.

K3 fault / crash-point enumeration on the real write paths.  Interposition (inside the harness process):
  * sys.addaudithook sees tempfile.mkdtemp, os.mkdir, open(for writing), os.remove, os.rename/replace,
    os.rmdir, shutil.rmtree, os.truncate *before* they execute;
  * file objects returned by the open functions cogent3.util.io uses (open / gzip / bz2) are wrapped so
    every write() / close() is a boundary too.
For every writer x target x destination state one fault-free run records the boundary list and a snapshot
of the directory at every boundary (= every state a kill -9 can leave); then one run per boundary raises
OSError there (1 fault), thorough: every pair (2 faults).  Resume: apply_to is interrupted
(KeyboardInterrupt) at every boundary of the output store, then run again in append mode.
"""

import bz2
import errno
import gzip
import io
import itertools
import os
import shutil
import sys
import tempfile
import zipfile

PID = "C19"
LEVEL = "fault_enumeration"
TECHNIQUE = "exhaustive crash-point and injected-fault enumeration at every file-system call boundary of the real write paths"
RULE = (
    "one case = (writer, target suffix, destination pre-state, fault vector); fault vectors = none (recording run, whose every boundary "
    "snapshot is a kill point), every single boundary, and (thorough) every pair of boundaries; resume cases = (store class, outcome vector, "
    "interruption boundary). Distinct by construction; non-trivial = the case executed at least one file-system boundary of the write"
)
ASSUMPTIONS = [
    "process death, not power loss: what a killed process leaves is what the file system holds at that call boundary (no un-synced page-cache loss)",
    "a fault injected into the clean-up call itself (rmtree / rmdir / remove of a temporary path) may leave temporary files; the destination condition still holds",
    "the new content is defined by the fault-free run of the same writer (its correctness is C06's and C20's subject)",
    "a record of the directory store consists of a data file and a checksum file written by two calls; a kill between them is judged by content, the missing checksum is reported under its own signature",
    "single writer process",
]

_CTL = None
_HOOKED = False
WRITE_EVENTS = {
    "tempfile.mkdtemp", "os.mkdir", "open", "os.remove", "os.rename", "os.rmdir", "shutil.rmtree", "os.truncate",
    "shutil.move", "os.link", "os.symlink", "shutil.copyfile",
}


class InjectedFault(OSError):
    pass


class Ctl:
    """controller of one execution"""

    def __init__(self, workdir, mode="record", faults=(), exc="oserror", watch=None):
        self.workdir = os.path.realpath(workdir)
        self.watch = os.path.realpath(watch) if watch else self.workdir
        self.mode = mode
        self.faults = set(faults)
        self.exc = exc
        self.events = []
        self.snapshots = []
        self.busy = False
        self.fired = []

    def under(self, path):
        try:
            p = os.path.realpath(os.fspath(path))
        except TypeError:
            return None
        if p == self.watch or p.startswith(self.watch + os.sep):
            return os.path.relpath(p, self.workdir)
        return None

    def boundary(self, kind, path):
        if self.busy:
            return
        rel = self.under(path)
        if rel is None:
            return
        k = len(self.events)
        self.events.append((kind, rel))
        if self.mode == "record":
            self.busy = True
            try:
                self.snapshots.append(snapshot(self.workdir))
            finally:
                self.busy = False
        if k in self.faults:
            self.fired.append(k)
            if self.exc == "interrupt":
                raise KeyboardInterrupt(f"injected at boundary {k}: {kind} {rel}")
            raise InjectedFault(errno.ENOSPC, f"injected fault at boundary {k}: {kind}", str(path))


def _audit(event, args):
    ctl = _CTL
    if ctl is None or ctl.busy or event not in WRITE_EVENTS:
        return
    try:
        if event == "open":
            path, mode, flags = args
            if isinstance(path, int):
                return
            writing = (mode is not None and any(c in mode for c in "wax+")) or (
                isinstance(flags, int) and flags & (os.O_WRONLY | os.O_RDWR | os.O_CREAT | os.O_TRUNC | os.O_APPEND))
            if not writing:
                return
            ctl.boundary("open(w)", path)
        elif event == "os.rename":
            src, dst = args[0], args[1]
            if ctl.under(dst) is not None or ctl.under(src) is not None:
                ctl.boundary("rename", dst)
        elif event == "tempfile.mkdtemp":
            ctl.boundary("mkdtemp", args[0])
        else:
            ctl.boundary(event.split(".")[-1], args[0])
    except (InjectedFault, KeyboardInterrupt):
        raise
    except Exception:  # noqa: BLE001
        return


class FileProxy:
    """wraps a writable file object: write / close are boundaries"""

    def __init__(self, f, path):
        object.__setattr__(self, "_f", f)
        object.__setattr__(self, "_path", path)

    def write(self, data):
        if _CTL is not None:
            _CTL.boundary("file.write", self._path)
        return self._f.write(data)

    def close(self):
        if _CTL is not None and not self._f.closed:
            _CTL.boundary("file.close", self._path)
        return self._f.close()

    def __enter__(self):
        self._f.__enter__()
        return self

    def __exit__(self, *a):
        self.close()
        return False

    def __getattr__(self, name):
        return getattr(self._f, name)

    def __iter__(self):
        return iter(self._f)


def _wrap_open(orig):
    def opener(path, mode="r", *a, **k):
        f = orig(path, mode, *a, **k)
        if _CTL is not None and any(c in (mode or "") for c in "wax+") and not isinstance(path, int) and _CTL.under(path) is not None:
            return FileProxy(f, path)
        return f

    return opener


def worker_init():
    global _HOOKED
    if _HOOKED:
        return
    _HOOKED = True
    sys.addaudithook(_audit)
    import builtins

    import cogent3.util.io as cio

    cio.open = _wrap_open(builtins.open)  # module global shadows the builtin inside cogent3.util.io
    cio.gzip_open = _wrap_open(cio.gzip_open)
    cio.bzip_open = _wrap_open(cio.bzip_open)


class controlled:
    def __init__(self, ctl):
        self.ctl = ctl

    def __enter__(self):
        global _CTL
        _CTL = self.ctl
        return self.ctl

    def __exit__(self, *a):
        global _CTL
        _CTL = None
        return False


# ----------------------------------------------------------------------------- directory snapshots and content
def snapshot(root):
    out = {}
    for d, dirs, files in os.walk(root):
        dirs.sort()
        rel = os.path.relpath(d, root)
        if rel != ".":
            out[rel + "/"] = None
        for f in sorted(files):
            p = os.path.join(d, f)
            try:
                with io.open(p, "rb") as fh:
                    out[os.path.relpath(p, root)] = fh.read()
            except OSError:
                out[os.path.relpath(p, root)] = b"<unreadable>"
    return out


def logical(name, raw, member=None):
    """decoded content of a destination file (None when absent); ('corrupt', why) when undecodable"""
    if raw is None:
        return None
    try:
        if name.endswith(".gz"):
            return gzip.decompress(raw).decode()
        if name.endswith(".bz2"):
            return bz2.decompress(raw).decode()
        if name.endswith(".zip"):
            with zipfile.ZipFile(io.BytesIO(raw)) as z:
                names = z.namelist()
                bad = z.testzip()
                if bad:
                    return ("corrupt", f"bad member {bad}")
                return {n: z.read(n).decode() for n in names}
        if name.endswith(".pickle") or name.endswith(".pkl"):
            return raw
        return raw.decode()
    except Exception as e:  # noqa: BLE001
        return ("corrupt", f"{type(e).__name__}: {e}"[:120])


# ----------------------------------------------------------------------------- writers
def _objects():
    from cogent3 import make_aligned_seqs, make_table, make_tree, make_unaligned_seqs
    from cogent3.util.dict_array import DictArrayTemplate

    d = {"s1": "ACGTACGT", "s2": "AC--ACGT", "s3": "ACGTTCGT"}
    objs = {
        "ArrayAlignment": make_aligned_seqs(d, moltype="dna", array_align=True),
        "Alignment": make_aligned_seqs(d, moltype="dna", array_align=False),
        "SequenceCollection": make_unaligned_seqs({k: v.replace("-", "") for k, v in d.items()}, moltype="dna"),
        "new Alignment": make_aligned_seqs(d, moltype="dna", new_type=True),
        "new SequenceCollection": make_unaligned_seqs({k: v.replace("-", "") for k, v in d.items()}, moltype="dna", new_type=True),
        "PhyloNode": make_tree("((a:1,b:2):3,(c:4,d:5):6);"),
        "Table": make_table(header=["a", "b"], data=[[1, "x"], [2, "y,z"]]),
        "DictArray": DictArrayTemplate(["r1", "r2"], ["c1", "c2"]).wrap([[1, 2], [3, 4]]),
        "Table_badcell": make_table(header=["a", "b"], data=[[1, {"x"}], [2, object()]]),  # cells json cannot hold
    }
    return objs


WRITERS = {
    # name: (object key, [target file names], write kwargs)
    "ArrayAlignment.write": ("ArrayAlignment", ["x.fasta", "x.fasta.gz", "x.phylip", "x.fasta.bz2"], {}),
    "Alignment.write": ("Alignment", ["x.fasta", "x.fasta.gz", "x.paml", "x.fasta.zip"], {}),
    "SequenceCollection.write": ("SequenceCollection", ["x.fasta", "x.fasta.gz"], {}),
    "new Alignment.write": ("new Alignment", ["x.fasta", "x.fasta.gz"], {}),
    "new SequenceCollection.write": ("new SequenceCollection", ["x.fasta", "x.fasta.bz2"], {}),
    "PhyloNode.write": ("PhyloNode", ["x.nwk", "x.json", "x.nwk.gz", "x.nwk.zip"], {}),
    "Table.write": ("Table", ["x.tsv", "x.csv", "x.tsv.gz", "x.pickle", "x.tsv.zip", "x.json"], {}),
    "DictArray.write": ("DictArray", ["x.tsv", "x.tsv.gz"], {}),
    "TreeCollection.write": ("TreeCollection", ["x.trees"], {}),
    "atomic_write": ("atomic_write", ["x.txt", "x.txt.gz", "x.txt.bz2"], {}),
    "atomic_write(in_zip)": ("atomic_write_zip", ["arch.zip"], {}),
}

def _failing_writer(rows, has_header=True):
    raise ValueError("formatting failed")


FORMAT_FAILURES = {
    # name: (object key, target, kwargs) - formatting must fail, destination must be left alone
    "Alignment.write(format unknown)": ("Alignment", "x.fasta", {"format": "nosuchformat"}),
    "ArrayAlignment.write(format unknown)": ("ArrayAlignment", "x.fasta", {"format": "nosuchformat"}),
    "SequenceCollection.write(format unknown)": ("SequenceCollection", "x.fasta", {"format": "nosuchformat"}),
    "new Alignment.write(format unknown)": ("new Alignment", "x.fasta", {"format": "nosuchformat"}),
    "new SequenceCollection.write(format unknown)": ("new SequenceCollection", "x.fasta", {"format": "nosuchformat"}),
    "TreeCollection.write(second entry cannot be formatted)": ("TreeCollection_bad_second", "x.trees", {}),
    "Table.write(writer raises)": ("Table", "x.tsv", {"writer": _failing_writer}),
    "Table.write(json, unserialisable cell)": ("Table_badcell", "x.json", {}),
    "atomic_write(body raises)": ("atomic_write_raises", "x.txt", {}),
    "PhyloNode.write(json, unserialisable param)": ("PhyloNode_badparam", "x.json", {}),
    "DictArray.write(format unknown)": ("DictArray", "x.tsv", {"format": "nosuchformat"}),
}

OLD = "previous content\nof the destination\n"


def do_write(key, objs, path, kw):
    if key == "atomic_write":
        from cogent3.util.io import atomic_write

        with atomic_write(path, mode="wt") as f:
            f.write("line one\n")
            f.write("line two\n")
        return
    if key == "atomic_write_raises":
        from cogent3.util.io import atomic_write

        with atomic_write(path, mode="wt") as f:
            f.write("line one\n")
            raise ValueError("formatting failed")
    if key == "atomic_write_zip":
        from cogent3.util.io import atomic_write

        with atomic_write("member.txt", in_zip=path, mode="wt") as f:
            f.write("line one\n")
        return
    if key == "PhyloNode_badparam":
        from cogent3 import make_tree

        t = make_tree("((a:1,b:2):3,(c:4,d:5):6);")
        t.params["not_json"] = {1, 2}  # a set: newick / xml formatting accept it, json formatting raises
        t.write(path)
        return
    if key == "TreeCollection_bad_second":
        from cogent3 import make_tree
        from cogent3.phylo.tree_collection import LogLikelihoodScoredTreeCollection

        # the first entry is written before formatting the second one fails
        tc = LogLikelihoodScoredTreeCollection([(-1.0, make_tree("(a,b,c);")), (-2.0, None), (-3.0, make_tree("(a,c,b);"))])
        tc.write(path)
        return
    if key == "TreeCollection":
        from cogent3 import make_tree
        from cogent3.phylo.tree_collection import LogLikelihoodScoredTreeCollection

        tc = LogLikelihoodScoredTreeCollection([(-1.0, make_tree("(a,b,c);")), (-2.0, make_tree("(a,c,b);"))])
        tc.write(path)
        return
    objs[key].write(path, **kw)


def pre_state(work, target, existing):
    """create the destination's previous content"""
    dest = os.path.join(work, target)
    if not existing:
        return None
    if target.endswith(".gz"):
        with gzip.open(dest, "wt") as f:
            f.write(OLD)
    elif target.endswith(".bz2"):
        with bz2.open(dest, "wt") as f:
            f.write(OLD)
    elif target.endswith(".zip"):
        with zipfile.ZipFile(dest, "w") as z:
            z.writestr("arch/old.txt", OLD)
        return {"arch/old.txt": OLD}
    elif target.endswith(".pickle"):
        with open(dest, "wb") as f:
            f.write(OLD.encode())
        return OLD.encode()
    else:
        with open(dest, "w") as f:
            f.write(OLD)
    return OLD


def dest_ok(content, old, new, target):
    """is the destination's logical content exactly the old or exactly the new one?"""
    if isinstance(content, tuple) and content and content[0] == "corrupt":
        return False
    if target.endswith(".zip") and isinstance(content, dict) and isinstance(new, dict):
        return content == old or content == new
    return content == old or content == new


def run_write(name, key, target, kw, existing, faults, objs, base, mode):
    work = tempfile.mkdtemp(prefix="c19-", dir=base)
    try:
        old = pre_state(work, target, existing)
        dest = os.path.join(work, target)
        ctl = Ctl(work, mode=mode, faults=faults)
        raised = None
        with controlled(ctl):
            try:
                do_write(key, objs, dest, kw)
            except BaseException as e:  # noqa: BLE001
                raised = e
        final = snapshot(work)
        return {"ctl": ctl, "raised": raised, "final": final, "old": old, "work": work}
    finally:
        shutil.rmtree(work, ignore_errors=True)


def is_cleanup(ev, target):
    kind, rel = ev
    return kind in ("rmtree", "rmdir", "remove") and rel != target


def explore_writer(name, spec, acc, objs, base, pairs):
    key, target, kw, existing = spec["key"], spec["target"], spec["kw"], spec["existing"]
    family = ("zip member" if key == "atomic_write_zip" else f"{name} to a .zip path") if target.endswith(".zip") else "atomic_write family"
    cls = f"{family}; destination {'exists' if existing else 'absent'}"
    case0 = {"writer": name, "target": target, "existing": existing, "faults": []}
    acc.case(case0)
    rec = run_write(name, key, target, kw, existing, (), objs, base, "record")
    if rec["raised"] is not None:
        acc.fail(f"fault-free write raised {type(rec['raised']).__name__} [{cls}]", case0, {"error": str(rec["raised"])[:200]})
        return
    new = logical(target, rec["final"].get(target))
    old = rec["old"]
    events = rec["ctl"].events
    if new is None or (isinstance(new, tuple)):
        acc.fail(f"fault-free write did not produce the destination [{cls}]", case0, {"final": sorted(rec["final"])})
        return
    leftovers = sorted(k for k in rec["final"] if k != target)
    if leftovers:
        acc.fail(f"successful write left temporary files behind [{cls}]", case0, {"leftovers": leftovers})
    acc.count("boundaries", len(events))
    # kill points: the state before each boundary executes
    for k, snap in enumerate(rec["ctl"].snapshots):
        acc.case({"writer": name, "target": target, "existing": existing, "kill_before": k})
        content = logical(target, snap.get(target))
        acc.outcome(("kill", content == old, content == new))
        if not dest_ok(content, old, new, target):
            prev = events[k - 1] if k else ("start", "")
            acc.fail(
                f"kill point leaves the destination neither old nor new: after {prev[0]}{' of the destination' if prev[1] == target else ''}, before {events[k][0]} [{cls}]",
                {"writer": name, "target": target, "existing": existing, "kill_before": k},
                {"events": events, "destination": repr(content)[:200], "old": repr(old)[:80]},
            )
    # handled faults
    n = len(events)
    fault_sets = [(k,) for k in range(n)]
    if pairs:
        fault_sets += list(itertools.combinations(range(n), 2))
    for fs in fault_sets:
        case = {"writer": name, "target": target, "existing": existing, "faults": list(fs)}
        acc.case(case)
        r = run_write(name, key, target, kw, existing, fs, objs, base, "fault")
        ev2 = r["ctl"].events
        fired = r["ctl"].fired
        if not fired:
            acc.count("fault_not_reached")
            continue
        where = [ev2[k] for k in fired]
        desc = " + ".join(f"{kind}{' of the destination' if rel == target else ''}" for kind, rel in where)
        content = logical(target, r["final"].get(target))
        acc.outcome(("fault", desc, type(r["raised"]).__name__ if r["raised"] else None, content == old, content == new))
        if not dest_ok(content, old, new, target):
            acc.fail(f"injected OSError leaves the destination neither old nor new: fault at {desc} [{cls}]", case,
                     {"events": ev2, "destination": repr(content)[:200], "raised": repr(r["raised"])[:200]})
        if r["raised"] is None and content != new:
            acc.fail(f"write reported success although the destination does not hold the new content: fault at {desc} [{cls}]", case, {"events": ev2})
        if r["raised"] is not None and not any(is_cleanup(e, target) for e in where):
            left = sorted(k for k in r["final"] if k != target)
            if left:
                acc.fail(f"handled failure leaves temporary files behind: fault at {desc} [{cls}]", case, {"leftovers": left, "events": ev2})
    acc.sample({"writer": name, "target": target, "destination_exists": existing, "boundaries": [list(e) for e in events]}, name)


def explore_format_failure(name, spec, acc, objs, base):
    key, target, kw = spec["key"], spec["target"], spec["kw"]
    for existing in (True, False):
        case = {"format_failure": name, "target": target, "existing": existing}
        acc.case(case)
        r = run_write(name, key, target, kw, existing, (), objs, base, "record")
        cls = f"{name}; destination {'exists' if existing else 'absent'}"
        if r["raised"] is None:
            acc.fail(f"formatting failure did not raise [{cls}]", case, {})
            continue
        content = logical(target, r["final"].get(target))
        acc.outcome(("format", name, content == r["old"]))
        if content != r["old"]:
            acc.fail(f"formatting failure changed the destination [{cls}]", case, {"destination": repr(content)[:120], "old": repr(r["old"])[:80]})
        left = sorted(k for k in r["final"] if k != target)
        if left:
            acc.fail(f"formatting failure leaves temporary files behind [{cls}]", case, {"leftovers": left})
        for k, snap in enumerate(r["ctl"].snapshots):
            c = logical(target, snap.get(target))
            if c != r["old"]:
                acc.fail(f"formatting failure: destination touched before the failure [{cls}]", case, {"boundary": k, "events": r["ctl"].events})
                break


# ----------------------------------------------------------------------------- resume of an interrupted apply_to
def explore_resume(spec, acc, base):
    from vf.props import c14_apps as c14

    ids, vec, store_kind = spec["ids"], spec["vector"], spec["store"]
    vectors = [dict(zip(ids, vec))]

    def run(interrupt_at, sched=None):
        work = tempfile.mkdtemp(prefix="c19r-", dir=base)
        try:
            members = c14.make_inputs(work, ids)
            out_path = os.path.join(work, "out" if store_kind == "dir" else "out.sqlitedb")
            app, out = c14.make_app(store_kind, out_path, vectors, mode="w")
            boundaries = []
            if store_kind == "sqlite":
                # statement execution is not an audit event: use the store's record-level calls as boundaries
                for meth in ("write", "write_not_completed"):
                    orig = getattr(out, meth)

                    def wrapped(*a, _orig=orig, _m=meth, **k):
                        if _CTL is not None:
                            _CTL.boundary(f"before store.{_m}", out_path)
                        r = _orig(*a, **k)
                        if _CTL is not None:
                            _CTL.boundary(f"after store.{_m}", out_path)
                        return r

                    setattr(out, meth, wrapped)
            ctl = Ctl(work, mode="fault" if interrupt_at is not None else "count", faults=() if interrupt_at is None else (interrupt_at,), exc="interrupt",
                      watch=out_path if store_kind == "dir" else out_path)
            first_raised = None
            with controlled(ctl):
                try:
                    if sched is None:
                        app.apply_to(members, logger=False, show_progress=False)
                    else:
                        with c14.patched_pool(sched):
                            app.apply_to(members, parallel=True, logger=False, show_progress=False)
                except KeyboardInterrupt as e:
                    first_raised = e
            events = list(ctl.events)
            if store_kind == "sqlite":
                try:
                    out.unlock(force=True)
                    out.close()
                except Exception:  # noqa: BLE001
                    pass
            # what the interrupted run left, as any later process sees it
            from vf.props import c13_stores as c13

            seen_by_fresh = c13.open_store(store_kind, out_path, "r")
            after_first, _ = c14.store_content(store_kind, seen_by_fresh)
            if store_kind == "sqlite":
                seen_by_fresh.close()
            if interrupt_at is None:
                md5s = record_md5s(store_kind, out_path)
                return {"events": events, "records": after_first, "md5": md5s}
            # second run on the same store in append mode
            calls = []
            orig_behave = c14._behave

            def counting(app_, seqs, outcomes):
                from cogent3.app.data_store import get_unique_id

                calls.append(get_unique_id(seqs.info.source))
                return orig_behave(app_, seqs, outcomes)

            c14._behave = counting
            second_raised = None
            try:
                app2, out2 = c14.make_app(store_kind, out_path, vectors, mode="a")
                try:
                    app2.apply_to(members, logger=False, show_progress=False)
                except Exception as e:  # noqa: BLE001
                    second_raised = e
                final, dups = c14.store_content(store_kind, out2)
                if store_kind == "sqlite":
                    try:
                        out2.unlock(force=True)
                        out2.close()
                    except Exception:  # noqa: BLE001
                        pass
            finally:
                c14._behave = orig_behave
            return {"events": events, "interrupted": first_raised is not None, "after_first": after_first, "second_raised": second_raised,
                    "final": final, "dups": dups, "calls": calls, "md5": record_md5s(store_kind, out_path)}
        finally:
            shutil.rmtree(work, ignore_errors=True)

    ref = run(None, spec.get("schedule"))
    ref_key = c14.final_store_key({"records": ref["records"]})
    n = len(ref["events"])
    acc.count("resume_boundaries", n)
    cls = f"{store_kind} store"
    for k in range(n):
        case = {"resume": True, "ids": ids, "vector": list(vec), "store": store_kind, "interrupt_at": k, "schedule": spec.get("schedule")}
        acc.case(case)
        r = run(k, spec.get("schedule"))
        if not r["interrupted"]:
            acc.count("interrupt_not_reached")
            continue
        ev = r["events"][k] if k < len(r["events"]) else ref["events"][k]
        where = f"{ev[0]}" + (" in not_completed/" if "not_completed" in ev[1] else " in md5/" if ev[1].startswith(os.path.join("out", "md5")) else "")
        acc.outcome(("resume", where, bool(r["second_raised"])))
        if r["second_raised"] is not None:
            acc.fail(f"re-running apply_to after an interruption raised {type(r['second_raised']).__name__}: interrupted at {where} [{cls}]", case,
                     {"error": str(r["second_raised"])[:200], "events": r["events"][: k + 1]})
            continue
        key = c14.final_store_key({"records": r["final"]})
        if key != ref_key:
            acc.fail(f"resumed run ends with a different store than the uninterrupted run: interrupted at {where} [{cls}]", case,
                     {"resumed": [list(x[:2]) for x in key], "uninterrupted": [list(x[:2]) for x in ref_key], "events": r["events"][: k + 1]})
        elif r["md5"] != ref["md5"]:
            acc.fail(f"resumed run ends with different record checksums than the uninterrupted run: interrupted at {where} [{cls}]", case,
                     {"resumed": r["md5"], "uninterrupted": ref["md5"]})
        if r["dups"]:
            acc.fail(f"resumed store lists a record twice: interrupted at {where} [{cls}]", case, {"dups": r["dups"]})
        done = {i for (kind, i) in r["after_first"] if kind == "completed"}
        redone = [i for i in r["calls"] if i in done]
        missing = [i for i in ids if not any(j == i for (_, j) in r["after_first"]) and i not in r["calls"]]
        if redone:
            acc.fail(f"resumed run re-processed an input that already had a completed record: interrupted at {where} [{cls}]", case, {"redone": redone})
        if missing:
            acc.fail(f"resumed run skipped an input that had no record: interrupted at {where} [{cls}]", case, {"missing": missing})
    acc.sample({"resume": True, "ids": ids, "vector": list(vec), "store": store_kind, "boundaries": [list(e) for e in ref["events"]][:12]}, f"resume-{store_kind}")


def record_md5s(kind, out_path):
    """{record name: has a checksum that matches its content} as seen by a fresh read-only store"""
    from vf.props import c13_stores as c13

    try:
        st = c13.open_store(kind, out_path, "r")
    except Exception:  # noqa: BLE001
        return {}
    out = {}
    try:
        for m in list(st.completed) + list(st.not_completed):
            data = m.read()
            out[str(m.unique_id)] = st.md5(str(m.unique_id)) == c13.text_md5(data)
    finally:
        if kind == "sqlite":
            st.close()
    return out


# ----------------------------------------------------------------------------- shards
def bounds(tier):
    return {
        "quick": {"fault_pairs": False, "resume_ids": ["ba", "a", "c"], "resume_vectors": "one failure position x {ok, raise}", "resume_parallel": False, "strace": False},
        "thorough": {"fault_pairs": True, "resume_ids": ["ba", "a", "c"], "resume_vectors": "all {ok, raise, nc}^3", "resume_parallel": True, "strace": True},
    }[tier]


def shards(tier, seed):
    b = bounds(tier)
    out = []
    for name, (key, targets, kw) in WRITERS.items():
        for t in targets:
            for existing in (False, True):
                out.append({"part": "write", "writer": name, "key": key, "target": t, "kw": kw, "existing": existing, "pairs": b["fault_pairs"]})
    for name, (key, target, kw) in FORMAT_FAILURES.items():
        out.append({"part": "format", "name": name, "key": key, "target": target, "kw": kw})
    ids = b["resume_ids"]
    if tier == "quick":
        vecs = [("ok", "ok", "ok"), ("raise", "ok", "ok"), ("ok", "raise", "ok"), ("ok", "ok", "raise")]
    else:
        vecs = list(itertools.product(("ok", "raise", "nc"), repeat=3))
    for store in ("dir", "sqlite"):
        for v in vecs:
            out.append({"part": "resume", "ids": ids, "vector": list(v), "store": store, "schedule": None})
            if b["resume_parallel"]:
                for sched in ([2, 1, 0], [1, 0, 2]):
                    out.append({"part": "resume", "ids": ids, "vector": list(v), "store": store, "schedule": sched})
    if b["strace"]:
        for name in ("Alignment.write", "Table.write", "atomic_write"):
            for existing in (False, True):
                out.append({"part": "strace", "writer": name, "existing": existing})
    return out


def run_shard(spec, acc):
    base = tempfile.gettempdir()
    part = spec["part"]
    if part == "write":
        explore_writer(spec["writer"], spec, acc, _objects(), base, spec["pairs"])
    elif part == "format":
        explore_format_failure(spec["name"], spec, acc, _objects(), base)
    elif part == "resume":
        explore_resume(spec, acc, base)
    elif part == "strace":
        from vf.props import x19_strace as c19_strace

        c19_strace.explore(spec, acc, base)


def replay(case):
    from vf.kernel.runner import Acc

    worker_init()
    acc = Acc()
    base = tempfile.gettempdir()
    if case.get("resume"):
        spec = {"ids": case["ids"], "vector": case["vector"], "store": case["store"], "schedule": case.get("schedule")}
        explore_resume(spec, acc, base)
    elif "format_failure" in case:
        key, target, kw = FORMAT_FAILURES[case["format_failure"]]
        explore_format_failure(case["format_failure"], {"key": key, "target": target, "kw": kw}, acc, _objects(), base)
    elif "strace" in case:
        from vf.props import x19_strace as c19_strace

        c19_strace.explore(case["strace"], acc, base)
    else:
        key, targets, kw = WRITERS[case["writer"]]
        pairs = len(case.get("faults", [])) > 1
        explore_writer(case["writer"], {"key": key, "target": case["target"], "kw": kw, "existing": case["existing"]}, acc, _objects(), base, pairs)
    return [(s, r["cases"][0]["detail"]) for s, r in acc.failures.items()]


LEVEL_TEXT = (
    "Exhaustive crash-point and fault enumeration on the real write paths: for every writer (alignments old/new, collections, trees, tree collections, tables, "
    "dict-arrays, atomic_write incl. zip members), target (plain / gz / bz2 / zip) and destination pre-state, every file-system call boundary of the write is taken as a "
    "kill point (directory snapshot) and as an injected OSError (one fault; thorough: every pair); every boundary of an apply_to run is an interruption point followed "
    "by a resumed run. A test can exercise one failure; the property quantifies over all of them."
)
LEVEL_NOTE = (
    "Trusted: CPython audit events as the list of mutating calls (cross-checked against strace in the thorough tier), /dev/shm as file system. Process death only, no power-loss model."
)
