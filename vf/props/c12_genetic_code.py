"""C12 - translation and complementing follow the genetic-code tables.

K2: exhaustive enumeration of
  * every NCBI code x all 64 codons (DNA / RNA / lower-case spellings), every amino acid,
    start / stop / sense sets and codon alphabets, on the old and the new genetic-code objects;
  * every nucleotide string over ACGT up to a length bound x every code with a distinct table
    x 6 frames x every genetic-code-level entry point (old translate, new translate on str and
    on index arrays, new sixframes);
  * every such string x codes with distinct stop-codon sets x the 8 combinations of
    (incomplete_ok, include_stop, trim_stop) x sequence-level entry points (old / new Sequence
    get_translation, has_terminal_stop, trim_stop_codon, the same on a reverse-complemented
    view, old sixframes, app.translate.translate_frames);
  * every ordered pair of sequences built from <= 2 codon units + a partial-codon tail x the
    8 option combinations x every collection class (old SequenceCollection, Alignment,
    ArrayAlignment, new SequenceCollection) and the translate_seqs app;
  * every string of length <= 3 over the full IUPAC + gap alphabet for complement / rc
    (old / new moltype, old / new sequences, DNA and RNA), every symbol and every base
    subset for resolve <-> re-encode.

Oracle: codon-by-codon lookup with own TCAG index arithmetic in the golden copy of the NCBI
strings (/verif/data/ncbi_codes.json); minus-strand frame k = frame k of rc(s) with an own
complement map; IUPAC sets written out below.
"""

from __future__ import annotations

import itertools
import json
import os

PID = "C12"
LEVEL = "exploration"
TECHNIQUE = "exhaustive bounded enumeration of nucleotide strings x codes x frames x stop options x entry points against a table-lookup oracle"
RULE = (
    "every string over ACGT up to the length bound x every code with a distinct table (gc level) / distinct stop set "
    "(sequence level) x 6 frames x 8 stop-option combinations x every entry point; every ordered pair of unit-built "
    "sequences for collections; every IUPAC string of length <= 3 for complementing; each (entry point, input, code, "
    "options) is enumerated once (distinct by construction); non-trivial = the input holds at least one complete codon "
    "(translation) / at least one degenerate or gap symbol (complementing)"
)
ASSUMPTIONS = [
    "the golden NCBI strings in /verif/data/ncbi_codes.json are the tables (both cogent3 copies are compared with them)",
    "minus-strand frame k is frame k of the reverse complement of the whole input",
    "a terminal stop is the last codon of a sequence whose length is divisible by 3 (documented has_terminal_stop semantics)",
    "length not divisible by 3 with incomplete_ok=False: either AlphabetError or the translation of the complete codons is accepted (statement silent)",
    "zero complete codons from `start`: '' or the documented ValueError of the old translate is accepted",
    "trim_stop=True removes the terminal stop whether or not include_stop is set (literal reading of the two options)",
    "alignment classes keep row length: a trimmed terminal stop appears as one trailing '-' in that row",
    "only canonical (ungapped, non-degenerate, upper-case) sequences are translated at sequence level",
    "re-encoding a set without exact symbol: any symbol with the smallest covering set is accepted",
]
EXHAUSTIVE = True
SHARD_TIMEOUT = {"quick": 600, "thorough": 3600}

DATA = os.path.join(os.path.dirname(os.path.dirname(os.path.dirname(os.path.abspath(__file__)))), "data", "ncbi_codes.json")


def bounds(tier):
    return {
        "quick": {"gc_len": 6, "gc_codes": "25 distinct tables", "seq_len": {"1": 6, "2": 5, "6": 5},
                  "seq_len_all_tables": 3, "view_len": 4, "coll_units": ["ATG", "TAA", "AGA"], "coll_codes": [1, 2],
                  "single_coll_len": 3, "iupac_len": 3, "iupac_seq_len": 2},
        "thorough": {"gc_len": 8, "gc_codes": "25 distinct tables",
                     "seq_len": {"1": 8, "2": 6, "3": 6, "6": 6, "14": 6, "15": 6, "22": 6, "23": 6, "27": 6},
                     "seq_len_all_tables": 3, "view_len": 6, "coll_units": ["ATG", "TAA", "AGA", "TGA"],
                     "coll_codes": [1, 2], "single_coll_len": 4, "iupac_len": 3, "iupac_seq_len": 3},
    }[tier]


# ----------------------------------------------------------------------------- oracle
B = "TCAG"
_BI = {b: i for i, b in enumerate(B)}
_COMP = {"A": "T", "C": "G", "G": "C", "T": "A"}
AA_ERR = "AlphabetError"

with open(DATA) as _f:
    GOLD = {c["id"]: c for c in json.load(_f)["codes"]}

ALL_IDS = sorted(GOLD)


def _reps(keyfn):
    seen, out = {}, []
    for i in ALL_IDS:
        k = keyfn(GOLD[i])
        if k not in seen:
            seen[k] = i
            out.append(i)
    return out


TABLE_REPS = _reps(lambda c: c["aa"])  # lowest id of each distinct table
STOP_REPS = _reps(lambda c: tuple(i for i, a in enumerate(c["aa"]) if a == "*"))


def cidx(codon):
    return 16 * _BI[codon[0]] + 4 * _BI[codon[1]] + _BI[codon[2]]


def codon_at(i):
    return B[i // 16] + B[(i // 4) % 4] + B[i % 4]


def o_aas(table, s, start=0):
    """list of amino acids of the complete codons of s from start"""
    return [table[cidx(s[i : i + 3])] for i in range(start, len(s) - 2, 3)]


def o_translate(table, s, start=0):
    return "".join(o_aas(table, s, start))


def o_rc(s):
    return "".join(_COMP[c] for c in reversed(s))


def o_frames(table, s):
    r = o_rc(s)
    return [o_translate(table, s, k) for k in range(3)] + [o_translate(table, r, k) for k in range(3)]


def o_has_terminal_stop(table, s):
    return len(s) % 3 == 0 and len(s) >= 3 and table[cidx(s[-3:])] == "*"


def o_get_translation(table, s, incomplete_ok, include_stop, trim_stop):
    """-> (set of accepted outcomes, trimmed?) ; an outcome is a protein string or AA_ERR"""
    acc = set()
    if len(s) % 3 and not incomplete_ok:
        acc.add(AA_ERR)
    aas = o_aas(table, s)
    trimmed = False
    if trim_stop and o_has_terminal_stop(table, s):
        aas = aas[:-1]
        trimmed = True
    if "*" in aas and not include_stop:
        acc.add(AA_ERR)
    else:
        acc.add("".join(aas))
    return acc, trimmed


def stop_class(table, seqs, incomplete_ok, include_stop, trim_stop):
    """minimal structural class of a (set of) sequence(s) + options, for signatures"""
    classes = []
    for s in seqs:
        aas = o_aas(table, s)
        term = o_has_terminal_stop(table, s)
        if not s:
            classes.append((0, "empty sequence"))
        elif term and trim_stop and include_stop:
            classes.append((1, "terminal stop, include_stop=True, trim_stop=True"))
        elif term and trim_stop and len(aas) == 1:
            classes.append((2, "sequence is a single stop codon, trim_stop=True"))
        elif term and not trim_stop and not include_stop:
            classes.append((3, "terminal stop, include_stop=False, trim_stop=False"))
        elif term and trim_stop and len(aas) >= 2 and aas[-2] == "*":
            classes.append((4, "stop codon precedes the terminal stop, trim_stop=True"))
        elif len(s) % 3:
            classes.append((5, "length not divisible by 3"))
        elif "*" in aas:
            classes.append((6, "stop codon present"))
        else:
            classes.append((7, "no stop codon"))
    return min(classes)[1] if classes else "no sequences"


# IUPAC nucleotide sets, written out (independent of cogent3's tables)
IUPAC = {
    "A": "A", "C": "C", "G": "G", "T": "T",
    "R": "AG", "Y": "CT", "S": "CG", "W": "AT", "K": "GT", "M": "AC",
    "B": "CGT", "D": "AGT", "H": "ACT", "V": "ACG", "N": "ACGT",
}
NUC_SYMS = "ACGTRYSWKMBDHVN-?"
PROT = "ACDEFGHIKLMNPQRSTUVWY"
PROT_DEGEN = {"B": "DN", "Z": "EQ", "X": PROT}


def iupac_set(sym, rna=False):
    """set of bases (and '-' for the missing symbol) a nucleotide symbol stands for"""
    if sym == "-":
        return frozenset("-")
    if sym == "?":
        return frozenset(("ACGU" if rna else "ACGT") + "-")
    t = "U" if rna else "T"
    return frozenset(IUPAC["T" if sym == "U" else sym].replace("T", t))


def o_complement_sym(sym, rna=False):
    """the symbol standing for the complemented base set"""
    if sym in "-?":
        return sym
    t = "U" if rna else "T"
    comp = {"A": t, "C": "G", "G": "C", t: "A"}
    want = frozenset(comp[b] for b in iupac_set(sym, rna))
    alphabet = [x.replace("T", t) for x in IUPAC]
    hits = [x for x in alphabet if iupac_set(x, rna) == want]
    assert len(hits) == 1
    return hits[0]


# ----------------------------------------------------------------------------- implementation access
_CACHE = {}


def impl():
    if not _CACHE:
        from cogent3.app import translate as app_translate
        from cogent3.core import alignment as oa
        from cogent3.core import genetic_code as og
        from cogent3.core import moltype as om
        from cogent3.core import new_alignment as na
        from cogent3.core import new_genetic_code as ng
        from cogent3.core import new_moltype as nm

        _CACHE.update(og=og, ng=ng, om=om, nm=nm, oa=oa, na=na, app=app_translate)
    return _CACHE


def worker_init():
    """run every jitted / lazily built code path once (in the parent, before the workers are forked)"""
    I = impl()
    I["ng"].get_code(1).translate("ATGAAA", 0, rc=True)
    s = I["nm"].DNA.make_seq(seq="ATGTAA", name="x")
    s.get_translation(1)
    str(s.rc())
    I["na"].make_unaligned_seqs({"a": "ATGAAA"}, moltype="dna").get_translation(1)
    I["oa"].ArrayAlignment({"a": "ATGAAA"}, moltype="dna").get_translation(1)


def call(f, *a, **k):
    """-> ('ok', value) | ('err', exception class name)"""
    try:
        return ("ok", f(*a, **k))
    except Exception as e:  # noqa: BLE001 - exceptions are outcomes
        return ("err", type(e).__name__)


def _fail(acc, sig, case, got, want):
    acc.fail(sig, case, {"got": got, "want": want})


def _nt(s, start=0):
    return len(s) - start >= 3


# ----------------------------------------------------------------------------- part: tables
def chk_tables(acc, cid):
    I = impl()
    gold = GOLD[cid]
    table, starts = gold["aa"], gold["starts"]
    case = {"part": "tables", "code": cid}
    stops = {codon_at(i) for i in range(64) if table[i] == "*"}
    start_set = {codon_at(i) for i in range(64) if starts[i] != "-"}
    by_aa = {}
    for i in range(64):
        by_aa.setdefault(table[i], set()).add(codon_at(i))

    # the two independent copies of the table
    acc.case(("copies", cid))
    old_entry = [g for g in I["og"].NcbiGeneticCodeData if g.ID == cid]
    new_entry = [m for m in I["ng"].code_mapping if m[1] == cid]
    if len(old_entry) != 1 or (old_entry[0].code_sequence, old_entry[0].start_codon_sequence) != (table, starts):
        _fail(acc, "old genetic_code table differs from golden NCBI copy", case,
              [(g.code_sequence, g.start_codon_sequence) for g in old_entry], [table, starts])
    if len(new_entry) != 1 or (new_entry[0][0], new_entry[0][3]) != (table, starts):
        _fail(acc, "new_genetic_code table differs from golden NCBI copy", case, [list(m) for m in new_entry], [table, starts])
    if old_entry and new_entry and old_entry[0].name != new_entry[0][2]:
        _fail(acc, "old and new genetic code names differ", case, old_entry[0].name, new_entry[0][2])

    for fam, mod in (("old", I["og"]), ("new", I["ng"])):
        r = call(mod.get_code, cid)
        if r[0] != "ok":
            _fail(acc, f"{fam} get_code: raised {r[1]}", case, r[1], cid)
            continue
        gc = r[1]
        # lookups by str id, by name, by instance
        for how, key in (("str id", str(cid)), ("name", gc.name), ("instance", gc)):
            acc.case(("get_code", fam, cid, how))
            r = call(mod.get_code, key)
            if r[0] != "ok" or r[1] is not gc:
                _fail(acc, f"{fam} get_code: lookup by {how} gives a different code", case, repr(r)[:80], cid)
        # every codon, three spellings
        for i in range(64):
            codon = codon_at(i)
            for form, sp in (("dna", codon), ("rna", codon.replace("T", "U")), ("lower", codon.lower()),
                             ("lower rna", codon.replace("T", "U").lower())):
                acc.case(("codon", fam, cid, sp))
                r = call(gc.__getitem__, sp)
                acc.outcome((fam, "aa", r[1]))
                if r != ("ok", table[i]):
                    _fail(acc, f"{fam} GeneticCode[codon]: amino acid [{form} spelling]", dict(case, codon=sp), r, table[i])
                r = call(gc.is_stop, sp)
                if r != ("ok", table[i] == "*"):
                    _fail(acc, f"{fam} GeneticCode.is_stop [{form} spelling]", dict(case, codon=sp), r, table[i] == "*")
                if fam == "old":
                    r = call(gc.is_start, sp)
                    if r != ("ok", codon in start_set):
                        _fail(acc, f"old GeneticCode.is_start [{form} spelling]", dict(case, codon=sp), r, codon in start_set)
        # every amino acid -> codon set
        for aa in sorted(set(PROT + "*")):
            acc.case(("aa", fam, cid, aa))
            r = call(gc.__getitem__, aa)
            want = sorted(by_aa.get(aa, ()))
            got = sorted(r[1]) if r[0] == "ok" else r
            acc.outcome((fam, "codons", str(got)))
            if got != want:  # also catches duplicates
                _fail(acc, f"{fam} GeneticCode[aa]: codon set", dict(case, aa=aa), got, want)
        # derived sets
        acc.case(("sets", fam, cid))
        got = sorted(gc.start_codons)
        if got != sorted(start_set):
            _fail(acc, f"{fam} GeneticCode.start_codons", case, got, sorted(start_set))
        got = sorted(gc.sense_codons)
        want = sorted(codon_at(i) for i in range(64) if table[i] != "*")
        if got != want:
            _fail(acc, f"{fam} GeneticCode.sense_codons", case, got, want)
        if fam == "new":
            if sorted(gc.stop_codons) != sorted(stops):
                _fail(acc, "new GeneticCode.stop_codons", case, sorted(gc.stop_codons), sorted(stops))
        for inc in (False, True):
            acc.case(("alphabet", fam, cid, inc))
            got = sorted(gc.get_alphabet(include_stop=inc))
            want_a = sorted(codon_at(i) for i in range(64) if inc or table[i] != "*")
            if got != want_a:
                _fail(acc, f"{fam} GeneticCode.get_alphabet: codons [include_stop={inc}]", case, got, want_a)
            if fam == "new":
                got = sorted(gc.get_alphabet(include_stop=inc, include_gap=True))
                if got != sorted(want_a + ["---"]):
                    _fail(acc, f"new GeneticCode.get_alphabet: codons [include_gap, include_stop={inc}]", case, got, want_a)
    acc.sample({"code": cid, "checked": "64 codons x 4 spellings, 22 amino acids, start/stop/sense sets, alphabets, both modules"}, "tables")


def chk_registry(acc):
    I = impl()
    acc.case(("registry",))
    for fam, mod in (("old", I["og"]), ("new", I["ng"])):
        ids = sorted(int(i) for i in mod.available_codes().columns["Code ID"].tolist())
        if ids != ALL_IDS:
            _fail(acc, f"{fam} available_codes: id list differs from golden copy", {"part": "registry"}, ids, ALL_IDS)
    r = call(I["og"].get_code, 1, new_type=True)
    if r[0] != "ok" or r[1] is not I["ng"].get_code(1):
        _fail(acc, "old get_code(new_type=True) is not the new code", {"part": "registry"}, repr(r)[:80], 1)


# ----------------------------------------------------------------------------- part: gc-level translation
def chk_translate(acc, s, cid):
    import numpy

    I = impl()
    table = GOLD[cid]["aa"]
    old, new = I["og"].get_code(cid), I["ng"].get_code(cid)
    want = o_frames(table, s)
    L = len(s)
    case = {"part": "translate", "s": s, "code": cid}
    arr = None
    for k in range(3):
        nt = _nt(s, k)
        # old, plus strand
        acc.case(("old.translate", s, cid, k), nontrivial=nt)
        r = call(old.translate, s, k)
        acc.outcome(("old", r[1]))
        if r != ("ok", want[k]) and not (want[k] == "" and r == ("err", "ValueError")):
            _fail(acc, "old GeneticCode.translate: " + ("amino acids" if r[0] == "ok" else f"raised {r[1]}"),
                  dict(case, start=k), r, want[k])
        # old, the same string in lower case and with U for T: the old code reads those as the same bases
        if k == 0 and s and r == ("ok", want[k]):
            for form, x2 in (("lower case", s.lower()), ("mixed case", s[:1].lower() + s[1:]), ("U for T, lower case", s.lower().replace("t", "u"))):
                acc.case(("old.translate", form, s, cid), nontrivial=nt)
                r2 = call(old.translate, x2, 0)
                if r2 != r:
                    _fail(acc, f"old GeneticCode.translate given a plain string in another spelling: differs from the upper-case DNA string", dict(case, form=form), r2, want[0])
        # new, plus strand, str and index array
        for kind in ("str", "array"):
            if kind == "array":
                if arr is None:
                    arr = new.moltype.alphabet.to_indices(s) if s else numpy.array([], dtype=numpy.uint8)
                x = arr
            else:
                x = s
            acc.case(("new.translate+", kind, s, cid, k), nontrivial=nt)
            r = call(new.translate, x, k, rc=False)
            acc.outcome(("new+", r[1]))
            if r != ("ok", want[k]):
                _fail(acc, f"new GeneticCode.translate(rc=False): " + ("amino acids" if r[0] == "ok" else f"raised {r[1]}")
                      + (" [index array input]" if kind == "array" else ""), dict(case, start=k, input=kind), r, want[k])
            acc.case(("new.translate-", kind, s, cid, k), nontrivial=nt)
            r = call(new.translate, x, k, rc=True)
            acc.outcome(("new-", r[1]))
            if r != ("ok", want[3 + k]):
                _fail(acc, _minus_sig("new GeneticCode.translate(rc=True)", r, want, L, k, kind == "array"),
                      dict(case, start=k, input=kind), r, want[3 + k])
    acc.case(("new.sixframes", s, cid), nontrivial=_nt(s))
    r = call(lambda: list(new.sixframes(s)))
    if r[0] != "ok":
        _fail(acc, f"new GeneticCode.sixframes: raised {r[1]}", case, r, want)
    else:
        got = {(st, k): tr for st, k, tr in r[1]}
        if sorted(got) != sorted((st, k) for st in "+-" for k in range(3)) or len(r[1]) != 6:
            _fail(acc, "new GeneticCode.sixframes: frame labels", case, sorted(got), None)
        else:
            for k in range(3):
                if got[("+", k)] != want[k]:
                    _fail(acc, "new GeneticCode.sixframes: plus-strand amino acids", dict(case, start=k), got[("+", k)], want[k])
                if got[("-", k)] != want[3 + k]:
                    _fail(acc, _minus_sig("new GeneticCode.sixframes", ("ok", got[("-", k)]), want, L, k),
                          dict(case, start=k), got[("-", k)], want[3 + k])


def _minus_sig(where, r, want, L, k, array=False):
    """signature for a wrong minus-strand translation: is it another frame of rc(s), or wrong amino acids?"""
    if r[0] != "ok":
        return f"{where}: raised {r[1]}" + (" [index array input]" if array else "")
    if r[1] == want[3 + (L - k) % 3] and (L - k) % 3 != k:
        return f"{where}: frame `start` of the minus strand is frame (len-start)%3 of rc(s) [len != 2*start mod 3]"
    return f"{where}: minus-strand amino acids" + (" [index array input]" if array else "")


# ----------------------------------------------------------------------------- part: sequence level
OPTS = list(itertools.product((False, True), repeat=3))  # incomplete_ok, include_stop, trim_stop
OPT_NAMES = ("incomplete_ok", "include_stop", "trim_stop")


def _judge_translation(acc, who, table, seqs, opt, r, rows_keep_length=False):
    """r = call(...) whose value is {name: protein str}; seqs = {name: nucleotide str}
    -> None (agrees with the oracle) | (observable, structural class, want detail)"""
    accepted_err = False
    want = {}
    only_err = False
    for name, s in seqs.items():
        a, trimmed = o_get_translation(table, s, *opt)
        if AA_ERR in a:
            accepted_err = True
        ok = [x for x in a if x != AA_ERR]
        if ok:
            want[name] = ok[0] + ("-" if trimmed and rows_keep_length else "")
        else:
            only_err = True
    acc.outcome((who, r[0], r[1] if r[0] == "err" else tuple(sorted(r[1].values()))))
    if r[0] == "err":
        if accepted_err and r[1] == AA_ERR:
            return None
        obs = f"raised {r[1]}"
    else:
        if not only_err and r[1] == want:
            return None
        obs = "stop codon not rejected with AlphabetError" if only_err else "protein"
    cls = stop_class(table, list(seqs.values()), *opt)
    return obs, cls, {"accepted": sorted(want.items()) if not only_err else [], "AlphabetError accepted": accepted_err}


def _len_class(s):
    return "empty sequence" if not s else ("length not divisible by 3" if len(s) % 3 else "length divisible by 3")


def _seq_objects(s, views):
    I = impl()
    out = [("old", "Sequence", I["om"].DNA.make_seq(s, name="x")), ("new", "Sequence", I["nm"].DNA.make_seq(seq=s, name="x"))]
    if views:
        r = o_rc(s)
        out.append(("old", "Sequence(rc view)", I["om"].DNA.make_seq(r, name="x").rc()))
        out.append(("new", "Sequence(rc view)", I["nm"].DNA.make_seq(seq=r, name="x").rc()))
        ru = s.replace("T", "U")
        out.append(("old", "RnaSequence", I["om"].RNA.make_seq(ru, name="x")))
        out.append(("new", "RnaSequence", I["nm"].RNA.make_seq(seq=ru, name="x")))
    return out


def _seq_level(acc, fam, kind, seq, s, cid, table, plain_sigs, report):
    """all sequence-level checks of one sequence object.

    Signatures name the call site that diverged first: a get_translation / trim_stop_codon that fails with the
    exception has_terminal_stop (which they call) already fails with is filed under has_terminal_stop; a failure of
    a view / RNA sequence that the plain DNA sequence shows as well is filed under the plain sequence's signature.
    report(sig, extra_case, got, want) files a failure; returns {opt: sig} for get_translation.
    """
    rna = kind == "RnaSequence"
    nt = _nt(s)

    def sig_for(op, obs, cls):
        plain = f"{fam} Sequence.{op}: {obs} [{cls}]"
        if kind == "Sequence":
            plain_sigs.add(plain)
            return plain
        if plain in plain_sigs:
            return plain
        if rna and "T" in s:
            cls = "sequence contains U"
        return f"{fam} {kind}.{op}: {obs} [{cls}]"

    root = None  # (exception name, sig) of a misbehaving has_terminal_stop
    for strict in (False, True):
        acc.case((fam, kind, "has_terminal_stop", s, cid, strict), nontrivial=nt)
        r = call(seq.has_terminal_stop, gc=cid, strict=strict)
        want = ("err", AA_ERR) if strict and len(s) % 3 else ("ok", o_has_terminal_stop(table, s))
        acc.outcome((fam, "hts", r))
        if r != want:
            sig = sig_for("has_terminal_stop", f"raised {r[1]}" if r[0] == "err" else "value", _len_class(s))
            if r[0] == "err" and root is None:
                root = (r[1], sig)
            report(sig, {"strict": strict, "op": "has_terminal_stop", "kind": kind}, r, want)
    for strict in (False, True):
        acc.case((fam, kind, "trim_stop_codon", s, cid, strict), nontrivial=nt)
        r = call(lambda: str(seq.trim_stop_codon(gc=cid, strict=strict)))
        text = s.replace("T", "U") if rna else s
        want = ("err", AA_ERR) if strict and len(s) % 3 else ("ok", text[:-3] if o_has_terminal_stop(table, s) else text)
        acc.outcome((fam, "tsc", r[0], r[1] if r[0] == "err" else len(r[1])))
        if r != want:
            if root and r == ("err", root[0]):
                sig = root[1]
            else:
                sig = sig_for("trim_stop_codon", f"raised {r[1]}" if r[0] == "err" else "sequence", _len_class(s))
            report(sig, {"strict": strict, "op": "trim_stop_codon", "kind": kind}, r, want)
    sigs = {}
    for opt in OPTS:
        acc.case((fam, kind, "get_translation", s, cid, opt), nontrivial=nt)
        kw = dict(zip(OPT_NAMES, opt))
        r = call(lambda: {"x": str(seq.get_translation(cid, **kw))})
        bad = _judge_translation(acc, f"{fam} {kind}", table, {"x": s}, opt, r)
        if bad:
            obs, cls, want = bad
            if root and r == ("err", root[0]):
                sig = root[1]
            else:
                sig = sig_for("get_translation", obs, cls)
            sigs[opt] = (sig, r)
            report(sig, {"opt": list(opt), "op": "get_translation", "kind": kind}, r, want)
    return sigs


def chk_seq(acc, s, cid, views=False, frames=False):
    I = impl()
    table = GOLD[cid]["aa"]
    case = {"part": "seq", "s": s, "code": cid, "views": views, "frames": frames}
    nt = _nt(s)
    plain = {"old": set(), "new": set()}
    objs = _seq_objects(s, views)
    for fam, kind, seq in objs:
        _seq_level(acc, fam, kind, seq, s, cid, table, plain[fam],
                   lambda sig, extra, got, want: _fail(acc, sig, dict(case, **extra), got, want))
    if frames:
        chk_select(acc, s, cid)
        so = objs[0][2]
        old = I["og"].get_code(cid)
        want = o_frames(table, s)
        acc.case(("old.sixframes", s, cid), nontrivial=nt)
        r = call(old.sixframes, so)
        acc.outcome(("old6", str(r[1])))
        # no complete codon at `start`: the old translate raises its documented ValueError
        if r != ("ok", want) and not (r == ("err", "ValueError") and 0 < len(s) < 3):
            _fail(acc, "old GeneticCode.sixframes: " + ("amino acids" if r[0] == "ok" else f"raised {r[1]}"), case, r, want)
        for allow_rc in (False, True):
            acc.case(("translate_frames", s, cid, allow_rc), nontrivial=nt)
            r = call(I["app"].translate_frames, so, gc=cid, allow_rc=allow_rc)
            w = want if allow_rc else want[:3]
            if r != ("ok", w) and not (r == ("err", "ValueError") and 0 < len(s) < 3):
                _fail(acc, "app.translate.translate_frames: " + ("amino acids" if r[0] == "ok" else f"raised {r[1]}"),
                      dict(case, allow_rc=allow_rc), r, w)


_SELECT_APPS = {}


def chk_select(acc, s, cid):
    """the select_translatable app with allow_rc=True: where exactly one of the six frames is free of internal stops, the
    sequence it returns is that frame's codons (read from the reverse complement for a minus frame), terminal stop trimmed"""
    I = impl()
    table = GOLD[cid]["aa"]
    if len(s) < 3:
        return
    trs = [t[:-1] if t.endswith("*") else t for t in o_frames(table, s)]
    clean = [i for i, t in enumerate(trs) if "*" not in t]
    if not clean:
        return  # the app drops the sequence
    # which of several stop-free frames is used is the library's tie-break: its own best_frame() says which; what
    # is judged is that the selected sequence is that frame's codons
    bf = call(lambda: I["app"].best_frame(I["om"].DNA.make_seq(s, name="a"), gc=cid, allow_rc=True))
    if bf[0] == "err":
        _fail(acc, "app.translate.best_frame(allow_rc=True): refuses a sequence that has a frame without internal stops", {"part": "select", "s": s, "code": cid}, bf, clean)
        return
    if bf[0] != "ok" or not isinstance(bf[1], int) or bf[1] == 0:
        return
    i = (bf[1] - 1) if bf[1] > 0 else (2 - bf[1])
    if i not in clean:
        _fail(acc, "app.translate.best_frame(allow_rc=True): the frame it names has an internal stop", {"part": "select", "s": s, "code": cid}, bf, clean)
        return
    r = s if i < 3 else o_rc(s)
    off = i % 3
    n = (len(r) - off) // 3
    want = r[off:off + 3 * n]
    if n and table[cidx(want[-3:])] == "*":
        want = want[:-3]
    case = {"part": "select", "s": s, "code": cid}
    acc.case(("select_translatable", s, cid), nontrivial=i >= 3)
    if cid not in _SELECT_APPS:
        from cogent3 import get_app

        _SELECT_APPS[cid] = get_app("select_translatable", gc=cid, allow_rc=True, trim_terminal_stop=True)
    coll = I["oa"].SequenceCollection({"a": s}, moltype="dna")
    got = call(lambda: str(_SELECT_APPS[cid](coll).to_dict()["a"]))
    acc.outcome(("select", i, got[0]))
    if got != ("ok", want):
        strand = "reverse strand frame" if i >= 3 else "forward strand frame"
        _fail(acc, f"app.translate.select_translatable(allow_rc=True): " + ("selected sequence is not the codons of the frame best_frame() names" if got[0] == "ok" else f"raised {got[1]}") + f" [{strand} {i % 3 + 1}]",
              case, got, want)


# ----------------------------------------------------------------------------- part: collections and the app
def _collection_makers():
    I = impl()
    oa, na = I["oa"], I["na"]
    return [
        ("old", "SequenceCollection", False, lambda d: oa.SequenceCollection(d, moltype="dna")),
        ("old", "Alignment", True, lambda d: oa.Alignment(d, moltype="dna")),
        ("old", "ArrayAlignment", True, lambda d: oa.ArrayAlignment(d, moltype="dna")),
        ("new", "SequenceCollection", False, lambda d: na.make_unaligned_seqs(d, moltype="dna")),
    ]


class _Quiet:
    """accumulator stand-in used when member sequences are re-run only to attribute a collection failure"""

    def case(self, *a, **k):
        pass

    def outcome(self, *a, **k):
        pass


def _member_attribution(fam, data, cid, table, opt, r):
    """If the collection's deviating result is just what the family's Sequence.get_translation gives for its members
    (collections delegate to it), return that Sequence-level signature, else None."""
    I = impl()
    member = {}
    first_sig = None
    for name, s in data.items():
        if not s and fam == "new":
            return None
        seq = I["om"].DNA.make_seq(s, name=name) if fam == "old" else I["nm"].DNA.make_seq(seq=s, name=name)
        sigs = _seq_level(_Quiet(), fam, "Sequence", seq, s, cid, table, set(), lambda *a: None)
        kw = dict(zip(OPT_NAMES, opt))
        member[name] = call(lambda: str(seq.get_translation(cid, **kw)))
        if opt in sigs and first_sig is None:
            first_sig = (sigs[opt][0], member[name])
    if first_sig is None:
        return None
    if r[0] == "err":
        return first_sig[0] if any(m == r for m in member.values()) else None
    if all(m[0] == "ok" and m[1].rstrip("-") == r[1].get(n, "\0").rstrip("-") for n, m in member.items()):
        return first_sig[0]
    return None


def chk_coll(acc, seqs, cid):
    """seqs: list of nucleotide strings (names a, b, ...)"""
    from cogent3 import get_app

    table = GOLD[cid]["aa"]
    data = {"abcd"[i]: s for i, s in enumerate(seqs)}
    case = {"part": "coll", "seqs": list(seqs), "code": cid}
    nt = any(_nt(s) for s in seqs)
    aligned_ok = len({len(s) for s in seqs}) == 1
    for fam, kind, aligned, mk in _collection_makers():
        if aligned and not aligned_ok:
            continue
        if not all(seqs) and (aligned or fam == "new"):
            # an alignment of zero columns / a new-style collection with an empty member is not constructible input
            continue
        c = call(mk, dict(data))
        if c[0] != "ok":
            _fail(acc, f"{fam} {kind}: constructor raised {c[1]}", case, c, None)
            continue
        coll = c[1]
        # call site = the class that defines the method (Alignment and ArrayAlignment share AlignmentI's)
        owner = type(coll).get_translation.__qualname__.split(".")[0]
        method = f"{fam} {owner}.get_translation"

        def judge(who, opt, r):
            bad = _judge_translation(acc, who, table, data, opt, r, rows_keep_length=aligned)
            if bad:
                obs, cls, want = bad
                sig = _member_attribution(fam, data, cid, table, opt, r) or f"{who}: {obs} [{cls}]"
                _fail(acc, sig, dict(case, opt=list(opt), entry=who), r, want)

        for opt in OPTS:
            acc.case((fam, kind, "get_translation", tuple(seqs), cid, opt), nontrivial=nt)
            kw = dict(zip(OPT_NAMES, opt))
            r = call(lambda: {k: str(v) for k, v in coll.get_translation(cid, **kw).to_dict().items()})
            judge(method, opt, r)
        if fam == "old":
            for trim in (True, False):
                acc.case(("app.translate_seqs", kind, tuple(seqs), cid, trim), nontrivial=nt)
                app = get_app("translate_seqs", gc=cid, trim_terminal_stop=trim)
                r = call(lambda: app.main(coll))
                if r[0] == "ok":
                    r = call(lambda: {k: str(v) for k, v in r[1].to_dict().items()})
                # the app is a thin wrapper: a failure the collection method shows too is filed there
                bad = _judge_translation(acc, f"app translate_seqs({kind})", table, data, (False, False, trim), r, rows_keep_length=aligned)
                if bad:
                    direct = call(lambda: {k: str(v) for k, v in coll.get_translation(cid, trim_stop=trim).to_dict().items()})
                    if direct == r:
                        judge(method, (False, False, trim), r)
                    else:
                        _fail(acc, f"app translate_seqs({kind}): {bad[0]} [{bad[1]}]", dict(case, trim=trim), r, bad[2])
        for strict in (False, True):
            acc.case((fam, kind, "has_terminal_stop", tuple(seqs), cid, strict), nontrivial=nt)
            r = call(coll.has_terminal_stop, gc=cid, strict=strict)
            any_stop = any(o_has_terminal_stop(table, s) for s in seqs)
            bad_len = any(len(s) % 3 for s in seqs)
            acc.outcome((fam, kind, "hts", r))
            # with strict the scan may stop at the first terminal stop before reaching an odd-length member
            ok = (r == ("ok", any_stop) and not (strict and bad_len and not any_stop)) or (
                strict and bad_len and r == ("err", AA_ERR))
            if not ok:
                cls = "empty sequence" if not all(seqs) else ("length not divisible by 3" if bad_len else "length divisible by 3")
                sig = f"{fam} {kind}.has_terminal_stop: " + (f"raised {r[1]}" if r[0] == "err" else "value") + f" [{cls}]"
                if not all(seqs) and r[0] == "err":
                    sig = f"{fam} Sequence.has_terminal_stop: raised {r[1]} [empty sequence]"  # delegated to the member
                _fail(acc, sig, dict(case, strict=strict), r, any_stop)
    acc.sample({"collection": data, "code": cid, "classes": [m[1] for m in _collection_makers()]}, "coll")


def unit_seqs(units, max_units=2, tails=("", "A", "AT")):
    out = []
    for k in range(max_units + 1):
        for u in itertools.product(units, repeat=k):
            for t in tails:
                out.append("".join(u) + t)
    return out


# ----------------------------------------------------------------------------- part: complement / ambiguity
def chk_comp_string(acc, s, rna, with_seqs):
    I = impl()
    t = "U" if rna else "T"
    text = s.replace("T", t)
    want_c = "".join(o_complement_sym(c, rna) for c in text)
    want_rc = want_c[::-1]
    nt = any(c not in "ACGTU" for c in text)
    case = {"part": "comp", "s": text, "rna": rna, "with_seqs": with_seqs}
    name = "RNA" if rna else "DNA"
    for fam, mod in (("old", I["om"]), ("new", I["nm"])):
        mt = getattr(mod, name)
        acc.case((fam, name, "complement", text), nontrivial=nt)
        r = call(mt.complement, text)
        acc.outcome((fam, "c", r[1]))
        if r != ("ok", want_c):
            _fail(acc, f"{fam} MolType.complement: " + ("symbols" if r[0] == "ok" else f"raised {r[1]}"), case, r, want_c)
        acc.case((fam, name, "rc", text), nontrivial=nt)
        r = call(mt.rc, text)
        if r != ("ok", want_rc):
            _fail(acc, f"{fam} MolType.rc: " + ("symbols" if r[0] == "ok" else f"raised {r[1]}"), case, r, want_rc)
        r2 = call(lambda: mt.rc(mt.rc(text)))
        if r2 != ("ok", text):
            _fail(acc, f"{fam} MolType.rc: not an involution", case, r2, text)
        if fam == "new":
            # the other argument forms of the same entry points: bytes and index arrays must say what the string form says
            import numpy

            alpha = mt.degen_gapped_alphabet
            for form, meth, want in (("bytes", mt.complement, want_c), ("bytes", mt.rc, want_rc), ("array", mt.complement, want_c), ("array", mt.rc, want_rc)):
                acc.case((fam, name, meth.__name__, form, text), nontrivial=nt)
                if form == "bytes":
                    r = call(lambda: meth(text.encode("utf8")).decode("utf8"))
                else:
                    r = call(lambda: alpha.from_indices(numpy.asarray(meth(alpha.to_indices(text)))))
                    if r[0] == "ok" and not isinstance(r[1], str):
                        r = ("ok", "".join(r[1]))
                if r != ("ok", want):
                    _fail(acc, f"new MolType.{meth.__name__} given {form}: " + ("symbols differ from the string form" if r[0] == "ok" else f"raised {r[1]}"), case, r, want)
        if with_seqs and text:
            if fam == "new":
                sq = mt.make_seq(seq=text, name="x")
                acc.case((fam, name, "array(seq.rc)", text), nontrivial=nt)
                r = call(lambda: mt.degen_gapped_alphabet.from_indices(numpy.array(sq.rc())))
                if r[0] == "ok" and not isinstance(r[1], str):
                    r = ("ok", "".join(r[1]))
                if r != ("ok", want_rc):
                    _fail(acc, "new Sequence.rc: array form differs from the string form" if r[0] == "ok" else f"new Sequence.rc: array form raised {r[1]}", case, r, want_rc)
            seq = mt.make_seq(text, name="x") if fam == "old" else mt.make_seq(seq=text, name="x")
            acc.case((fam, name, "seq.rc", text), nontrivial=nt)
            r = call(lambda: str(seq.rc()))
            if r != ("ok", want_rc):
                _fail(acc, f"{fam} Sequence.rc: " + ("symbols" if r[0] == "ok" else f"raised {r[1]}"), case, r, want_rc)
            r = call(lambda: str(seq.rc().rc()))
            if r != ("ok", text):
                _fail(acc, f"{fam} Sequence.rc: not an involution", case, r, text)
            acc.case((fam, name, "seq.complement", text), nontrivial=nt)
            r = call(lambda: str(seq.complement()))
            if r != ("ok", want_c):
                _fail(acc, f"{fam} Sequence.complement: " + ("symbols" if r[0] == "ok" else f"raised {r[1]}"), case, r, want_c)
            # complement of a view that is itself reversed: complement(rc(x)) is x reversed
            r = call(lambda: str(seq.rc().complement()))
            if r != ("ok", text[::-1]):
                _fail(acc, f"{fam} Sequence.complement of a reverse-complemented view: " + ("symbols" if r[0] == "ok" else f"raised {r[1]}"), case, r, text[::-1])


def chk_symbols(acc, name):
    """resolve <-> re-encode for one molecular type, both families"""
    I = impl()
    case = {"part": "symbols", "moltype": name}
    rna = name == "RNA"
    if name == "PROTEIN":
        canon = PROT
        sets = {a: frozenset(a) for a in PROT}
        sets.update({k: frozenset(v) for k, v in PROT_DEGEN.items()})
    else:
        canon = "ACGU" if rna else "ACGT"
        sets = {k.replace("T", "U") if rna else k: iupac_set(k, rna) for k in IUPAC}
    full = dict(sets)
    full["-"] = frozenset("-")
    full["?"] = frozenset(canon + "-")

    def best(symbols):
        """symbols with the smallest set covering `symbols`"""
        cover = [k for k, v in full.items() if v >= symbols]
        m = min(len(full[k]) for k in cover)
        return sorted(k for k in cover if len(full[k]) == m)

    for fam, mod in (("old", I["om"]), ("new", I["nm"])):
        mt = getattr(mod, name)
        for sym, members in sorted(sets.items()):
            acc.case((fam, name, "resolve", sym), nontrivial=len(members) > 1)
            for allow_gap in (False, True):
                r = call(mt.resolve_ambiguity, sym, allow_gap=allow_gap)
                acc.outcome((fam, name, "resolve", str(r[1])))
                if r[0] != "ok" or frozenset(r[1]) != members or len(r[1]) != len(members):
                    _fail(acc, f"{fam} MolType.resolve_ambiguity: " + ("set" if r[0] == "ok" else f"raised {r[1]}")
                          + f" [{'degenerate' if len(members) > 1 else 'canonical'} symbol, allow_gap={allow_gap}]",
                          dict(case, sym=sym), r, sorted(members))
                elif call(mt.degenerate_from_seq, "".join(r[1])) != ("ok", sym):
                    _fail(acc, f"{fam} MolType.degenerate_from_seq(resolve_ambiguity(sym)) != sym", dict(case, sym=sym),
                          call(mt.degenerate_from_seq, "".join(r[1])), sym)
        # the missing-data symbol: all canonical characters, plus the gap when allowed
        for allow_gap in (False, True):
            acc.case((fam, name, "resolve", "?", allow_gap))
            r = call(mt.resolve_ambiguity, "?", allow_gap=allow_gap)
            want = frozenset(canon + ("-" if allow_gap else ""))
            if r[0] != "ok" or frozenset(r[1]) != want:
                _fail(acc, f"{fam} MolType.resolve_ambiguity: " + ("set" if r[0] == "ok" else f"raised {r[1]}")
                      + f" [missing symbol '?', allow_gap={allow_gap}]", dict(case, sym="?"), r, sorted(want))
        # every subset (nucleic) / every subset of size <= 2 and the full set (protein) -> symbol -> set
        if name == "PROTEIN":
            subsets = [c for k in (1, 2) for c in itertools.combinations(canon, k)] + [tuple(canon)]
            subsets += [c + ("-",) for c in itertools.combinations(canon, 1)] + [("-",)]
        else:
            subsets = [c for k in range(1, 6) for c in itertools.combinations(canon + "-", k)]
        for sub in subsets:
            members = frozenset(sub)
            want = best(members)
            encoders = [("degenerate_from_seq", mt.degenerate_from_seq)]
            if fam == "old":
                encoders.append(("what_ambiguity", mt.what_ambiguity))
            for ename, enc in encoders:
                acc.case((fam, name, ename, sub), nontrivial=len(sub) > 1)
                for arg in {"".join(sub), "".join(reversed(sub))}:
                    r = call(enc, arg)
                    acc.outcome((fam, name, ename, r[1]))
                    if r[0] != "ok" or r[1] not in want:
                        _fail(acc, f"{fam} MolType.{ename}: " + ("symbol" if r[0] == "ok" else f"raised {r[1]}")
                              + (" [set contains the gap]" if "-" in sub else ""), dict(case, subset="".join(sub)), r, want)
                    elif full[r[1]] == members and r[1] not in "-?" and len(members) > 1:
                        back = call(mt.resolve_ambiguity, r[1])
                        if back[0] != "ok" or frozenset(back[1]) != members:
                            _fail(acc, f"{fam} MolType.resolve_ambiguity({ename}(set)) != set", dict(case, subset="".join(sub)), back, sorted(members))
        # degenerate symbols inside the argument are expanded before re-encoding
        if name != "PROTEIN":
            for a, b in itertools.combinations(sorted(sets), 2):
                acc.case((fam, name, "degenerate_from_seq", a + b))
                want = best(sets[a] | sets[b])
                r = call(mt.degenerate_from_seq, a + b)
                if r[0] != "ok" or r[1] not in want:
                    _fail(acc, f"{fam} MolType.degenerate_from_seq: " + ("symbol" if r[0] == "ok" else f"raised {r[1]}")
                          + " [argument holds degenerate symbols]", dict(case, subset=a + b), r, want)
    acc.sample({"moltype": name, "symbols": "".join(sorted(sets)), "subsets": len(subsets)}, "symbols")


# ----------------------------------------------------------------------------- shards
def _strings(n, chunk, of, alphabet="ACGT"):
    for i, t in enumerate(itertools.product(alphabet, repeat=n)):
        if i % of == chunk:
            yield "".join(t)


def _nchunks(n, per_string_ms, target_s=12.0):
    total = (len("ACGT") ** n) * per_string_ms / 1000.0
    return max(1, min(4 ** n, int(total / target_s) + 1))


CODE_ORDERS = [[1, 2, 1], [2, 1, 2], [6, 22, 1, 23], [23, 1, 6], [4, 14, 2, 1]]


def chk_gapped_stops(acc, order):
    """terminal stop handling of *gapped* sequences (the stop codon is followed by gap characters), for several genetic
    codes one after the other in the same process: what a call answers must depend on its own code only, not on the
    codes used before it"""
    I = impl()
    for pos, cid in enumerate(order):
        table = GOLD[cid]["aa"]
        for i in range(64):
            codon = codon_at(i)
            stop = table[i] == "*"
            for tail in ("---", "-", "------"):
                s = "ATGCCC" + codon + tail
                case = {"part": "gapped_stops", "s": s, "code": cid, "order": order, "codes_used_before": order[:pos]}
                for fam in ("old", "new"):
                    seq = I["om"].DNA.make_seq(s, name="x") if fam == "old" else I["nm"].DNA.make_seq(seq=s, name="x")
                    acc.case((fam, "gapped", s, cid, tuple(order[:pos])), nontrivial=True)
                    r = call(lambda: bool(seq.has_terminal_stop(gc=cid)))
                    if r != ("ok", stop):
                        _fail(acc, f"{fam} Sequence.has_terminal_stop on a gapped sequence: " + ("answer" if r[0] == "ok" else f"raised {r[1]}"), case, r, stop)
                    r = call(lambda: str(seq.trim_stop_codon(gc=cid)).replace("-", ""))
                    want = "ATGCCC" if stop else "ATGCCC" + codon
                    acc.outcome((fam, "gapped-trim", stop, r[0]))
                    if r != ("ok", want):
                        _fail(acc, f"{fam} Sequence.trim_stop_codon on a gapped sequence: " + ("residues" if r[0] == "ok" else f"raised {r[1]}"), case, r, want)
    acc.sample({"gapped_terminal_stops": True, "code_order": order}, "gapped_stops")


def select_rev_strings(tail_len, first_stop, between="A", head=""):
    """sequences whose three forward frames each hold an internal stop (a stop at offsets 0, 4 and 8), so that the frame
    select_translatable has to use lies on the reverse strand: every choice of the three stops, the two bases between
    them (quick: A; thorough: A, C) and every tail of the given length over {A, C, G}"""
    stops = ["TAA", "TAG", "TGA"]
    for s2, s3 in itertools.product(stops, repeat=2):
        for n1, n2 in itertools.product(between, repeat=2):
            for tail in itertools.product("ACG", repeat=tail_len):
                yield head + first_stop + n1 + s2 + n2 + s3 + "".join(tail)


ORF_UNITS = ["ATT", "ATA", "AGC", "AAT", "TTA", "CTT", "AGT", "TCA"]


def select_orf_strings(first, n, stops):
    """reverse complements of open reading frames: n codons over ORF_UNITS (the first one given) then a stop codon.  The
    units are chosen so that the other five frames mostly hold stops of their own, some of them exactly one: the frame to
    use is then the reverse-strand one that ends in a terminal stop"""
    for rest in itertools.product(ORF_UNITS, repeat=n - 1):
        for st in stops:
            yield o_rc(first + "".join(rest) + st)


def shards(tier, seed):
    b = bounds(tier)
    out = [{"part": "tables"}, {"part": "symbols"}] + [{"part": "gapped_stops", "order": o} for o in CODE_ORDERS]
    out += [{"part": "select_rev", "tail": L, "first": st, "between": "A" if tier == "quick" else "AC"}
            for L in ((3, 4) if tier == "quick" else (3, 4, 5)) for st in ("TAA", "TAG", "TGA")]
    if tier == "quick":
        out.append({"part": "select_rev", "tail": 5, "first": "TGA", "between": "C"})  # reaches the frames -2 and -3 as well
    # a head that is the reverse complement of a stop codon: the reverse-strand frame then ends in a terminal stop
    out += [{"part": "select_rev", "tail": L, "first": st, "between": "A", "head": h}
            for h in (("TTA",) if tier == "quick" else ("TTA", "CTA", "TCA"))
            for L in ((2, 3, 4) if tier == "quick" else (2, 3, 4, 5)) for st in ("TAA", "TAG", "TGA")]
    out += [{"part": "select_orf", "first": u, "n": 4, "stops": ["TAA", "TAG", "TGA"]} for u in ORF_UNITS]
    if tier == "thorough":
        out += [{"part": "select_orf", "first": u, "n": 5, "stops": [st]} for u in ORF_UNITS for st in ("TAA", "TGA")]
    # gc level: all distinct tables inside the shard
    for n in range(0, b["gc_len"] + 1):
        of = _nchunks(n, 0.95 * len(TABLE_REPS), target_s=8.0 if tier == "quick" else 40.0)
        for c in range(of):
            out.append({"part": "translate", "n": n, "chunk": c, "of": of})
    # long inputs: every codon in order, repeated, at the lengths where index arrays change their integer type
    # (a defect found by an independent seeded-change author lay just outside the exhaustive length bound)
    for ncodons in ([255, 256, 257] if tier == "quick" else [255, 256, 257, 65535, 65536, 65537]):
        for lead in (0, 1, 2):
            out.append({"part": "long", "ncodons": ncodons, "lead": lead})
    # sequence level
    seq_codes = [int(c) for c in b["seq_len"]]
    for cid in seq_codes:
        for n in range(0, b["seq_len"][str(cid)] + 1):
            of = _nchunks(n, 34.0, target_s=8.0 if tier == "quick" else 40.0)
            for c in range(of):
                out.append({"part": "seq", "n": n, "chunk": c, "of": of, "codes": [cid], "frames": cid in (1, 2)})
    rest = [i for i in TABLE_REPS if i not in seq_codes]
    for n in range(0, b["seq_len_all_tables"] + 1):
        for grp in range(4):
            codes = rest[grp::4]
            if codes:
                out.append({"part": "seq", "n": n, "chunk": 0, "of": 1, "codes": codes, "frames": True})
    for n in range(0, b["view_len"] + 1):
        of = _nchunks(n, 100.0, target_s=8.0 if tier == "quick" else 40.0)
        for c in range(of):
            out.append({"part": "seq", "n": n, "chunk": c, "of": of, "codes": [1], "views": True})
    # collections
    useqs = unit_seqs(b["coll_units"])
    for cid in b["coll_codes"]:
        for i in range(len(useqs)):
            out.append({"part": "coll2", "first": i, "code": cid, "units": b["coll_units"]})
        for n in range(0, b["single_coll_len"] + 1):
            of = _nchunks(n, 450.0)
            for c in range(of):
                out.append({"part": "coll1", "n": n, "chunk": c, "of": of, "code": cid})
    # complement
    for rna in (False, True):
        for n in range(0, b["iupac_len"] + 1):
            of = 1 if n < 3 else 8
            for c in range(of):
                out.append({"part": "comp", "n": n, "chunk": c, "of": of, "rna": rna, "seqs": n <= b["iupac_seq_len"]})
    return out


def run_shard(spec, acc):
    part = spec["part"]
    if part == "tables":
        chk_registry(acc)
        for cid in ALL_IDS:
            chk_tables(acc, cid)
    elif part == "symbols":
        for name in ("DNA", "RNA", "PROTEIN"):
            chk_symbols(acc, name)
    elif part == "gapped_stops":
        chk_gapped_stops(acc, spec["order"])
    elif part == "select_orf":
        for s in select_orf_strings(spec["first"], spec["n"], spec["stops"]):
            chk_select(acc, s, 1)
        acc.sample({"select_translatable": "reverse complements of open reading frames", "codons": spec["n"], "units": ORF_UNITS}, "select_orf")
    elif part == "select_rev":
        for s in select_rev_strings(spec["tail"], spec["first"], spec["between"], spec.get("head", "")):
            chk_select(acc, s, 1)
        acc.sample({"select_translatable": "reverse-strand frames", "tail_length": spec["tail"]}, "select_rev")
    elif part == "translate":
        for s in _strings(spec["n"], spec["chunk"], spec["of"]):
            for cid in TABLE_REPS:
                chk_translate(acc, s, cid)
        acc.sample({"length": spec["n"], "codes": TABLE_REPS,
                    "entry_points": "old translate; new translate (str, index array) x rc; new sixframes"}, f"translate{spec['n']}")
    elif part == "long":
        s = "ACG"[: spec["lead"]] + "".join(codon_at(i % 64) for i in range(spec["ncodons"]))
        for cid in TABLE_REPS:
            chk_translate(acc, s, cid)
        acc.sample({"long": True, "codons": spec["ncodons"], "leading_bases": spec["lead"], "codes": TABLE_REPS}, "long")
    elif part == "seq":
        for s in _strings(spec["n"], spec["chunk"], spec["of"]):
            for cid in spec["codes"]:
                chk_seq(acc, s, cid, views=spec.get("views", False), frames=spec.get("frames", False))
        acc.sample({"length": spec["n"], "codes": spec["codes"], "views": spec.get("views", False),
                    "entry_points": "old/new Sequence get_translation x 8 options, has_terminal_stop, trim_stop_codon"},
                   f"seq{spec['n']}")
    elif part == "coll2":
        useqs = unit_seqs(spec["units"])
        s1 = useqs[spec["first"]]
        for s2 in useqs:
            chk_coll(acc, [s1, s2], spec["code"])
    elif part == "coll1":
        for s in _strings(spec["n"], spec["chunk"], spec["of"]):
            chk_coll(acc, [s], spec["code"])
    elif part == "comp":
        for s in _strings(spec["n"], spec["chunk"], spec["of"], alphabet=NUC_SYMS):
            chk_comp_string(acc, s, spec["rna"], spec["seqs"])
        acc.sample({"length": spec["n"], "alphabet": NUC_SYMS, "rna": spec["rna"]}, "comp")


def replay(case):
    from vf.kernel.runner import Acc

    acc = Acc()
    part = case.get("part")
    if part in ("tables", "registry"):
        chk_registry(acc)
        if "code" in case:
            chk_tables(acc, case["code"])
    elif part == "gapped_stops":
        chk_gapped_stops(acc, case["order"])
    elif part == "translate":
        chk_translate(acc, case["s"], case["code"])
    elif part == "select":
        chk_select(acc, case["s"], case["code"])
    elif part == "seq":
        chk_seq(acc, case["s"], case["code"], views=case.get("views", False), frames=case.get("frames", False))
    elif part == "coll":
        chk_coll(acc, case["seqs"], case["code"])
    elif part == "comp":
        chk_comp_string(acc, case["s"].replace("U", "T"), case["rna"], case.get("with_seqs", True))
    elif part == "symbols":
        chk_symbols(acc, case["moltype"])
    return [(sig, rec["cases"][0]["detail"]) for sig, rec in acc.failures.items()]


LEVEL_TEXT = (
    "Bounded exhaustive exploration on the real translation / complement code: every nucleotide string up to the length bound is "
    "translated by every entry point under every distinct NCBI table, in all six frames and under all eight stop-option combinations, "
    "and compared with a codon-by-codon table lookup that uses its own TCAG index arithmetic and its own reverse complement; every "
    "codon, amino acid and IUPAC symbol is checked individually. All 64 codons, every length mod 3 on both strands and every "
    "position of a stop codon (terminal, internal, doubled) occur within the bound, so the verdict is complete for the frame / "
    "truncation / stop logic, which is length-generic."
)
LEVEL_NOTE = (
    "Trusted: the golden NCBI strings (extracted from the pinned tree after checking that the two independent copies in cogent3 "
    "agree), the ~40-line lookup oracle, the written-out IUPAC table. Gapped / degenerate codons at sequence level, best_frame and "
    "select_translatable heuristics are not judged; nothing is claimed above the recorded length bounds."
)
