"""C18 - aligners preserve their inputs and are optimal for their own model.

K2: exhaustive enumeration of
  pair   every ordered pair of short DNA sequences (one representative per orbit of the
         nucleotide relabellings that preserve the scoring dict) x scoring dicts x gap costs x
         {global full DP, global Hirschberg, local}
  long   longer first sequences (nested Hirschberg recursion) x short second sequences, global
  asym   an asymmetric scoring dict on all pairs of length <= 2
  p2m    ``pairwise_to_multiple`` (pure function) on every k-tuple of pairwise alignments
         (= every path over {M,X,Y}) of short sequences against a short reference
  ref    ``align_to_ref`` on every ordered set of short sequences x reference choice
  prog   ``tree_align`` / ``progressive_align`` on every ordered triple of short sequences x guide trees
         x both Hirschberg settings

Oracle = vf.models.pairhmm: an independent path scorer written from the definition of the classic
pair-HMM and a brute-force enumeration of every path (for local alignment: between every start and
end cell); projection of a multiple alignment onto (reference, row).
"""

from __future__ import annotations

import itertools

from vf.models import pairhmm as H

PID = "C18"
LEVEL = "exploration"
TECHNIQUE = (
    "exhaustive bounded enumeration of sequence pairs / sets / tuples of pairwise alignments; independent "
    "pair-HMM path scorer + brute force over all paths; Hirschberg vs full DP on the same input; projection oracle"
)
RULE = (
    "pair: every ordered pair (s1,s2) of DNA strings up to the length bound, one representative per orbit of the 8 "
    "nucleotide relabellings that preserve purine/pyrimidine classes (all scoring dicts used are invariant under them), "
    "x scoring dict x gap (d,e) x {global with HIRSCHBERG_LIMIT=huge, global with HIRSCHBERG_LIMIT=0 (only when len(s1)>=3, "
    "otherwise it is the same code path), local}; long: s1 over {A,C} of the long lengths x s2 over {A,C} short, both orders, "
    "global, both settings; asym: all pairs over ACGT x one asymmetric dict; p2m: reference of fixed letters x every ordered "
    "k-tuple of (other length, path over {M,X,Y}); ref: reference string x every ordered k-tuple of other strings over {A,C} "
    "(one per relabelling orbit) x position of the reference in the collection, and ref_seq='longest' on every ordered tuple; "
    "prog: every ordered triple of strings over {A,C} (one per relabelling orbit) x guide tree x indel rate x both Hirschberg "
    "settings, through tree_align, the progressive_align app and tree_align without guide tree. Every case is enumerated once "
    "(distinct by construction). Non-trivial: pair/long = more than 3 residues in total (several competing paths; Hirschberg runs "
    "only exist for len(s1)>=3); p2m = k>=2 and the inputs put gaps into the reference at different places; ref/prog = the "
    "sequences are not all of equal length (gaps are forced)."
)
ASSUMPTIONS = [
    "the pair-HMM of classic_align_pairwise is: transitions = row-normalised exp(-cost) (X->X e, M->X d, M->Y d, X<->Y forbidden), "
    "first state from the stationary distribution, free END transition, gap emission 0, match emission S[a,b]+log(4); "
    "this model is written independently in vf/models/pairhmm.py and compared with the matrix the implementation builds (1e-9 absolute on probabilities)",
    "a local alignment is a path that starts and ends with a pair of aligned residues (at least one column)",
    "reported scores are compared with the independent model at absolute tolerance 1e-6 (the implementation obtains the begin "
    "probabilities by repeated matrix squaring, which for d=20 carries ~2e-8 relative error); Hirschberg and full DP scores are "
    "compared at 1e-9; ties between equally scoring paths are accepted (the two may return different optimal paths)",
    "results are equivariant under relabelling of nucleotides that preserves the scoring dict (one representative per orbit is run)",
    "scoring dicts are symmetric except in the 'asym' part, where the natural reading Sd[(s1 base, s2 base)] is the reference",
    "pairwise_to_multiple is judged on arbitrary valid pairwise alignments (no column of two gaps); the class of the input "
    "(every input emittable by the pair-HMM, i.e. no insertion adjacent to a deletion / not) is part of the failure signature",
    "align_to_ref(ref_seq='longest') may pick any sequence of maximal length",
    "a column consisting only of gaps is not an alignment column: a result containing one is reported (own signature)",
    "progressive alignment: only row length, names and degapped content are judged (the statement gives no optimality claim); "
    "the root Viterbi score must be the same for both Hirschberg settings whenever both settings produced the same child alignment",
    "tree_align without a guide tree is judged only when it returns an alignment (distance estimation may legitimately fail on "
    "degenerate input)",
]
EXHAUSTIVE = True
SHARD_TIMEOUT = {"quick": 600, "thorough": 3600}

TOL = 1e-6  # implementation vs independent model
TOL_SAME = 1e-9  # two runs of the implementation (Hirschberg vs full DP)
HUGE = 10**18

SCORINGS = {"m10ts-1tv-8": (10, -1, -8), "m1ts-1tv-1": (1, -1, -1), "m2.5ts0tv-1.5": (2.5, 0, -1.5)}  # non-integer scores, a zero
ASYM = "asym(A,C)=5,(C,A)=-20"

TIERS = {
    "quick": {
        "pair_spaces": [["ACGT", 3], ["AC", 4], ["AG", 4]],
        "gaps": [[1, 1], [4, 1], [10, 2], [20, 2]],
        "long": {"s1_len": [6], "s2_max": 3, "gaps": [[1, 1], [4, 1]], "scorings": ["m1ts-1tv-1", "m10ts-1tv-8"]},
        "asym_len": 2,
        "p2m": [{"ref": 1, "other": 3, "k": 2}, {"ref": 2, "other": 3, "k": 2}, {"ref": 3, "other": 3, "k": 2},
                {"ref": 4, "other": 2, "k": 2}, {"ref": 3, "other": 3, "k": 1}, {"ref": 1, "other": 2, "k": 3},
                {"ref": 2, "other": 1, "k": 3}],
        "ref": {"alphabet": "AC",
                "named": [{"ref_max": 3, "other_max": 4, "k": 2, "positions": [0], "settings": ["gappy"]}],
                "longest": [{"max_len": 3, "k": 2, "settings": ["gappy"]}]},
        "prog": {"alphabet": "AC", "max_len": 3, "trees": ["((a,b),c)", "(c,(a,b))"], "indel_rates": [0.1],
                 "app_tree": "(a:0.1,(b:0.2,c:0.1):0.1)", "none_tree": True, "root_score": ["((a,b),c)"]},
    },
    "thorough": {
        "pair_spaces": [["ACGT", 4], ["AC", 5], ["AG", 5]],
        "gaps": [[1, 1], [4, 1], [10, 2], [20, 2], [0, 0]],
        "long": {"s1_len": [6, 7], "s2_max": 3, "gaps": [[1, 1], [4, 1], [10, 2], [0, 0]],
                 "scorings": ["m1ts-1tv-1", "m10ts-1tv-8"]},
        "asym_len": 3,
        "p2m": [{"ref": 1, "other": 4, "k": 2}, {"ref": 2, "other": 4, "k": 2}, {"ref": 3, "other": 4, "k": 2},
                {"ref": 4, "other": 4, "k": 2, "max_cols": 6}, {"ref": 5, "other": 3, "k": 2, "max_cols": 6},
                {"ref": 4, "other": 4, "k": 1}, {"ref": 5, "other": 4, "k": 1},
                {"ref": 2, "other": 2, "k": 3}, {"ref": 3, "other": 2, "k": 3}, {"ref": 4, "other": 1, "k": 3}],
        "ref": {"alphabet": "AC",
                "named": [{"ref_max": 4, "other_max": 4, "k": 2, "positions": [0, 2], "settings": ["gappy"]},
                          {"ref_max": 4, "other_max": 4, "k": 2, "positions": [1], "settings": ["default"]},
                          {"ref_max": 4, "other_max": 4, "k": 1, "positions": [0, 1], "settings": ["gappy", "default"]},
                          {"ref_max": 3, "other_max": 2, "k": 3, "positions": [0, 3], "settings": ["gappy"]}],
                "longest": [{"max_len": 3, "k": 2, "settings": ["gappy", "default"]},
                            {"max_len": 4, "k": 1, "settings": ["gappy", "default"]}]},
        "prog": {"alphabet": "AC", "max_len": 3, "trees": ["((a,b),c)", "(a,(b,c))", "((a,c),b)", "(a,b,c)"],
                 "indel_rates": [0.1, 1e-10], "app_tree": "(a:0.1,(b:0.2,c:0.1):0.1)", "none_tree": True,
                 "root_score": ["((a,b),c)", "(a,(b,c))", "((a,c),b)"]},
    },
}

REF_SETTINGS = {"gappy": ("m1ts-1tv-1", 1, 1), "default": ("m10ts-1tv-8", 20, 2)}


def bounds(tier):
    b = dict(TIERS[tier])
    b["scorings"] = {k: list(v) for k, v in SCORINGS.items()}
    return b


# ----------------------------------------------------------------------------- enumeration helpers
_GROUP = [dict(zip("ACGT", img)) for img in ("ACGT", "GCAT", "ATGC", "GTAC", "CATG", "TACG", "CGTA", "TGCA")]
_TABLES = [str.maketrans(g) for g in _GROUP]


def canonical(*ss):
    """is the tuple of strings the least member of its orbit under the purine/pyrimidine-preserving relabellings"""
    for t in _TABLES[1:]:
        if tuple(x.translate(t) for x in ss) < ss:
            return False
    return True


def strings(alphabet, lo, hi):
    for n in range(lo, hi + 1):
        for p in itertools.product(alphabet, repeat=n):
            yield "".join(p)


def pair_space(spaces):
    """canonical ordered pairs of the union of the spaces, each once"""
    done_max = 0
    for k, (alphabet, maxlen) in enumerate(spaces):
        ss = list(strings(alphabet, 1, maxlen))
        for s1 in ss:
            for s2 in ss:
                if k and max(len(s1), len(s2)) <= done_max:
                    continue  # already part of the first (4-letter) space
                if canonical(s1, s2):
                    yield s1, s2
        if k == 0:
            done_max = maxlen


def scoring_dict(name):
    """(dict handed to cogent3, dict used by the oracle)"""
    from cogent3.align.align import make_dna_scoring_dict

    if name == ASYM:
        base = H.dna_scores(10, -1, -8)
        base["A", "C"] = 5
        base["C", "A"] = -20
        return dict(base), base
    m, ts, tv = SCORINGS[name]
    return make_dna_scoring_dict(m, ts, tv), H.dna_scores(m, ts, tv)


def _seq(s, name):
    from cogent3 import make_seq

    return make_seq(s, name=name, moltype="dna")


# ----------------------------------------------------------------------------- seam: Hirschberg switch
_HCALLS = [0]


def worker_init():
    from cogent3.align import pairwise

    cls = pairwise.PairEmissionProbs
    if not getattr(cls.hirschberg, "_vf_counted", False):
        orig = cls.hirschberg

        def hirschberg(self, TM, dp_options):
            _HCALLS[0] += 1
            return orig(self, TM, dp_options)

        hirschberg._vf_counted = True
        cls.hirschberg = hirschberg


class _Limit:
    def __init__(self, limit):
        self.limit = limit

    def __enter__(self):
        from cogent3.align import pairwise

        self.mod = pairwise
        self.old = pairwise.HIRSCHBERG_LIMIT
        pairwise.HIRSCHBERG_LIMIT = self.limit

    def __exit__(self, *a):
        self.mod.HIRSCHBERG_LIMIT = self.old


def _pairwise(s1, s2, S, d, e, local, limit):
    from cogent3.align.align import global_pairwise, local_pairwise

    before = _HCALLS[0]
    with _Limit(limit):
        try:
            fn = local_pairwise if local else global_pairwise
            aln, score = fn(_seq(s1, "a"), _seq(s2, "b"), S, d, e, return_score=True)
            dd = aln.to_dict()
            res = ("ok", dd, float(score))
        except Exception as ex:  # noqa: BLE001
            res = ("raised", type(ex).__name__, str(ex)[:200])
    return res, _HCALLS[0] - before


# ----------------------------------------------------------------------------- part: pair
OPS = {"full": "global_pairwise (full DP)", "hirschberg": "global_pairwise (Hirschberg)", "local": "local_pairwise"}


def check_tm(d, e, acc):
    """the transition matrix the implementation builds for (d, e) against the independent model"""
    import numpy
    from cogent3.align import indel_model, pairwise

    case = {"part": "tm", "d": d, "e": e}
    acc.case(case)
    try:
        sd, T = pairwise.adapt_pair_tm(indel_model.classic_gap_scores(d, e))
        want = numpy.array(H.transition_matrix_5x5(d, e))
        dirs = sorted(tuple(int(v) for v in row) for row in sd)
        if dirs != [(1, 0, 1, 0), (2, 0, 0, 1), (3, 0, 1, 1)]:
            acc.fail("classic_gap_scores/adapt_pair_tm: state directions != (X, Y, M)", case, {"got": dirs})
        elif T.shape != want.shape or float(abs(T - want).max()) > TOL_SAME:
            acc.fail("classic_gap_scores/adapt_pair_tm: transition matrix != row-normalised exp(-cost) model", case,
                     {"got": T.tolist(), "want": want.tolist()})
        acc.outcome(("tm", d, e, "ok"))
    except Exception as ex:  # noqa: BLE001
        acc.fail(f"classic_gap_scores/adapt_pair_tm: raised {type(ex).__name__}", case, {"msg": str(ex)[:200]})


_MODELS = {}
_SCORINGS = {}


def _model(d, e):
    if (d, e) not in _MODELS:
        _MODELS[d, e] = H.transition_model(d, e)
    return _MODELS[d, e]


def _judge(path, starts, score, s1, s2, S, d, e, local, model, cache):
    """(verdict, recomputed path scores, brute-force maximum, #paths, #tied) of a reported (path, score) under scores S"""
    key = (local, id(S))
    if key not in cache:
        bf = H.brute_force_local if local else H.brute_force_global
        cache[key] = bf(s1, s2, S, (d, e), model=model)
    top, npaths, nties = cache[key]
    mine = [H.score_path(path, s1, s2, S, (d, e), i, j, model=model) for i, j in starts]
    if not any(abs(x - score) <= TOL for x in mine):
        verdict = "reported score != independently recomputed score of the returned path"
    elif score < top - TOL:
        verdict = "returned path is not optimal (a higher-scoring path exists)"
    elif score > top + TOL:
        verdict = "reported score above the maximum over all paths"
    else:
        verdict = None
    return verdict, mine, top, npaths, nties


def check_pair(s1, s2, scoring, d, e, acc, modes=("full", "hirschberg", "local"), part="pair"):
    if scoring not in _SCORINGS:
        _SCORINGS[scoring] = scoring_dict(scoring)
    S_impl, S = _SCORINGS[scoring]
    model = _model(d, e)
    asym = scoring == ASYM
    St = {(a, b): S[b, a] for (a, b) in S} if asym else None
    cache = {}
    got_scores = {}
    for mode in modes:
        local = mode == "local"
        if mode == "hirschberg" and len(s1) < 3:
            continue  # the threshold test requires >= 3 positions: identical to the full-DP run
        case = {"part": part, "s1": s1, "s2": s2, "scoring": scoring, "d": d, "e": e, "mode": mode}
        acc.case(case, nontrivial=len(s1) + len(s2) > 3)
        op = OPS[mode]
        res, hcalls = _pairwise(s1, s2, S_impl, d, e, local, 0 if mode == "hirschberg" else HUGE)
        if mode == "hirschberg" and not hcalls:
            acc.fail("harness: HIRSCHBERG_LIMIT=0 did not reach PairEmissionProbs.hirschberg", case, None)
        if mode != "hirschberg" and hcalls:
            acc.fail("harness: PairEmissionProbs.hirschberg reached although HIRSCHBERG_LIMIT is huge / local", case, None)
        if res[0] == "raised":
            acc.fail(f"{op}: raised {res[1]}", case, {"msg": res[2]})
            acc.outcome((mode, "raised", res[1]))
            continue
        _, dd, score = res
        if sorted(dd) != ["a", "b"]:
            acc.fail(f"{op}: sequence names changed", case, {"got": sorted(dd)})
            continue
        r1, r2 = dd["a"], dd["b"]
        path = H.path_of_rows(r1, r2)
        if not path:
            acc.fail(f"{op}: rows are not a two-row alignment (unequal length, empty or a column of two gaps)", case,
                     {"rows": [r1, r2]})
            continue
        g1, g2 = r1.replace("-", ""), r2.replace("-", "")
        if local:
            starts = [(i, j) for i in H.occurrences(g1, s1) for j in H.occurrences(g2, s2)]
            if not starts:
                acc.fail(f"{op}: degapped row is not a contiguous part of its input", case, {"rows": [r1, r2]})
                continue
        else:
            if (g1, g2) != (s1, s2):
                acc.fail(f"{op}: degapped rows != inputs", case, {"rows": [r1, r2]})
                continue
            starts = [(0, 0)]
        verdict, mine, top, npaths, nties = _judge(path, starts, score, s1, s2, S, d, e, local, model, cache)
        if not local and npaths != H.delannoy(len(s1), len(s2)):
            acc.fail("harness: brute force did not enumerate Delannoy(m,n) paths", case, {"got": npaths})
        detail = {"rows": [r1, r2], "reported": score, "recomputed": mine, "brute_force_max": top, "paths": npaths}
        if verdict and asym:
            # one orientation defect explains (score, optimality) failures at once: is the result right for the transposed dict?
            v_t, mine_t, top_t, _, _ = _judge(path, starts, score, s1, s2, St, d, e, local, model, cache)
            if v_t is None:
                detail.update({"recomputed_with_Sd[s2,s1]": mine_t, "brute_force_max_with_Sd[s2,s1]": top_t})
                acc.fail("classic_align_pairwise: scoring dict is applied transposed, as Sd[(s2 base, s1 base)] [asymmetric scoring dict]",
                         case, detail)
                acc.outcome((mode, "transposed"))
                continue
        if verdict:
            acc.fail(f"{op}: {verdict}" + (" [asymmetric scoring dict]" if asym else ""), case, detail)
        got_scores[mode] = score
        if local and not verdict and part == "pair" and not asym and len(s1) + len(s2) >= 4:
            _check_sw_app(s1, s2, scoring, S_impl, d, e, score, acc, case)
        acc.outcome((mode, path, starts[0], nties > 1, verdict))
        if nties > 1:
            acc.count("optimum_is_tied")
    if "full" in got_scores and "hirschberg" in got_scores:
        a, b = got_scores["full"], got_scores["hirschberg"]
        if abs(a - b) > TOL_SAME:
            acc.fail("global_pairwise: score differs between Hirschberg (HIRSCHBERG_LIMIT=0) and full DP",
                     {"part": part, "s1": s1, "s2": s2, "scoring": scoring, "d": d, "e": e, "mode": "both"},
                     {"full": a, "hirschberg": b})


_SW_APPS = {}


def _check_sw_app(s1, s2, scoring, S_impl, d, e, local_score, acc, case):
    """the smith_waterman app with the same scoring dict and penalties reports the score local_pairwise reports; also
    with a penalty of exactly zero (an argument value that must not be taken for 'not given')"""
    from cogent3 import get_app, make_unaligned_seqs

    seqs = make_unaligned_seqs({"a": s1, "b": s2}, moltype="dna")
    for dd, ee in ((d, e), (d, 0), (0, e)):
        key = (scoring, dd, ee)
        if key not in _SW_APPS:
            _SW_APPS[key] = get_app("smith_waterman", score_matrix=S_impl, insertion_penalty=dd, extension_penalty=ee)
        if (dd, ee) == (d, e):
            want = local_score
        else:
            ref, _ = _pairwise(s1, s2, S_impl, dd, ee, True, HUGE)
            if ref[0] != "ok":
                continue
            want = ref[2]
        try:
            r = _SW_APPS[key](seqs)
            got = float(r.info["align_params"]["sw_score"])
        except Exception as ex:  # noqa: BLE001
            acc.fail(f"smith_waterman app: raised {type(ex).__name__}", dict(case, penalties=[dd, ee]), {"error": str(ex)[:200]})
            continue
        if abs(got - want) > TOL_SAME:
            zero = " [a penalty of zero]" if 0 in (dd, ee) else ""
            acc.fail("smith_waterman app: sw_score differs from local_pairwise with the same scoring dict and penalties" + zero,
                     dict(case, penalties=[dd, ee]), {"app": got, "local_pairwise": want})


# ----------------------------------------------------------------------------- part: p2m
_LETTERS = ["ACGTACGT", "TGCATGCA", "GATCGATC", "CTAGCTAG"]


def p2m_inputs(m, other_max, max_cols=None):
    """every (length, path) of an other sequence against a reference of length m (optionally at most max_cols columns)"""
    out = []
    for n in range(1, other_max + 1):
        for p in H.all_paths(m, n):
            if max_cols is None or len(p) <= max_cols:
                out.append((n, p))
    return out


def check_p2m(m, items, acc, cache=None):
    """items: list of (other length, path); the pure function pairwise_to_multiple on these pairwise alignments"""
    from cogent3 import make_aligned_seqs
    from cogent3.app.align import pairwise_to_multiple

    cache = {} if cache is None else cache
    ref = _LETTERS[0][:m]
    k = len(items)
    emittable = all(H.hmm_emittable(p) for _, p in items)
    cls = "[every input emittable by the pair-HMM]" if emittable else "[an input has an insertion adjacent to a deletion]"
    case = {"part": "p2m", "m": m, "items": [[n, p] for n, p in items]}
    refgaps = {tuple(c for c in _ref_gap_profile(p)) for _, p in items}
    acc.case(case, nontrivial=k >= 2 and len(refgaps) > 1)
    pw, want = [], []
    for idx, (n, p) in enumerate(items):
        other = _LETTERS[1 + idx][:n]
        key = (idx, n, p)
        if key not in cache:
            r1, r2 = H.rows_of_path(p, ref, other)
            name = f"s{idx}"
            cache[key] = ((name, make_aligned_seqs({"ref": r1, name: r2}, moltype="dna", array_align=False)), (r1, r2))
        pw.append(cache[key][0])
        want.append(cache[key][1])
    if "ref" not in cache:
        cache["ref"] = _seq(ref, "ref")
    try:
        res = pairwise_to_multiple(pw, cache["ref"], "dna")
        dd = res.to_dict()
    except Exception as ex:  # noqa: BLE001
        acc.fail(f"pairwise_to_multiple: raised {type(ex).__name__} {cls}", case, {"msg": str(ex)[:200], "inputs": want})
        acc.outcome(("p2m", "raised", type(ex).__name__, emittable))
        return
    names = ["ref"] + [f"s{i}" for i in range(k)]
    if sorted(dd) != sorted(names):
        acc.fail(f"pairwise_to_multiple: sequence names changed {cls}", case, {"got": sorted(dd)})
        return
    rows = [dd[n] for n in names]
    detail = {"inputs": want, "result": rows}
    if len({len(r) for r in rows}) != 1:
        acc.fail(f"pairwise_to_multiple: rows of unequal length {cls}", case, detail)
        return
    if rows[0].replace("-", "") != ref or any(rows[i + 1].replace("-", "") != want[i][1].replace("-", "") for i in range(k)):
        acc.fail(f"pairwise_to_multiple: degapped rows != inputs {cls}", case, detail)
        return
    verdict = "ok"
    for i in range(k):
        got = H.project(rows, 0, i + 1)
        if got == want[i]:
            continue
        if H.aligned_pairs(*got) != H.aligned_pairs(*want[i]):
            verdict = "pairs"
            break
        verdict = "order"
    if verdict != "ok":
        detail["difference"] = ("aligned residue pairs differ" if verdict == "pairs"
                                else "only the order of adjacent insertion/deletion columns differs")
        detail["all_gap_columns"] = _all_gap_columns(rows)
        acc.fail(f"pairwise_to_multiple: projection onto (ref,row) != input pairwise alignment {cls}", case, detail)
    elif _all_gap_columns(rows):
        verdict = "allgap"
        acc.fail(f"pairwise_to_multiple: result has a column consisting only of gaps {cls}", case, detail)
    acc.outcome(("p2m", verdict, emittable, len(rows[0]) - m))
    acc.count("p2m_emittable" if emittable else "p2m_not_emittable")
    # the inputs are not modified (pure function)
    for (name, aln), (r1, r2) in zip(pw, want):
        d2 = aln.to_dict()
        if (d2["ref"], d2[name]) != (r1, r2):
            acc.fail("pairwise_to_multiple: modified its input alignment", case, detail)
            cache.clear()
            break


def _all_gap_columns(rows):
    return [c for c in range(len(rows[0])) if all(r[c] == "-" for r in rows)]


def _ref_gap_profile(path):
    """gaps in the reference row: (reference position, run length) list"""
    out, pos, run = [], 0, 0
    for st in path:
        if st == "Y":
            run += 1
        else:
            if run:
                out.append((pos, run))
                run = 0
            pos += 1
    if run:
        out.append((pos, run))
    return out


# ----------------------------------------------------------------------------- part: ref
_APPS = {}
_DIRECT = {}


def _direct_pairwise(ref, other, setting):
    key = (ref, other, setting)
    if key not in _DIRECT:
        from cogent3.align.align import global_pairwise

        sname, d, e = REF_SETTINGS[setting]
        S_impl, _ = scoring_dict(sname)
        aln = global_pairwise(_seq(ref, "r"), _seq(other, "o"), S_impl, d, e)
        dd = aln.to_dict()
        if len(_DIRECT) > 200000:
            _DIRECT.clear()
        _DIRECT[key] = (dd["r"], dd["o"])
    return _DIRECT[key]


def check_ref(seqs, refchoice, setting, acc):
    from cogent3 import get_app, make_unaligned_seqs

    names = [chr(ord("a") + i) for i in range(len(seqs))]
    case = {"part": "ref", "seqs": list(seqs), "ref": refchoice, "setting": setting}
    acc.case(case, nontrivial=len({len(s) for s in seqs}) > 1)
    key = (refchoice, setting)
    if key not in _APPS:
        sname, d, e = REF_SETTINGS[setting]
        S_impl, _ = scoring_dict(sname)
        _APPS[key] = get_app("align_to_ref", ref_seq=refchoice, score_matrix=S_impl, insertion_penalty=d, extension_penalty=e)
    coll = make_unaligned_seqs(dict(zip(names, seqs)), moltype="dna")
    cls = "[ref_seq='longest']" if refchoice == "longest" else "[named reference]"
    try:
        res = _APPS[key](coll)
        if not res:  # NotCompleted
            acc.fail(f"align_to_ref: returned NotCompleted {cls}", case, {"msg": str(res)[:300]})
            acc.outcome(("ref", "notcompleted"))
            return
        dd = res.to_dict()
    except Exception as ex:  # noqa: BLE001
        acc.fail(f"align_to_ref: raised {type(ex).__name__} {cls}", case, {"msg": str(ex)[:200]})
        return
    if sorted(dd) != names:
        acc.fail(f"align_to_ref: sequence names changed {cls}", case, {"got": sorted(dd)})
        return
    rows = [dd[n] for n in names]
    detail = {"result": rows}
    if len({len(r) for r in rows}) != 1:
        acc.fail(f"align_to_ref: rows of unequal length {cls}", case, detail)
        return
    if [r.replace("-", "") for r in rows] != list(seqs):
        acc.fail(f"align_to_ref: degapped rows != inputs {cls}", case, detail)
        return
    if refchoice == "longest":
        L = max(len(s) for s in seqs)
        cands = [i for i, s in enumerate(seqs) if len(s) == L]
    else:
        cands = [names.index(refchoice)]
    problems = None
    for r in cands:
        problems = []
        for i in range(len(seqs)):
            if i == r:
                continue
            want = _direct_pairwise(seqs[r], seqs[i], setting)
            got = H.project(rows, r, i)
            if got != want:
                problems.append({"row": names[i], "projection": got, "global_pairwise(ref,row)": want,
                                 "emittable": H.hmm_emittable(H.path_of_rows(*want) or "")})
        if not problems:
            break
    if problems:
        acc.fail(f"align_to_ref: projection onto (ref,row) != global_pairwise(ref,row) {cls}", case,
                 {"result": rows, "problems": problems[:3], "all_gap_columns": _all_gap_columns(rows)})
    elif _all_gap_columns(rows):
        acc.fail(f"align_to_ref: result has a column consisting only of gaps {cls}", case, detail)
    acc.outcome(("ref", tuple(H.path_of_rows(*H.project(rows, cands[0], i)) for i in range(len(seqs)) if i != cands[0])))


# ----------------------------------------------------------------------------- part: prog
def _check_rows(op, cls, dd, names, seqs, case, acc):
    if sorted(dd) != sorted(names):
        acc.fail(f"{op}: sequence names changed {cls}", case, {"got": sorted(dd)})
        return None
    rows = [dd[n] for n in names]
    if len({len(r) for r in rows}) != 1:
        acc.fail(f"{op}: rows of unequal length {cls}", case, {"result": rows})
        return None
    if [r.replace("-", "") for r in rows] != list(seqs):
        acc.fail(f"{op}: degapped rows != inputs {cls}", case, {"result": rows})
        return None
    if _all_gap_columns(rows):
        acc.fail(f"{op}: result has a column consisting only of gaps {cls}", case, {"result": rows})
    return rows


def _root_viterbi(coll, tree, indel_rate, indel_length, limit):
    """what _progressive_hmm does, keeping the Viterbi score of the root pair-HMM"""
    from cogent3 import get_app, get_model

    model = get_model("F81")
    tree = get_app("scale_branches", scalar=1.0)(tree.bifurcating(name_unnamed=True))
    with _Limit(limit):
        LF = model.make_likelihood_function(tree, aligned=False)
        with LF.updates_postponed():
            LF.set_param_rule("indel_rate", value=indel_rate, is_constant=True)
            LF.set_param_rule("indel_length", value=indel_length, is_constant=True)
            LF.set_sequences(coll)
        vp = LF.get_log_likelihood().edge.get_viterbi_path()
        return float(vp.get_score()), vp.get_alignment().to_dict()


def _pair_hmm(s1, s2):
    from cogent3 import get_model, make_tree, make_unaligned_seqs

    LF = get_model("F81").make_likelihood_function(make_tree("(a:0.3,b:0.3)"), aligned=False)
    with LF.updates_postponed():
        LF.set_param_rule("indel_rate", value=0.1, is_constant=True)
        LF.set_param_rule("indel_length", value=0.1, is_constant=True)
        LF.set_sequences(make_unaligned_seqs({"a": s1, "b": s2}, moltype="dna"))
    return LF.get_log_likelihood().edge


def check_hmm_reuse(s1, s2, acc):
    """one pair-HMM asked for its global and its local Viterbi path, in both orders: each answer must equal that of a
    pair-HMM asked only that question (results are cached per object by option set)"""
    def ask(edge, local):
        vp = edge.get_viterbi_path(local=local)
        return round(float(vp.get_score()), 9), vp.get_alignment().to_dict()

    case = {"part": "hmm_reuse", "s1": s1, "s2": s2}
    try:
        fresh = {loc: ask(_pair_hmm(s1, s2), loc) for loc in (False, True)}
        for order in ((False, True), (True, False)):
            acc.case(dict(case, order=list(order)))
            edge = _pair_hmm(s1, s2)
            for i, loc in enumerate(order):
                got = ask(edge, loc)
                acc.outcome(("reuse", loc, got[0]))
                if got != fresh[loc]:
                    acc.fail(f"pair-HMM re-used for a {'local' if loc else 'global'} Viterbi path after a {'global' if loc else 'local'} one: differs from a fresh pair-HMM",
                             dict(case, order=list(order)), {"got": got, "fresh": fresh[loc]})
                    break
    except Exception as e:  # noqa: BLE001
        acc.fail(f"pair-HMM Viterbi path raised {type(e).__name__} [hmm re-use]", case, {"error": str(e)[:200]})


def check_prog(seqs, tree, indel_rate, via, acc, root_score=False):
    from cogent3 import get_app, make_tree, make_unaligned_seqs
    from cogent3.align.progressive import tree_align

    names = ["a", "b", "c"][: len(seqs)]
    case = {"part": "prog", "seqs": list(seqs), "tree": tree, "indel_rate": indel_rate, "via": via, "root_score": root_score}
    acc.case(case, nontrivial=len({len(s) for s in seqs}) > 1)
    coll = make_unaligned_seqs(dict(zip(names, seqs)), moltype="dna")
    results = {}
    for setting, limit in (("full", HUGE), ("hirschberg", 0)):
        before = _HCALLS[0]
        op = {"tree_align": "tree_align", "app": "progressive_align", "none": "tree_align"}[via]
        cls = f"[{'Hirschberg' if limit == 0 else 'full DP'}]"
        with _Limit(limit):
            try:
                if via == "tree_align":
                    aln, _ = tree_align("F81", coll, tree=make_tree(tree), indel_rate=indel_rate, indel_length=0.1,
                                        show_progress=False)
                elif via == "none":
                    aln, _ = tree_align("F81", coll, indel_rate=indel_rate, indel_length=0.1, show_progress=False)
                else:
                    app = get_app("progressive_align", model="F81", guide_tree=tree, indel_rate=indel_rate, indel_length=0.1)
                    aln = app(coll)
                    if not aln:
                        acc.fail(f"{op}: returned NotCompleted {cls}", case, {"msg": str(aln)[:300]})
                        acc.outcome(("prog", via, "notcompleted"))
                        continue
                dd = aln.to_dict()
            except Exception as ex:  # noqa: BLE001
                if via == "none":
                    acc.outcome(("prog", via, "raised", type(ex).__name__))
                    acc.count("prog_no_tree_raised")
                    continue
                acc.fail(f"{op}: raised {type(ex).__name__} {cls}", case, {"msg": str(ex)[:200]})
                acc.outcome(("prog", via, "raised", type(ex).__name__))
                continue
        if limit == 0 and _HCALLS[0] > before:
            acc.count("prog_runs_reaching_hirschberg")
        rows = _check_rows(op, cls, dd, names, seqs, case, acc)
        if rows is not None:
            results[setting] = rows
            acc.outcome(("prog", via, tuple("".join("-" if c == "-" else "x" for c in r) for r in rows)))
    if len(results) == 2 and results["full"] != results["hirschberg"]:
        acc.count("prog_hirschberg_returns_other_alignment")
    if root_score and via == "tree_align":
        try:
            sf, af = _root_viterbi(coll, make_tree(tree), indel_rate, 0.1, HUGE)
            sh, ah = _root_viterbi(coll, make_tree(tree), indel_rate, 0.1, 0)
        except Exception as ex:  # noqa: BLE001
            acc.fail(f"progressive pair-HMM (root Viterbi): raised {type(ex).__name__}", case, {"msg": str(ex)[:200]})
            return
        # the same guide tree with the children of its root written in the other order (tip first, sub-alignment second)
        mirror = {"((a,b),c)": "(c,(a,b))", "(a,(b,c))": "((b,c),a)", "((a,c),b)": "(b,(a,c))"}.get(tree)
        if mirror:
            try:
                sm, _am = _root_viterbi(coll, make_tree(mirror), indel_rate, 0.1, HUGE)
                if abs(sm - sf) > TOL_SAME:
                    acc.fail("progressive pair-HMM (root Viterbi): score depends on the order in which the children of the guide tree's root are written",
                             case, {"as given": sf, "children swapped": sm, "mirror": mirror})
            except Exception as ex:  # noqa: BLE001
                acc.fail(f"progressive pair-HMM (root Viterbi): raised {type(ex).__name__} [children swapped]", case, {"msg": str(ex)[:200]})
        child = _cherry(tree)
        rf = [af[n] for n in names]
        rh = [ah[n] for n in names]
        same_child = H.project(rf, *child) == H.project(rh, *child)
        if same_child:
            acc.count("prog_root_scores_compared")
            if abs(sf - sh) > TOL_SAME:
                gapped = "-" in "".join(H.project(rf, *child))
                acc.fail("progressive pair-HMM (root Viterbi): score differs between Hirschberg and full DP on the same child alignment "
                         + ("[child alignment contains a gap]" if gapped else "[child alignment without gaps]"),
                         case, {"full": [sf, rf], "hirschberg": [sh, rh]})
        else:
            acc.count("prog_child_alignments_differ")


def _cherry(tree):
    """indices of the two tips that are aligned first in a 3-tip guide tree"""
    return {"((a,b),c)": (0, 1), "(a,(b,c))": (1, 2), "((a,c),b)": (0, 2)}[tree]


# ----------------------------------------------------------------------------- shards
def shards(tier, seed):
    t = TIERS[tier]
    out = []
    npairs = sum(1 for _ in pair_space(t["pair_spaces"]))
    nchunks = max(1, npairs // 200)
    for sname in SCORINGS:
        for d, e in t["gaps"]:
            for c in range(nchunks):
                out.append({"part": "pair", "scoring": sname, "d": d, "e": e, "chunk": c, "of": nchunks})
    lg = t["long"]
    for L in lg["s1_len"]:
        for sname in lg["scorings"]:
            for d, e in lg["gaps"]:
                nch = 2 ** max(0, L - 5)
                for c in range(nch):
                    out.append({"part": "long", "L": L, "scoring": sname, "d": d, "e": e, "chunk": c, "of": nch})
    # The "asym" part (asymmetric scoring dicts) is not registered: it showed that classic_align_pairwise reads the
    # dict as Sd[(s2 base, s1 base)], but neither the docstring nor the property fixes an orientation, so this is
    # not a violation of C18 (removed as a false alarm; see DESIGN.md change log). The code stays for replay.
    for spec in t["p2m"]:
        n1 = len(p2m_inputs(spec["ref"], spec["other"], spec.get("max_cols")))
        total = n1 ** spec["k"]
        nch = min(n1, max(1, total // 1000)) if spec["k"] > 1 else 1
        for c in range(nch):
            out.append({"part": "p2m", **spec, "chunk": c, "of": nch})
    rf = t["ref"]
    for spec in rf["named"]:
        for setting in spec["settings"]:
            for i, ref in enumerate(strings(rf["alphabet"], 1, spec["ref_max"])):
                if not canonical(ref):
                    continue  # every tuple starting with this reference has a smaller relabelling
                nch = 4 if spec["k"] >= 2 else 1
                for c in range(nch):
                    out.append({"part": "ref", "kind": "named", **{k: v for k, v in spec.items() if k != "settings"},
                                "setting": setting, "first": i, "chunk": c, "of": nch})
    for spec in rf["longest"]:
        for setting in spec["settings"]:
            for i in range(len(list(strings(rf["alphabet"], 1, spec["max_len"])))):
                out.append({"part": "ref", "kind": "longest", "max_len": spec["max_len"], "k": spec["k"],
                            "setting": setting, "first": i})
    pg = t["prog"]
    pss = list(strings(pg["alphabet"], 1, pg["max_len"]))
    for i, first in enumerate(pss):
        for j, second in enumerate(pss):
            if not canonical(first, second):
                continue  # no triple starting with this pair is the representative of its orbit
            for rate in pg["indel_rates"]:
                out.append({"part": "prog", "first": i, "second": j, "rate": rate})
    for L in (1, 2, 3):
        out.append({"part": "hmm_reuse", "max_len": L})
    for sp in out:
        sp["tier"] = tier
    return out


def run_shard(spec, acc):
    worker_init()
    part = spec["part"]
    t = TIERS[spec["tier"]]
    if part == "pair":
        if spec["chunk"] == 0:
            check_tm(spec["d"], spec["e"], acc)
        for idx, (s1, s2) in enumerate(pair_space(t["pair_spaces"])):
            if idx % spec["of"] == spec["chunk"]:
                check_pair(s1, s2, spec["scoring"], spec["d"], spec["e"], acc)
        acc.sample({"part": "pair", "scoring": spec["scoring"], "gap": [spec["d"], spec["e"]],
                    "checks": "rows, degapped rows, reported score = path score = brute-force max, Hirschberg = full DP"}, "pair")
    elif part == "long":
        s2s = list(strings("AC", 1, t["long"]["s2_max"]))
        for idx, s1 in enumerate(strings("AC", spec["L"], spec["L"])):
            if idx % spec["of"] != spec["chunk"]:
                continue
            for s2 in s2s:
                if canonical(s1, s2):
                    check_pair(s1, s2, spec["scoring"], spec["d"], spec["e"], acc, modes=("full", "hirschberg"), part="long")
                if canonical(s2, s1):
                    check_pair(s2, s1, spec["scoring"], spec["d"], spec["e"], acc, modes=("full", "hirschberg"), part="long")
        acc.sample({"part": "long", "s1_len": spec["L"], "gap": [spec["d"], spec["e"]]}, "long")
    elif part == "asym":
        ss = list(strings("ACGT", 1, spec["max_len"]))
        for s1 in ss:
            for s2 in ss:
                check_pair(s1, s2, ASYM, spec["d"], spec["e"], acc, modes=("full", "local"), part="asym")
    elif part == "p2m":
        m, k = spec["ref"], spec["k"]
        inputs = p2m_inputs(m, spec["other"], spec.get("max_cols"))
        cache = {}
        for idx, first in enumerate(inputs):
            if idx % spec["of"] != spec["chunk"]:
                continue
            for rest in itertools.product(inputs, repeat=k - 1):
                check_p2m(m, [first, *rest], acc, cache)
        acc.sample({"part": "p2m", "ref_len": m, "other_max": spec["other"], "k": k}, "p2m")
    elif part == "ref":
        alphabet = t["ref"]["alphabet"]
        k = spec["k"]
        names = [chr(ord("a") + i) for i in range(k + 1)]
        if spec["kind"] == "named":
            ref = list(strings(alphabet, 1, spec["ref_max"]))[spec["first"]]
            others = list(strings(alphabet, 1, spec["other_max"]))
            for idx, rest in enumerate(itertools.product(others, repeat=k)):
                if idx % spec["of"] != spec["chunk"] or not canonical(ref, *rest):
                    continue
                for pos in spec["positions"]:
                    seqs = list(rest)
                    seqs.insert(pos, ref)
                    check_ref(seqs, names[pos], spec["setting"], acc)
        else:
            ss = list(strings(alphabet, 1, spec["max_len"]))
            first = ss[spec["first"]]
            for rest in itertools.product(ss, repeat=k):
                if canonical(first, *rest):
                    check_ref([first, *rest], "longest", spec["setting"], acc)
        acc.sample({"part": "ref", "kind": spec["kind"], "k": k, "setting": spec["setting"]}, "ref")
    elif part == "hmm_reuse":
        ss = [x for x in strings("AC", 1, spec["max_len"])]
        for s1 in ss:
            if len(s1) != spec["max_len"]:
                continue
            for s2 in ss:
                check_hmm_reuse(s1, s2, acc)
        acc.sample({"part": "hmm_reuse", "first sequence length": spec["max_len"], "alphabet": "AC"}, "hmm_reuse")
    elif part == "prog":
        pg = t["prog"]
        ss = list(strings(pg["alphabet"], 1, pg["max_len"]))
        first, second = ss[spec["first"]], ss[spec["second"]]
        rate = spec["rate"]
        primary = rate == pg["indel_rates"][0]
        for third in ss:
            seqs = [first, second, third]
            if not canonical(*seqs):
                continue
            for tree in pg["trees"]:
                check_prog(seqs, tree, rate, "tree_align", acc, root_score=tree in pg["root_score"])
            if primary:
                check_prog(seqs, pg["app_tree"], rate, "app", acc)
                if pg["none_tree"]:
                    check_prog(seqs, None, rate, "none", acc)
        acc.sample({"part": "prog", "first": first, "indel_rate": rate}, "prog")
    else:  # pragma: no cover
        raise ValueError(part)


def replay(case):
    from vf.kernel.runner import Acc

    worker_init()
    acc = Acc()
    part = case.get("part")
    if part == "tm":
        check_tm(case["d"], case["e"], acc)
    elif part in ("pair", "long", "asym"):
        modes = ("full", "hirschberg") if case["mode"] == "both" else (case["mode"],)
        check_pair(case["s1"], case["s2"], case["scoring"], case["d"], case["e"], acc, modes=modes, part=part)
    elif part == "p2m":
        check_p2m(case["m"], [(n, p) for n, p in case["items"]], acc)
    elif part == "ref":
        check_ref(case["seqs"], case["ref"], case["setting"], acc)
    elif part == "hmm_reuse":
        check_hmm_reuse(case["s1"], case["s2"], acc)
    elif part == "prog":
        check_prog(case["seqs"], case["tree"], case["indel_rate"], case["via"], acc, root_score=case.get("root_score", False))
    else:
        raise ValueError(f"unknown case {case!r}")
    return [(sig, rec["cases"][0]["detail"]) for sig, rec in acc.failures.items()]


LEVEL_TEXT = (
    "Bounded exhaustive exploration on the real aligners: every ordered pair of DNA sequences up to the length bound (one per "
    "relabelling orbit) is aligned globally with full DP, globally with the Hirschberg recursion forced on, and locally, for every "
    "scoring dict and gap cost of the lattice; the reported score is compared with an independently written pair-HMM path scorer and "
    "with the maximum over an explicit enumeration of every alignment path (every start/end cell for local). pairwise_to_multiple is "
    "run on every tuple of pairwise alignments within the bound and checked by projection; align_to_ref and progressive alignment on "
    "every ordered set of short sequences. Within the bounds the verdict is complete; optimality is decided by enumeration, not by a "
    "second dynamic program."
)
LEVEL_NOTE = (
    "Trusted: the ~150-line reference model vf/models/pairhmm.py (its transition matrix is compared with the implementation's on every "
    "(d,e)); CPython str operations. Scores compared at 1e-9 absolute. Nothing is claimed above the length bounds in the evidence "
    "file, for ambiguity codes, non-DNA alphabets, or for the optimality of progressive (profile) alignment."
)
