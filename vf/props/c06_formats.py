"""C06 - sequence file formats round-trip; all parsers of a format agree; every chunk size gives the same lines.

K2: exhaustive enumeration of
  rt       ordered name subsets x boundary lengths x formats x compression suffixes x container classes x moltypes:
           obj.write(path) -> load_*_seqs(path) must return the names (after PHYLIP's 9-character truncation),
           order and sequences that were written; the written text is additionally given to every alternative
           parser / input form of the format; load_seq returns the first record
  ragged   every ordered pair of boundary lengths for unaligned collections (formats that can hold ragged data)
  content  every sequence (and every aligned pair) over a small alphabet up to a length bound x every line width
  grammar  every well-formed FASTA text of a small grammar (records x labels x every line split of the sequence x
           line-end / trailing-newline / blank-line options): all FASTA parsers and input forms give the records the
           grammar generated, labels verbatim; every chunk size of iter_splitlines
  lines    every string over {letter, LF, CR} up to a length bound, plain / gz / bz2, every chunk size:
           list(iter_splitlines(path, k)) == text.splitlines()
  genbank  grammar-generated minimal GenBank records: minimal_parser / rich_parser / load_seq x input forms
Oracle = the python values that were written (dict name -> str) / that the grammar generated; str.splitlines().
"""

from __future__ import annotations

import bz2
import gzip
import itertools
import os
import shutil
import pathlib
import tempfile

PID = "C06"
LEVEL = "exploration"
TECHNIQUE = "exhaustive bounded enumeration of name sets / lengths / formats / suffixes / texts / chunk sizes against parse(write(x)) == x"
RULE = (
    "every ordered subset (size <= bound) of a 10-name pool (names with space | > ; leading digit, 9/10/11 characters, "
    "prefixes of each other) x every boundary length {0,1,b-1,b,b+1,2b,2b+1} for line width b in {4,60} x "
    "{fasta,phylip,paml,gde,json} x {plain,.gz,.bz2} x 4 container classes x moltypes; every ordered pair of boundary "
    "lengths (ragged collections); every sequence / aligned pair over a small alphabet x every line width; every text of a "
    "small well-formed-FASTA grammar x 11 parser/input forms; every string over {a,LF,CR} up to the bound; every chunk size "
    "1..size+1 and None for every such file. Each (input, configuration) is enumerated once (distinct by construction); "
    "non-trivial = at least one non-empty sequence is written / at least one line break in the text"
)
ASSUMPTIONS = [
    "names have no leading/trailing white space (no text format can represent it); sequences are upper-case moltype characters",
    "PHYLIP names longer than 9 characters are compared after truncation to 9; name tuples that collide after truncation are outside the property",
    "zero-length sequences are only judged for FASTA and JSON (PHYLIP/PAML/GDE cannot represent an empty sequence: their parsers reject it by design)",
    "ragged collections are only judged for FASTA, GDE and JSON (PHYLIP/PAML are alignment formats)",
    "well-formed FASTA = '>' label line followed by >= 1 non-empty sequence line per record; LF or CRLF line ends; labels without leading/trailing white space",
    "iter_splitlines reference = str.splitlines() of the decoded text (LF, CRLF and lone CR are line ends)",
    "well-formed GenBank text = generated minimal records (LOCUS .. FEATURES .. ORIGIN .. //), each terminated by '//' and a line end",
    "gzip/bz2 modules (used to read the written file independently) are trusted",
]
EXHAUSTIVE = True
SHARD_TIMEOUT = {"quick": 600, "thorough": 3600}

NAMES = ["a", "b", "seq 1", "s|x", "a>b", "x;y", "abcdefghi", "abcdefghij", "ABCDEFGHIJK", "1abc"]
FORMATS = ["fasta", "phylip", "paml", "gde", "json"]
SUFFIXES = ["", ".gz", ".bz2"]
KINDS = ["aa", "al", "sc", "nsc"]
KIND_LABEL = {
    "aa": "ArrayAlignment",
    "al": "Alignment",
    "sc": "SequenceCollection",
    "nsc": "new-type SequenceCollection",
}
ALPHABET = {
    "dna": "ACGT-N?RYWSKMBDHV",
    "rna": "ACGU-N?RYWSKMBDHV",
    "protein": "ACDEFGHIKLMNPQRSTVWY-X?BZ",
}
BLOCK_LENGTHS = [(4, n) for n in (0, 1, 3, 4, 5, 8, 9)] + [(60, n) for n in (59, 60, 61, 120, 121)]
FIXED_TUPLES = [("a",), ("seq 1", "s|x"), ("abcdefghij", "x;y", "1abc")]


def bounds(tier):
    return {
        "quick": {
            "name_subset_max": {"dna": 2}, "moltypes_fixed_names": ["rna", "protein"],
            "content_single_len": 5, "content_pair_len": 3, "content_widths": [1, 2, 3, 4],
            "grammar_records": 2, "grammar_chunk_sweep": True, "lines_len": 6, "genbank_records": 2,
        },
        "thorough": {
            "name_subset_max": {"dna": 3, "rna": 2, "protein": 2}, "moltypes_fixed_names": [],
            "content_single_len": 6, "content_pair_len": 4, "content_widths": [1, 2, 3, 4, 5],
            "grammar_records": 3, "grammar_chunk_sweep": True, "lines_len": 9, "genbank_records": 2,
        },
    }[tier]


# ----------------------------------------------------------------------------- model
def content(moltype, i, n):
    """deterministic sequence i of length n: cyclic walk through the alphabet, a gap at either end for odd i"""
    a = ALPHABET[moltype]
    s = "".join(a[(5 * i + 3 * j) % len(a)] for j in range(n))
    if i % 2 and n >= 2:
        s = "-" + s[1:-1] + "?"
    return s


def expected_name(fmt, name):
    if fmt == "phylip" and len(name) > 9:
        return name[:9]
    return name


def name_class(name):
    if ">" in name:
        return "name contains '>'"
    if ";" in name:
        return "name contains ';'"
    if "|" in name:
        return "name contains '|'"
    if any(c.isspace() for c in name):
        return "name contains white space"
    if name[:1].isdigit():
        return "name starts with a digit"
    if len(name) > 9:
        return "name longer than 9 characters"
    return "plain name"


def names_class(names):
    order = ["name contains '>'", "name contains ';'", "name contains '|'", "name contains white space",
             "name starts with a digit", "name longer than 9 characters", "plain name"]
    have = {name_class(n) for n in names}
    return next(c for c in order if c in have)


def length_class(seqs, width):
    lens = {len(s) for s in seqs}
    if 0 in lens:
        return "zero-length sequence"
    if width and any(l % width == 0 for l in lens):
        return "length is a multiple of the line width"
    if width and all(l < width for l in lens):
        return "shorter than the line width"
    return "longer than the line width"


def diff_class(want, got, width):
    """structural class of the first record that differs"""
    wn, gn = [w[0] for w in want], [g[0] for g in got]
    if len(want) != len(got):
        return "number of records", length_class([w[1] for w in want], width)
    for (n, s), (n2, s2) in zip(want, got):
        if n != n2:
            return "names", name_class(n)
    if sorted(gn) == sorted(wn) and gn != wn:
        return "names", "order"
    return "sequences", length_class([w[1] for w in want], width)


# ----------------------------------------------------------------------------- implementation access
def _tmp(name):
    d = os.path.join(tempfile.gettempdir(), f"c06-{os.getpid()}")
    os.makedirs(d, exist_ok=True)
    return os.path.join(d, name)


def make(kind, data, moltype):
    import cogent3

    if kind == "aa":
        return cogent3.make_aligned_seqs(data, moltype=moltype, array_align=True)
    if kind == "al":
        return cogent3.make_aligned_seqs(data, moltype=moltype, array_align=False)
    if kind == "sc":
        return cogent3.make_unaligned_seqs(data, moltype=moltype)
    return cogent3.make_unaligned_seqs(data, moltype=moltype, new_type=True)


def load(kind, path, moltype, **kw):
    import cogent3

    if kind == "aa":
        return cogent3.load_aligned_seqs(path, moltype=moltype, array_align=True, **kw)
    if kind == "al":
        return cogent3.load_aligned_seqs(path, moltype=moltype, array_align=False, **kw)
    if kind == "sc":
        return cogent3.load_unaligned_seqs(path, moltype=moltype, **kw)
    return cogent3.load_unaligned_seqs(path, moltype=moltype, new_type=True, **kw)


def records_of(obj):
    d = obj.to_dict()
    return [(str(n), str(d[n])) for n in obj.names]


def read_text(path, suffix):
    """independent read of the written file; also says whether the compression matches the suffix"""
    with open(path, "rb") as f:
        raw = f.read()
    if suffix == ".gz":
        ok = raw[:2] == b"\x1f\x8b"
        data = gzip.decompress(raw) if ok else raw
    elif suffix == ".bz2":
        ok = raw[:3] == b"BZh"
        data = bz2.decompress(raw) if ok else raw
    else:
        ok = raw[:2] != b"\x1f\x8b" and raw[:3] != b"BZh"
        data = raw
    return data.decode("utf8"), ok


def norm(recs):
    return [(str(a), str(b)) for a, b in recs]


def alt_parsers(fmt, path, text):
    """(label, thunk) for every alternative parser / input form of a text format"""
    from cogent3.parse import fasta, paml, phylip
    from cogent3.parse.sequence import PARSERS

    lines = text.splitlines()
    p = pathlib.Path(path)
    out = [("PARSERS[fmt](str path)", lambda: PARSERS[fmt](path)), ("PARSERS[fmt](Path)", lambda: PARSERS[fmt](p))]
    if fmt == "fasta":
        out += [
            ("MinimalFastaParser(path, strict=True)", lambda: fasta.MinimalFastaParser(path, strict=True)),
            ("MinimalFastaParser(path, strict=False)", lambda: fasta.MinimalFastaParser(path, strict=False)),
            ("MinimalFastaParser(Path)", lambda: fasta.MinimalFastaParser(p)),
            ("MinimalFastaParser(lines, strict=True)", lambda: fasta.MinimalFastaParser(lines, strict=True)),
            ("MinimalFastaParser(lines, strict=False)", lambda: fasta.MinimalFastaParser(lines, strict=False)),
            ("iter_fasta_records(bytes)", lambda: fasta.iter_fasta_records(text.encode("utf8"))),
            ("iter_fasta_records(lines)", lambda: fasta.iter_fasta_records(lines)),
        ]
    elif fmt == "gde":
        out += [
            ("MinimalGdeParser(lines, strict=True)", lambda: fasta.MinimalGdeParser(lines, strict=True)),
            ("MinimalGdeParser(lines, strict=False)", lambda: fasta.MinimalGdeParser(lines, strict=False)),
            ("PARSERS[fmt](lines)", lambda: PARSERS[fmt](lines)),
        ]
    elif fmt == "phylip":
        out += [
            ("MinimalPhylipParser(lines)", lambda: phylip.MinimalPhylipParser(lines)),
            ("PARSERS[fmt](tuple of lines)", lambda: PARSERS[fmt](tuple(lines))),
        ]
    elif fmt == "paml":
        out += [
            ("PamlParser(lines)", lambda: paml.PamlParser(lines)),
            ("PARSERS[fmt](lines)", lambda: PARSERS[fmt](lines)),
        ]
    return out


# ----------------------------------------------------------------------------- the round trip of one case
FAMILY = {
    "PARSERS[fmt](str path)": "registered",
    "PARSERS[fmt](Path)": "registered",
    "PARSERS[fmt](lines)": "registered",
    "PARSERS[fmt](tuple of lines)": "registered",
    "iter_fasta_records(bytes)": "registered",
    "iter_fasta_records(str path)": "registered",
    "iter_fasta_records(Path)": "registered",
    "iter_fasta_records(text handle)": "registered",
    "MinimalFastaParser(path, strict=True)": "MinimalFastaParser(strict=True)",
    "MinimalFastaParser(Path)": "MinimalFastaParser(strict=True)",
    "MinimalFastaParser(lines, strict=True)": "MinimalFastaParser(strict=True)",
    "MinimalFastaParser(path, strict=False)": "MinimalFastaParser(strict=False)",
    "MinimalFastaParser(lines, strict=False)": "MinimalFastaParser(strict=False)",
    "iter_fasta_records(lines)": "MinimalFastaParser(strict=False)",
    "MinimalGdeParser(lines, strict=True)": "registered",
    "MinimalGdeParser(lines, strict=False)": "MinimalGdeParser(strict=False)",
    "MinimalPhylipParser(lines)": "registered",
    "PamlParser(lines)": "registered",
}
REGISTERED = {"fasta": "iter_fasta_records (bytes-based, registered for fasta)", "gde": "MinimalGdeParser (registered for gde)",
              "phylip": "MinimalPhylipParser (registered for phylip)", "paml": "PamlParser (registered for paml)",
              "genbank": "iter_genbank_records (behind minimal_parser / rich_parser, registered for gb)"}


def run_forms(fmt, forms, want, width, text_class=None):
    """run every (label, thunk); group identical failures of one parser family into one report.

    returns (failures [(sig_part, detail)], results {label: got})"""
    results = {}
    for label, thunk in forms:
        try:
            g = norm(thunk())
        except Exception as e:  # noqa: BLE001
            g = ("raised", type(e).__name__, str(e)[:120])
        results[label] = g
    fams = {}
    for label, g in results.items():
        fam = FAMILY.get(label, label)
        fams.setdefault(fam, []).append((label, g))
    fails = []
    for fam, members in fams.items():
        bad = [(l, g) for l, g in members if g != want]
        if not bad:
            continue

        def describe(g):
            if isinstance(g, tuple):
                return f"raised {g[1]}", names_class([w[0] for w in want])
            return diff_class(want, g, width)

        kinds = {describe(g) for _, g in bad}
        famname = REGISTERED[fmt] if fam == "registered" else fam
        if len(bad) == len(members) and len(kinds) == 1:
            what, cls = next(iter(kinds))
            if text_class and what == "sequences":
                cls = text_class
            fails.append((f"{fmt} parser {famname}: {what} [{cls}]", {"forms": [l for l, _ in bad], "got": bad[0][1], "want": want}))
        else:
            for l, g in bad:
                what, cls = describe(g)
                if text_class and what == "sequences":
                    cls = text_class
                fails.append((f"{fmt} parser {famname} via {l.replace('[fmt]', '[' + repr(fmt) + ']')}: {what} [{cls}]",
                              {"got": g, "want": want}))
    return fails, results


_PLAIN = {}


def plain_input_raises(kind, moltype, fmt, suffix):
    """does the plainest input (one sequence 'ACGT' named 'a') already raise for this configuration?"""
    key = (kind, moltype, fmt, suffix)
    if key not in _PLAIN:
        path = _tmp(f"plain.{fmt}{suffix}")
        try:
            make(kind, {"a": "ACGA"}, moltype).write(path)
            records_of(load(kind, path, moltype))
            _PLAIN[key] = None
        except Exception as e:  # noqa: BLE001
            _PLAIN[key] = type(e).__name__
    return _PLAIN[key]


def roundtrip(acc, part, kind, moltype, names, seqs, width, fmt, suffix, deep=True, sweep=False):
    """write -> load -> compare; returns the decoded text written (or None)"""
    import cogent3

    case = {"part": part, "kind": kind, "moltype": moltype, "names": list(names), "seqs": list(seqs), "width": width,
            "fmt": fmt, "suffix": suffix, "deep": deep, "sweep": sweep}
    acc.case(case, nontrivial=any(seqs))
    want = [(expected_name(fmt, n), s) for n, s in zip(names, seqs)]
    data = dict(zip(names, seqs))
    # compressed targets get a name with one more dot in it (a version tag): format and compression are the last two suffixes
    path = _tmp(f"x.v2.{fmt}{suffix}" if suffix else f"x.{fmt}")
    if os.path.exists(path):
        os.remove(path)

    def raised(stage, e, per_kind):
        if plain_input_raises(kind, moltype, fmt, suffix) == type(e).__name__:
            cls = "any input"
        else:
            cls = names_class(names)
            lc = length_class(seqs, width)
            if lc == "zero-length sequence":
                cls += "; " + lc
        who = f" ({KIND_LABEL[kind]})" if per_kind else ""
        acc.fail(f"{fmt} round trip: {stage}{who} raised {type(e).__name__} [{cls}]", case,
                 {"error": f"{type(e).__name__}: {str(e)[:200]}", "want": want})
        acc.outcome((fmt, stage, "raised", type(e).__name__))

    try:
        obj = make(kind, data, moltype)
    except Exception as e:  # noqa: BLE001
        raised("constructing the collection", e, True)
        return None
    kw = {} if (fmt == "json" or width == 60) else {"block_size": width}
    try:
        obj.write(path, **kw)
    except Exception as e:  # noqa: BLE001
        raised("write", e, False)
        return None
    try:
        text, compressed_ok = read_text(path, suffix)
    except Exception as e:  # noqa: BLE001
        raised("reading the written file back with gzip/bz2", e, False)
        return None
    if not compressed_ok:
        acc.fail(f"write: file content does not match the compression suffix [{suffix or 'plain'}]", case, {"head": text[:40]})

    # the parser registered for the format, and (deep) every alternative parser / input form
    parser_ok = True
    if fmt != "json":
        forms = alt_parsers(fmt, path, text)
        if not deep or not all(seqs):
            # a record without sequence is not well-formed input for the line based FASTA parsers (strict raises by design)
            forms = forms[:1]
        fails, results = run_forms(fmt, forms, want, width)
        for sig, detail in fails:
            detail["text"] = text[:300]
            acc.fail(sig, case, detail)
        parser_ok = results["PARSERS[fmt](str path)"] == want
        acc.outcome((fmt, "parsers", tuple(sorted((l, g == want) for l, g in results.items()))))

    # the loaders; a failure that merely repeats what the registered parser returned is not reported twice
    try:
        got = records_of(load(kind, path, moltype))
    except Exception as e:  # noqa: BLE001
        got = None
        if parser_ok:
            raised("load", e, True)
        else:
            acc.count("loader_failures_explained_by_parser_failure")
    if got is not None:
        if got != want:
            if parser_ok:
                what, cls = diff_class(want, got, width)
                acc.fail(f"{fmt} round trip: {what} [{cls}]", case, {"got": got, "want": want})
            else:
                acc.count("loader_failures_explained_by_parser_failure")
        acc.outcome((fmt, "rt", got == want))
    if got == want and fmt != "json" and not suffix:
        # the same bytes under a file name whose suffix suggests another format, loaded with the format given
        # explicitly: the argument, not the suffix, says how to parse
        other = "phylip" if fmt == "fasta" else "fasta"
        path2 = _tmp(f"y.{other}")
        shutil.copyfile(path, path2)
        try:
            got2 = records_of(load(kind, path2, moltype, format=fmt))
        except Exception as e:  # noqa: BLE001
            got2 = ("raised", type(e).__name__, str(e)[:120])
        if got2 != want:
            acc.fail(f"{fmt} loaded with format= given from a file whose suffix suggests another format: differs from loading it by its own suffix ({KIND_LABEL[kind]})",
                     case, {"got": got2, "want": want, "file": os.path.basename(path2)})
        acc.outcome((fmt, "explicit format", got2 == want))
    if deep and fmt != "json":
        # load_seq returns the first record
        for nt in (False, True):
            try:
                s = cogent3.load_seq(path, moltype=moltype, new_type=nt)
                g = (str(s.name), str(s))
            except Exception as e:  # noqa: BLE001
                g = ("raised", type(e).__name__, str(e)[:120])
            if g != want[0]:
                if not parser_ok:
                    acc.count("loader_failures_explained_by_parser_failure")
                else:
                    if g[0] == "raised":
                        what, cls = f"raised {g[1]}", names_class(names[:1])
                    else:
                        what, cls = diff_class(want[:1], [g], width)
                    acc.fail(f"{fmt} load_seq(new_type={nt}): {what} [{cls}]", case, {"got": g, "want": want[0]})
            acc.outcome((fmt, "load_seq", nt, g == want[0]))
    if sweep:
        chunk_sweep(acc, path, text, case)
    return text


def chunk_sweep(acc, path, text, case, extra=0):
    """every chunk size from 1 to (file size | text length) + 1, and None"""
    from cogent3.util.io import iter_splitlines

    want = text.splitlines()
    top = max(len(text), os.path.getsize(path)) + 1 + extra
    nontrivial = "\n" in text or "\r" in text
    for k in [None] + list(range(1, top + 1)):
        acc.case({"chunk": k, **case}, nontrivial=nontrivial)
        try:
            got = list(iter_splitlines(path, chunk_size=k))
        except Exception as e:  # noqa: BLE001
            got = ("raised", type(e).__name__, str(e)[:120])
        if got != want:
            if isinstance(got, tuple):
                what = f"raised {got[1]}"
            elif len(got) < len(want):
                what = "fewer lines"
            elif len(got) > len(want):
                what = "more lines"
            else:
                what = "line content"
            cls = "CR present" if "\r" in text else "LF only"
            acc.fail(f"iter_splitlines: {what} [{cls}]", {"chunk": k, **case}, {"got": got, "want": want, "text": text[:200]})
        acc.outcome(("chunk", got == want, len(want) if got == want else -1))


def judged(fmt, names, seqs):
    """is this (format, names, sequences) inside the property?  returns reason when not"""
    exp = [expected_name(fmt, n) for n in names]
    if len(set(exp)) != len(exp):
        return "excluded_names_collide_after_truncation"
    if fmt in ("phylip", "paml", "gde") and any(len(s) == 0 for s in seqs):
        return "excluded_empty_sequence_not_representable"
    if fmt in ("phylip", "paml") and len({len(s) for s in seqs}) > 1:
        return "excluded_ragged_in_alignment_format"
    return None


# ----------------------------------------------------------------------------- FASTA grammar
G_LABELS = ["a", "b c", "a>b", "#c", "s|x;1", "b", ">d"]  # the last one starts with the record marker itself
G_SEQS = ["A", "AC", "ACG"]


def compositions(s):
    """every way of cutting s into non-empty consecutive lines"""
    n = len(s)
    for cuts in itertools.product((0, 1), repeat=n - 1):
        parts, last = [], 0
        for i, c in enumerate(cuts, start=1):
            if c:
                parts.append(s[last:i])
                last = i
        parts.append(s[last:])
        yield parts


def grammar_records():
    """(label, seq, lines) for every label x sequence x line split"""
    out = []
    for lab in G_LABELS:
        for s in G_SEQS:
            for parts in compositions(s):
                out.append((lab, s, parts))
    return out


G_OPTIONS = [(eol, trail, blank) for eol in ("\n", "\r\n") for trail in (0, 1, 2) for blank in (0, 1)]


def grammar_text(recs, eol, trail, blank):
    lines = []
    for i, (lab, _s, parts) in enumerate(recs):
        if i and blank:
            lines.append("")
        lines.append(">" + lab)
        lines.extend(parts)
    return eol.join(lines) + eol * trail


def check_grammar_text(acc, recs, opt, sweep):
    import cogent3
    from cogent3.parse import fasta
    from cogent3.parse.sequence import PARSERS

    eol, trail, blank = opt
    text = grammar_text(recs, eol, trail, blank)
    want = [(lab, s) for lab, s, _ in recs]
    case = {"part": "grammar", "recs": [list(r[:2]) + [list(r[2])] for r in recs], "opt": list(opt), "sweep": sweep}
    path = _tmp("g.fasta")
    with open(path, "wb") as f:
        f.write(text.encode("utf8"))
    p = pathlib.Path(path)
    lines = text.splitlines()

    def handle():
        with open(path, newline=None) as h:
            return list(fasta.iter_fasta_records(h))

    forms = [
        ("MinimalFastaParser(path, strict=True)", lambda: fasta.MinimalFastaParser(path, strict=True)),
        ("MinimalFastaParser(path, strict=False)", lambda: fasta.MinimalFastaParser(path, strict=False)),
        ("MinimalFastaParser(lines, strict=True)", lambda: fasta.MinimalFastaParser(lines, strict=True)),
        ("MinimalFastaParser(lines, strict=False)", lambda: fasta.MinimalFastaParser(lines, strict=False)),
        ("iter_fasta_records(bytes)", lambda: fasta.iter_fasta_records(text.encode("utf8"))),
        ("iter_fasta_records(str path)", lambda: fasta.iter_fasta_records(path)),
        ("iter_fasta_records(Path)", lambda: fasta.iter_fasta_records(p)),
        ("iter_fasta_records(text handle)", handle),
        ("iter_fasta_records(lines)", lambda: fasta.iter_fasta_records(lines)),
        ("PARSERS['fasta'](str path)", lambda: PARSERS["fasta"](path)),
    ]
    FAMILY.setdefault("PARSERS['fasta'](str path)", "registered")
    multi = len(recs) > 1
    nt = multi or len(recs[0][2]) > 1
    for label, _ in forms:
        acc.case({"form": label, **case}, nontrivial=nt)
    fails, results = run_forms("fasta", forms, want, 0, text_class="CRLF" if eol == "\r\n" else "LF")
    for sig, detail in fails:
        detail["text"] = text
        acc.fail(sig, case, detail)
    parser_ok = results["PARSERS['fasta'](str path)"] == want
    acc.outcome(("grammar", tuple(sorted((l, g == want) for l, g in results.items()))))
    # the loader (labels unique inside one grammar text)
    acc.case({"form": "load_unaligned_seqs", **case}, nontrivial=multi)
    try:
        g = records_of(cogent3.load_unaligned_seqs(path, moltype="dna"))
    except Exception as e:  # noqa: BLE001
        g = ("raised", type(e).__name__, str(e)[:120])
    if g != want:
        if not parser_ok:
            acc.count("loader_failures_explained_by_parser_failure")
        else:
            if isinstance(g, tuple):
                what, cls = f"raised {g[1]}", names_class([w[0] for w in want])
            else:
                what, cls = diff_class(want, g, 0)
            acc.fail(f"fasta load_unaligned_seqs: {what} [{cls}]", case, {"got": g, "want": want, "text": text})
    acc.outcome(("grammar", "load", g == want))
    if sweep:
        chunk_sweep(acc, path, text, case)


# ----------------------------------------------------------------------------- GenBank grammar
GB_LOCI = ["AB000001", "X_1", "NC_000913.3"]
GB_LENGTHS = [1, 9, 10, 11, 59, 60, 61, 120, 121]


def genbank_record(locus, seq, mol="DNA"):
    n = len(seq)
    out = [
        f"LOCUS       {locus:<16}{n:>11} bp    {mol:<7} linear   PLN 08-MAR-2010",
        "DEFINITION  generated record.",
        f"ACCESSION   {locus}",
        f"VERSION     {locus}.1",
        "KEYWORDS    .",
        "SOURCE      synthetic construct",
        "  ORGANISM  synthetic construct",
        "            other sequences; artificial sequences.",
        "FEATURES             Location/Qualifiers",
        f"     source          1..{n}",
        '                     /organism="synthetic construct"',
        '                     /mol_type="genomic DNA"',
        "ORIGIN      ",
    ]
    low = seq.lower()
    for i in range(0, n, 60):
        row = low[i : i + 60]
        groups = " ".join(row[j : j + 10] for j in range(0, len(row), 10))
        out.append(f"{i + 1:>9} {groups}")
    out.append("//")
    return "\n".join(out) + "\n"


def check_genbank(acc, recs, eol, final_newline, mol="DNA"):
    import io

    import cogent3
    from cogent3.parse import genbank
    from cogent3.parse.sequence import PARSERS

    text = "".join(genbank_record(l, s, mol) for l, s in recs)
    if not final_newline:
        text = text[:-1]
    text = text.replace("\n", eol)
    want = [(l, s) for l, s in recs]
    case = {"part": "genbank", "recs": [list(r) for r in recs], "eol": eol, "final_newline": final_newline}
    if mol != "DNA":
        case["mol"] = mol
    path = _tmp("g.gb")
    with open(path, "wb") as f:
        f.write(text.encode("utf8"))
    p = pathlib.Path(path)

    def mini(data, **kw):
        return [(r["locus"], r["sequence"]) for r in genbank.minimal_parser(data, **kw)]

    def rich(data, **kw):
        return [(n, s) for n, s in genbank.rich_parser(data, **kw)]

    forms = [
        ("minimal_parser(str path)", lambda: mini(path)),
        ("minimal_parser(Path)", lambda: mini(p)),
        ("minimal_parser(bytes)", lambda: mini(text.encode("utf8"))),
        ("minimal_parser(text handle)", lambda: mini(io.StringIO(text))),
        ("minimal_parser(path, convert_features=None)", lambda: mini(path, convert_features=None)),
        ("rich_parser(str path)", lambda: rich(path)),
        ("rich_parser(path, just_seq=True)", lambda: rich(path, just_seq=True)),
        ("rich_parser(path, moltype='dna')", lambda: rich(path, moltype="dna")),
        ("PARSERS['gb'](str path)", lambda: [(n, s) for n, s in PARSERS["gb"](path)]),
    ]
    for label, _ in forms:
        FAMILY.setdefault(label, "registered")
        acc.case({"form": label, **case}, nontrivial=True)
    cls = cls_records = "more than one record" if len(recs) > 1 else "single record"
    if mol != "DNA":
        cls += f", molecule type {mol} in the LOCUS line"
    fails, results = run_forms("genbank", forms, want, 60, text_class=cls + (", CRLF" if eol == "\r\n" else ""))
    for sig, detail in fails:
        if "raised" in sig:
            sig = sig[: sig.rindex("[")] + f"[{cls}]"
        acc.fail(sig, case, detail)
    parser_ok = results["PARSERS['gb'](str path)"] == want
    acc.outcome(("genbank", tuple(sorted((l, g == want) for l, g in results.items()))))
    for nt in (False, True):
        acc.case({"form": f"load_seq(new_type={nt})", **case}, nontrivial=True)
        try:
            s = cogent3.load_seq(path, moltype="dna", new_type=nt)
            g = (str(s.name), str(s))
        except Exception as e:  # noqa: BLE001
            g = ("raised", type(e).__name__, str(e)[:120])
        if g != want[0]:
            if not parser_ok:
                acc.count("loader_failures_explained_by_parser_failure")
            else:
                what = f"raised {g[1]}" if g[0] == "raised" else diff_class(want[:1], [g], 60)[0]
                # with moltype given, load_seq does not look at the LOCUS molecule type: its class is the record count alone
                acc.fail(f"genbank load_seq(new_type={nt}): {what} [{cls_records}]", case, {"got": g, "want": want[0]})
        acc.outcome(("genbank", "load_seq", nt, g == want[0]))


# ----------------------------------------------------------------------------- shards
def name_tuples(kmax):
    out = []
    for k in range(1, kmax + 1):
        out.extend(itertools.permutations(NAMES, k))
    return out


def strings_upto(alphabet, n):
    for k in range(n + 1):
        for t in itertools.product(alphabet, repeat=k):
            yield "".join(t)


def check_formatters_twice(acc):
    """the module-level formatters called directly, twice in one process, without an order: the second call writes its
    own records in its own order (nothing is kept from the first call, and the caller's arguments are not changed)"""
    from cogent3.format import fasta as ffasta, gde as fgde, paml as fpaml, phylip as fphylip

    fns = {"fasta": ffasta.alignment_to_fasta, "gde": fgde.alignment_to_gde, "paml": fpaml.alignment_to_paml, "phylip": fphylip.alignment_to_phylip}
    firsts = [{"s1": "ACGT", "s2": "TTGA"}, {"b": "AC", "a": "GT", "c": "TT"}]
    seconds = [{"s2": "CCGA", "s1": "ACGA"}, {"x": "AAAA", "y": "CCCC"}, {"q": "AC", "p": "GT", "r": "TA"}]
    for fmt, fn in fns.items():
        for d1 in firsts:
            for d2 in seconds:
                for given in ("omitted", "empty list"):
                    case = {"part": "formatters", "fmt": fmt, "first": d1, "second": d2, "order": given}
                    acc.case(case)
                    try:
                        want = fn(dict(d2), order=list(d2))
                        fn(dict(d1)) if given == "omitted" else fn(dict(d1), order=[])
                        mine = []
                        arg = dict(d2)
                        got = fn(arg) if given == "omitted" else fn(arg, order=mine)
                    except Exception as e:  # noqa: BLE001
                        acc.fail(f"{fmt} formatter called a second time without an order: raised {type(e).__name__}", case, {"error": str(e)[:200]})
                        continue
                    acc.outcome((fmt, "twice", got == want))
                    if got != want:
                        acc.fail(f"{fmt} formatter called a second time without an order: output differs from the same call with the order given", case, {"got": got[:200], "want": want[:200]})
                    elif arg != d2 or list(arg) != list(d2) or mine:
                        acc.fail(f"{fmt} formatter changed an argument of its caller", case, {"dict": arg, "order": mine})
    acc.sample({"formatters called twice": sorted(fns)}, "formatters")


def shards(tier, seed):
    b = bounds(tier)
    out = []
    for kind in KINDS:
        for fmt in FORMATS:
            for suffix in SUFFIXES:
                for mt, kmax in b["name_subset_max"].items():
                    nch = 1 if kmax < 3 else 8
                    for c in range(nch):
                        out.append({"part": "rt", "kind": kind, "fmt": fmt, "suffix": suffix, "moltype": mt,
                                    "kmax": kmax, "chunk": c, "of": nch})
                for mt in b["moltypes_fixed_names"]:
                    out.append({"part": "rtfixed", "kind": kind, "fmt": fmt, "suffix": suffix, "moltype": mt})
    for kind in ("sc", "nsc"):
        for fmt in ("fasta", "gde", "json"):
            for suffix in SUFFIXES:
                out.append({"part": "ragged", "kind": kind, "fmt": fmt, "suffix": suffix})
    for fmt in ("fasta", "phylip", "paml", "gde"):
        for w in b["content_widths"]:
            out.append({"part": "content1", "fmt": fmt, "width": w, "n": b["content_single_len"]})
            out.append({"part": "content2", "fmt": fmt, "width": w, "n": b["content_pair_len"]})
    recs = grammar_records()
    nrec = len(recs)
    out.append({"part": "grammar", "k": 1})
    if b["grammar_records"] >= 2:
        for i in range(nrec):
            out.append({"part": "grammar", "k": 2, "first": i})
    if b["grammar_records"] >= 3:
        for i in range(nrec):
            for j in range(len(G_LABELS)):
                out.append({"part": "grammar", "k": 3, "first": i, "second_label": j})
    for n in range(0, b["lines_len"] + 1):
        nch = 1 if n < 6 else (4 if n < 8 else 16)
        for c in range(nch):
            out.append({"part": "lines", "n": n, "chunk": c, "of": nch})
    out.append({"part": "formatters"})
    out.append({"part": "genbank", "k": 1})
    if b["genbank_records"] >= 2:
        out.append({"part": "genbank", "k": 2})
    return out


def run_shard(spec, acc):
    part = spec["part"]
    if part in ("rt", "rtfixed"):
        kind, fmt, suffix, mt = spec["kind"], spec["fmt"], spec["suffix"], spec["moltype"]
        tuples = name_tuples(spec["kmax"]) if part == "rt" else FIXED_TUPLES
        for i, names in enumerate(tuples):
            if part == "rt" and i % spec["of"] != spec["chunk"]:
                continue
            for width, n in BLOCK_LENGTHS:
                seqs = [content(mt, j, n) for j in range(len(names))]
                why = judged(fmt, names, seqs)
                if why:
                    acc.count(why)
                    continue
                # chunk sweep on the plain text of the single-name files (size ~ 10..150 bytes)
                sweep = len(names) == 1 and kind == "aa" and fmt != "json"
                roundtrip(acc, part, kind, mt, names, seqs, width, fmt, suffix, sweep=sweep)
        acc.sample({"container": KIND_LABEL[kind], "format": fmt + suffix, "moltype": mt,
                    "names": list(tuples[-1]), "lengths": [n for _, n in BLOCK_LENGTHS]}, f"rt-{fmt}")
    elif part == "ragged":
        kind, fmt, suffix = spec["kind"], spec["fmt"], spec["suffix"]
        for (w1, n1), (w2, n2) in itertools.product(BLOCK_LENGTHS, repeat=2):
            if w1 != w2 or n1 == n2:
                continue
            names = ("seq 1", "a")
            seqs = [content("dna", 0, n1).replace("-", "A"), content("dna", 2, n2).replace("-", "C")]
            why = judged(fmt, names, seqs)
            if why:
                acc.count(why)
                continue
            roundtrip(acc, part, kind, "dna", names, seqs, w1, fmt, suffix)
        acc.sample({"ragged": True, "container": KIND_LABEL[kind], "format": fmt + suffix}, "ragged")
    elif part == "content1":
        fmt, w = spec["fmt"], spec["width"]
        for s in strings_upto("AC-?", spec["n"]):
            if not s:
                continue
            roundtrip(acc, part, "aa", "dna", ("a",), [s], w, fmt, "", deep=True)
        acc.sample({"content": "every string over AC-? up to the bound", "format": fmt, "line_width": w}, "content1")
    elif part == "content2":
        fmt, w = spec["fmt"], spec["width"]
        for n in range(1, spec["n"] + 1):
            all_n = ["".join(t) for t in itertools.product("A-?", repeat=n)]
            for s1 in all_n:
                for s2 in all_n:
                    roundtrip(acc, part, "aa", "dna", ("b c", "a"), [s1, s2], w, fmt, "", deep=True)
        acc.sample({"content": "every aligned pair over A-? up to the bound", "format": fmt, "line_width": w}, "content2")
    elif part == "grammar":
        recs = grammar_records()
        k = spec["k"]
        if k == 1:
            combos = [(r,) for r in recs]
        elif k == 2:
            r1 = recs[spec["first"]]
            combos = [(r1, r2) for r2 in recs if r2[0] != r1[0]]
        else:
            r1 = recs[spec["first"]]
            lab2 = G_LABELS[spec["second_label"]]
            combos = [(r1, r2, r3) for r2 in recs if r2[0] == lab2 and lab2 != r1[0]
                      for r3 in recs if r3[0] not in (r1[0], lab2)]
        for combo in combos:
            for opt in G_OPTIONS:
                if opt[2] and len(combo) == 1:
                    continue  # no place for a blank line between records
                text = grammar_text(combo, *opt)
                if len(text) > 40:
                    acc.count("grammar_texts_over_40_bytes_skipped")
                    continue
                check_grammar_text(acc, combo, opt, sweep=(k <= 2))
        if combos:
            acc.sample({"fasta_text": grammar_text(combos[-1], "\n", 1, 0)}, f"grammar{k}")
    elif part == "lines":
        n = spec["n"]
        for i, t in enumerate(itertools.product("a\n\r", repeat=n)):
            if i % spec["of"] != spec["chunk"]:
                continue
            text = "".join(t)
            for suffix, op in (("", open), (".gz", gzip.open), (".bz2", bz2.open)):
                path = _tmp("l.txt" + suffix)
                with op(path, "wb") as f:
                    f.write(text.encode("utf8"))
                if not text:
                    # an empty path cannot be opened by open_ when size is 0? it can: judged like any other
                    pass
                chunk_sweep(acc, path, text, {"part": "lines", "text": text, "suffix": suffix})
        acc.sample({"lines_text_length": n, "alphabet": ["a", "LF", "CR"], "suffixes": SUFFIXES}, "lines")
    elif part == "formatters":
        check_formatters_twice(acc)
    elif part == "genbank":
        k = spec["k"]
        for eol in ("\n", "\r\n"):
            for final in (True,):
                if k == 1:
                    for locus in GB_LOCI:
                        for n in GB_LENGTHS:
                            check_genbank(acc, [(locus, content("dna", 0, n).replace("-", "A").replace("?", "N"))], eol, final)
                    # what the LOCUS line says about the molecule does not change the letters of the record
                    for mol in ("mRNA", "ss-DNA", "tRNA"):
                        for n in (9, 61):
                            check_genbank(acc, [("AB000001", content("dna", 0, n).replace("-", "A").replace("?", "N"))], eol, final, mol)
                else:
                    for n1 in GB_LENGTHS:
                        for n2 in GB_LENGTHS:
                            check_genbank(acc, [("AB000001", content("dna", 0, n1).replace("-", "A").replace("?", "N")),
                                                ("X_1", content("dna", 2, n2).replace("-", "A").replace("?", "N"))], eol, final)
        acc.sample({"genbank_records": k, "lengths": GB_LENGTHS}, "genbank")


def replay(case):
    from vf.kernel.runner import Acc

    acc = Acc()
    part = case.get("part")
    if part == "grammar":
        recs = [(r[0], r[1], list(r[2])) for r in case["recs"]]
        check_grammar_text(acc, recs, tuple(case["opt"]), case.get("sweep", False))
    elif part == "formatters":
        check_formatters_twice(acc)
    elif part == "genbank":
        check_genbank(acc, [tuple(r) for r in case["recs"]], case["eol"], case["final_newline"], case.get("mol", "DNA"))
    elif part == "lines":
        text, suffix = case["text"], case["suffix"]
        op = {"": open, ".gz": gzip.open, ".bz2": bz2.open}[suffix]
        path = _tmp("l.txt" + suffix)
        with op(path, "wb") as f:
            f.write(text.encode("utf8"))
        chunk_sweep(acc, path, text, {"part": "lines", "text": text, "suffix": suffix})
    else:
        roundtrip(acc, part, case["kind"], case["moltype"], tuple(case["names"]), list(case["seqs"]), case["width"],
                  case["fmt"], case["suffix"], deep=case.get("deep", True), sweep=case.get("sweep", False))
    return [(sig, rec["cases"][0]["detail"]) for sig, rec in acc.failures.items()]


LEVEL_TEXT = (
    "Bounded exhaustive exploration on the real writers, loaders and parsers: every ordered subset of a name pool built to collide "
    "(separator characters, prefixes, 9/10/11 characters), every sequence length around the line-wrap boundaries, every supported "
    "format, compression suffix and container class is written and loaded back and compared with the python values written; every "
    "alternative parser and input form of a format reads the same text; every chunk size of the line streamer is tried on every small "
    "file. The verdict is complete inside the bounds (no sampling); the wrap / truncate / chunk logic is length-generic, so all of its "
    "boundary cases (empty, one short, exact multiple, one over) occur at these sizes."
)
LEVEL_NOTE = (
    "Trusted: CPython str.splitlines, gzip/bz2 modules, the 15-line record generators. Names are from a fixed 10-name pool and files are "
    "<= a few hundred bytes; GenBank is limited to grammar-generated minimal records; nothing is claimed above the recorded bounds."
)
