"""C03 - alignment operations equal the same operations on the gapped strings.

K1: breadth-first explicit-state search over histories of alignment operations, driving the annotatable
``Alignment`` and the array-backed ``ArrayAlignment`` in lock-step from one model (an ordered dict
name -> gapped string).  Initial objects: every gap mask per row for 2 (thorough: also 3) rows up to a
length bound, residues chosen per (row, column) so cells are distinguishable and degenerate symbols occur.
After every transition both real objects are compared with the model; every new canonical state is also
compared, method by method, with a fresh alignment built from the model rows (differential oracle).
"""

import itertools

PID = "C03"
LEVEL = "model_checking"
TECHNIQUE = "explicit-state BFS over alignment operation histories, both alignment classes in lock-step, against a dict-of-gapped-strings model"
RULE = (
    "states = canonical (class, moltype, model rows, per-row gap arrays and sequence-view records); transitions = every slice (a,b in [-L-1,L+1] or None), "
    "int index, rc, take_positions (every subset, negated or not), take_seqs (every subset), omit_gap_pos (fraction lattice), no_degenerates, filtered "
    "(3 predicates x motif length), get_degapped_relative_to (every row), sample (every injected index vector up to length 3), concatenation, class / moltype "
    "conversion, copy, omit_gap_seqs / omit_gap_runs applied to every state up to the depth bound"
)
ASSUMPTIONS = [
    "python string operations are the reference semantics (slicing clamps like python; an index outside the range raises IndexError)",
    "an operation whose result would have no sequences or no columns may raise, return None (documented for filtered) or return empty rows",
    "sample() is driven through its injectable randint / permutation arguments; every index vector up to the bound is enumerated",
    "get_seq() of an ArrayAlignment returns the stored (gapped) row by design; only Alignment.get_seq is required to be degapped",
    "gap fraction for omit_gap_pos is (number of '-' / '?' characters in the motif column) / (rows x motif_length), as both classes implement it; the lattice {0, 0.5, default, 1} hits the thresholds for 2 rows",
]

from vf.props.c01_views import DNA_COMP, RNA_COMP

RESIDUES = {
    "dna": ["A?GTRA", "GTYACC", "CANGTT"],  # "?" (missing data) is a symbol of its own: some operations count it as a gap
    "rna": ["ACGURA", "GUYACC", "CANGUU"],
    "protein": ["ACDEFG", "GHIKLA", "MNPQXW"],
}
NAMES = ["s1", "s2", "s3"]
DEGEN = {"dna": set("RYMKBVDHWSN?"), "rna": set("RYMKBVDHWSN?"), "protein": set("XBZ?")}


def bounds(tier):
    return {
        "quick": {"rows": [2], "deep_len": 2, "deep_depth": 2, "shallow_len": 3, "filters_len": 4, "shallow_depth": 1, "moltypes": ["dna"]},
        "thorough": {"rows": [2, 3], "deep_len": 2, "rows3_deep_moltypes": ["dna"], "deep_depth": 2, "shallow_len": 4, "shallow_depth": 1, "moltypes": ["dna", "rna", "protein"]},
    }[tier]


# ----------------------------------------------------------------------------- model
class Model:
    __slots__ = ("rows", "mol")

    def __init__(self, rows, mol):
        self.rows = dict(rows)  # ordered name -> gapped string
        self.mol = mol

    @property
    def L(self):
        return len(next(iter(self.rows.values()))) if self.rows else 0

    def key(self):
        return (self.mol, tuple(self.rows.items()))


def comp(s, mol):
    t = DNA_COMP if mol == "dna" else RNA_COMP
    return "".join(t[c] for c in s)


def is_gap(c):
    return c in "-?"


PREDICATES = {
    "no_gap": lambda col: not any(is_gap(c) for m in col for c in m),
    "first_row_A": lambda col: col[0].startswith("A"),
    "all_same": lambda col: len(set(col)) == 1,
}


def model_apply(m: Model, op):
    """returns new Model, or exception class, or the string 'EMPTY' when the result has no rows/columns"""
    k = op[0]
    rows = m.rows
    L = m.L
    if k == "chain":
        # several view operations in a row, counted as one step of a history (reaches rc > slice > rc at the depth bound)
        cur = m
        for sub in op[1]:
            cur = model_apply(cur, tuple(sub))
            if not isinstance(cur, Model):
                return cur
        return cur
    if k == "slice":
        return Model({n: s[op[1] : op[2]] for n, s in rows.items()}, m.mol)
    if k == "int":
        i = op[1]
        if not -L <= i < L:
            return IndexError
        return Model({n: s[i] for n, s in rows.items()}, m.mol)
    if k == "rc":
        return Model({n: comp(s[::-1], m.mol) for n, s in rows.items()}, m.mol)
    if k == "take_positions":
        cols = list(op[1])
        if op[2]:
            cols = [c for c in range(L) if c not in set(op[1])]
        return Model({n: "".join(s[c] for c in cols) for n, s in rows.items()}, m.mol)
    if k == "take_seqs":
        names = list(op[1])
        if op[2]:
            names = [n for n in rows if n not in set(op[1])]
        return Model({n: rows[n] for n in names}, m.mol)
    if k in ("omit_gap_pos", "no_degenerates", "filtered"):
        ml = op[-1]
        nm = L // ml
        motifs = {n: [s[i * ml : (i + 1) * ml] for i in range(nm)] for n, s in rows.items()}
        keep = []
        for i in range(nm):
            col = tuple(motifs[n][i] for n in rows)
            if k == "omit_gap_pos":
                # both classes define the gap fraction of a motif column as gap characters / all characters
                frac = sum(is_gap(c) for mo in col for c in mo) / (len(col) * ml)
                ok = frac <= op[1]
            elif k == "no_degenerates":
                bad = DEGEN[m.mol] | (set() if op[1] else set("-"))
                ok = not any(c in bad for mo in col for c in mo)
            else:
                ok = PREDICATES[op[1]](col)
            if ok:
                keep.append(i)
        return Model({n: "".join(motifs[n][i] for i in keep) for n in rows}, m.mol)
    if k == "degapped_relative_to":
        ref = rows[op[1]]
        cols = [i for i, c in enumerate(ref) if c != "-"]  # both classes: only the gap character, "?" is kept
        return Model({n: "".join(s[i] for i in cols) for n, s in rows.items()}, m.mol)
    if k == "sample":
        idx, ml = op[1], op[2]
        return Model({n: "".join(s[i * ml : (i + 1) * ml] for i in idx) for n, s in rows.items()}, m.mol)
    if k == "concat":
        other = dict(op[1])
        return Model({n: s + other[n] for n, s in rows.items()}, m.mol)
    if k == "concat_self":
        return Model({n: s + s for n, s in rows.items()}, m.mol)
    if k in ("to_type", "copy", "deepcopy"):
        return Model(rows, m.mol)
    if k in ("to_dna", "to_rna"):
        new = k[3:]
        tr = str.maketrans("TU", "UT") if new != m.mol else {}
        return Model({n: s.translate(tr) for n, s in rows.items()}, new)
    if k == "omit_gap_seqs":
        keep = {n: s for n, s in rows.items() if (sum(is_gap(c) for c in s) / len(s) if s else 0) <= op[1]}
        return Model(keep, m.mol)
    raise ValueError(op)


# ----------------------------------------------------------------------------- implementation
def make_aln(rows, mol, array):
    from cogent3 import make_aligned_seqs

    return make_aligned_seqs(dict(rows), moltype=mol, array_align=array)


def real_apply(aln, op, mol):
    k = op[0]
    if k == "slice":
        return aln[op[1] : op[2]]
    if k == "int":
        return aln[op[1]]
    if k == "chain":
        cur = aln
        for sub in op[1]:
            cur = real_apply(cur, tuple(sub), mol)
        return cur
    if k == "rc":
        return aln.rc()
    if k == "take_positions":
        return aln.take_positions(list(op[1]), negate=op[2])
    if k == "take_seqs":
        return aln.take_seqs(list(op[1]), negate=op[2])
    if k == "omit_gap_pos":
        return aln.omit_gap_pos(allowed_gap_frac=op[1], motif_length=op[2])
    if k == "no_degenerates":
        return aln.no_degenerates(allow_gap=op[1], motif_length=op[2])
    if k == "filtered":
        return aln.filtered(PREDICATES[op[1]], motif_length=op[2])
    if k == "degapped_relative_to":
        return aln.get_degapped_relative_to(op[1])
    if k == "sample":
        import numpy

        idx, ml = list(op[1]), op[2]
        given = {}

        def randint(lo, hi, n):
            given["a"] = numpy.array(idx)
            return given["a"]

        def permutation(n):
            given["a"] = numpy.array(idx + [i for i in range(n) if i not in idx])
            return given["a"]

        out = aln.sample(n=len(idx), with_replacement=op[3], motif_length=ml, randint=randint, permutation=permutation)
        # the index vector belongs to the caller (a replicate study re-uses it): it must come back unchanged
        if "a" in given and given["a"][: len(idx)].tolist() != idx:
            raise RuntimeError("sample() changed the index array supplied through randint= / permutation=")
        return out
    if k == "concat":
        other = make_aln(op[1], mol, type(aln).__name__ == "ArrayAlignment")
        return aln + other
    if k == "concat_self":
        return aln + aln  # both operands are the same object (rows share their underlying data)
    if k == "to_type":
        return aln.to_type(array_align=type(aln).__name__ != "ArrayAlignment")
    if k == "copy":
        return aln.copy()
    if k == "deepcopy":
        return aln.deepcopy(sliced=op[1])
    if k == "to_dna":
        return aln.to_dna()
    if k == "to_rna":
        return aln.to_rna()
    if k == "omit_gap_seqs":
        return aln.omit_gap_seqs(allowed_gap_frac=op[1])
    raise ValueError(op)


def alphabet(m: Model):
    L = m.L
    names = list(m.rows)
    ops = []
    vals = [None] + list(range(-(L + 1), L + 2))
    for a in vals:
        for b in vals:
            ops.append(("slice", a, b))
    for i in range(-(L + 1), L + 1):
        ops.append(("int", i))
    if m.mol in ("dna", "rna"):
        for kk in range(1, L):
            ops.append(("chain", (("rc",), ("slice", kk, None), ("rc",))))
            ops.append(("chain", (("rc",), ("slice", None, kk), ("rc",))))
        ops.append(("rc",))
        ops.append(("to_dna",))
        ops.append(("to_rna",))
    for r in range(0, L + 1):
        for cols in itertools.combinations(range(L), r):
            ops.append(("take_positions", cols, False))
            ops.append(("take_positions", cols, True))
    if L >= 1:
        ops.append(("take_positions", (-1,), False))  # negative indices count from the end (negate=False only: what
        ops.append(("take_positions", (-L,), False))  # negate means for a negative index is not stated)
    if L >= 2:
        ops.append(("take_positions", (-2, -1), False))
        ops.append(("take_positions", (0, -1), False))
        ops.append(("take_positions", (L - 1, 0), False))  # out of order
        ops.append(("take_positions", (0, 0), False))  # repeated
    for r in range(1, len(names) + 1):
        for sub in itertools.permutations(names, r):
            ops.append(("take_seqs", sub, False))
        for sub in itertools.combinations(names, r):
            ops.append(("take_seqs", sub, True))
    for f in (0, 0.5, 1 - 1e-6, 1):
        for ml in (1, 2):
            ops.append(("omit_gap_pos", f, ml))
    for allow in (False, True):
        for ml in (1, 2):
            ops.append(("no_degenerates", allow, ml))
    for p in PREDICATES:
        for ml in (1, 2):
            ops.append(("filtered", p, ml))
    for n in names:
        ops.append(("degapped_relative_to", n))
    for ml in (1, 2):
        pop = L // ml
        for n in range(1, min(3, pop) + 1):
            for idx in itertools.product(range(pop), repeat=n):
                ops.append(("sample", idx, ml, True))
            for idx in itertools.permutations(range(pop), n):
                ops.append(("sample", idx, ml, False))
    other = {n: RESIDUES[m.mol][i][:2].replace(RESIDUES[m.mol][i][1], "-") if i else RESIDUES[m.mol][i][:2] for i, n in enumerate(names)}
    ops.append(("concat", tuple(other.items())))
    if len(other) > 1:
        ops.append(("concat", tuple(reversed(list(other.items())))))  # same names, different order in the right operand
    ops.append(("concat_self",))
    ops.append(("to_type",))
    ops.append(("copy",))
    ops.append(("deepcopy", True))
    ops.append(("deepcopy", False))
    for f in (0, 0.5):
        ops.append(("omit_gap_seqs", f))
    return ops


def op_label(op):
    k = op[0]
    if k == "slice":
        return "__getitem__(slice)"
    if k == "int":
        return "__getitem__(int)"
    if k in ("take_positions", "take_seqs"):
        return f"{k}(negate={op[2]})"
    if k in ("omit_gap_pos", "no_degenerates", "filtered"):
        return f"{k}(motif_length={op[-1]})"
    if k == "sample":
        return f"sample(with_replacement={op[3]}, motif_length={op[2]})"
    if k == "deepcopy":
        return f"deepcopy(sliced={op[1]})"
    return k


def rows_of(aln):
    """what the real object displays: ordered name -> str; raises on failure"""
    d = aln.to_dict()
    return {n: str(d[n]) for n in aln.names}


def internal_key(aln):
    cls = type(aln).__name__
    if cls == "Alignment":
        parts = []
        for n in aln.names:
            a = aln.named_seqs[n]
            v = getattr(a.data, "_seq", None)
            parts.append((n, repr(a.map), repr(v)))
        return (cls, tuple(parts))
    return (cls,)


def basic_problems(aln, m: Model, op=None):
    probs = []
    try:
        got = rows_of(aln)
    except Exception as e:  # noqa: BLE001
        return [("raised while reading rows", f"{type(e).__name__}: {e}"[:160], dict(m.rows))]
    if list(got) != list(m.rows):
        probs.append(("names / order", list(got), list(m.rows)))
    elif got != m.rows:
        probs.append(("rows", got, dict(m.rows)))
    try:
        if len({len(s) for s in got.values()}) > 1:
            probs.append(("rows of unequal length", got, None))
        if len(aln) != m.L:
            probs.append(("len", len(aln), m.L))
        if not probs:
            for n in m.rows:
                g = str(aln.get_gapped_seq(n))
                if g != m.rows[n]:
                    probs.append(("get_gapped_seq", {n: g}, m.rows[n]))
                    break
                d = str(aln.get_seq(n))
                want = "".join(c for c in m.rows[n] if c not in "-?")
                # ArrayAlignment.get_seq is documented to return the row as stored (gapped); Alignment.get_seq the ungapped sequence
                if d != want and d != m.rows[n].replace("-", "") and not (type(aln).__name__ == "ArrayAlignment" and d == m.rows[n]):
                    probs.append(("get_seq (degapped row)", {n: d}, want))
                    break
    except Exception as e:  # noqa: BLE001
        probs.append(("raised while observing", f"{type(e).__name__}: {e}"[:160], None))
    return probs


def norm(x, depth=0):
    import numpy

    if depth > 4:
        return repr(x)
    if x is None or isinstance(x, (bool, int, str)):
        return x
    if isinstance(x, float):
        return "nan" if x != x else round(x, 9)
    if isinstance(x, numpy.generic):
        return norm(x.item(), depth + 1)
    if isinstance(x, numpy.ndarray):
        return norm(x.tolist(), depth + 1)
    if hasattr(x, "to_dict") and type(x).__module__.startswith("cogent3"):
        try:
            return ("dict", norm(x.to_dict(), depth + 1))
        except Exception:  # noqa: BLE001
            return repr(x)
    if isinstance(x, dict):
        return sorted((repr(k), norm(v, depth + 1)) for k, v in x.items())
    if isinstance(x, (list, tuple)):
        return [norm(v, depth + 1) for v in x]
    if isinstance(x, (set, frozenset)):
        return sorted(repr(norm(v, depth + 1)) for v in x)
    return str(x)


READ_ONLY = [
    ("counts", lambda a: a.counts()),
    ("counts(motif_length=2)", lambda a: a.counts(motif_length=2)),
    ("counts_per_pos", lambda a: a.counts_per_pos()),
    ("counts_per_pos(allow_gap, include_ambiguity)", lambda a: a.counts_per_pos(allow_gap=True, include_ambiguity=True)),
    ("counts_per_seq", lambda a: a.counts_per_seq()),
    ("count_gaps_per_pos", lambda a: a.count_gaps_per_pos()),
    ("count_gaps_per_seq", lambda a: a.count_gaps_per_seq()),
    ("get_gap_array", lambda a: a.get_gap_array()),
    ("iupac_consensus", lambda a: a.iupac_consensus()),
    ("majority_consensus", lambda a: str(a.majority_consensus())),
    ("variable_positions", lambda a: list(a.variable_positions())),
    ("is_ragged", lambda a: a.is_ragged()),
    ("to_fasta", lambda a: a.to_fasta()),
    ("to_phylip", lambda a: a.to_phylip()),
    ("get_lengths", lambda a: a.get_lengths()),
    ("get_lengths(allow_gap)", lambda a: a.get_lengths(allow_gap=True, include_ambiguity=True)),
    ("degap", lambda a: a.degap().to_dict()),
    # the degapped collection and the single sequences are objects of their own, built from the rows' (possibly reversed) views
    ("degap().counts_per_seq", lambda a: a.degap().counts_per_seq()),
    ("degap().get_motif_probs", lambda a: a.degap().get_motif_probs()),
    ("get_seq(n).counts", lambda a: {n: dict(a.get_seq(n).counts()) for n in a.names}),
    ("get_gapped_seq(n).counts(allow_gap)", lambda a: {n: dict(a.get_gapped_seq(n).counts(allow_gap=True, include_ambiguity=True)) for n in a.names}),
    ("num_seqs", lambda a: a.num_seqs),
    ("get_ambiguous_positions", lambda a: a.get_ambiguous_positions()),
    ("iter_positions", lambda a: [[str(c) for c in col] for col in a.iter_positions()]),
    ("get_identical_sets", lambda a: sorted(sorted(s) for s in a.get_identical_sets())),
    ("entropy_per_pos", lambda a: a.entropy_per_pos()),
    ("get_translation(incomplete_ok)", lambda a: a.get_translation(incomplete_ok=True).to_dict()),
    ("to_json roundtrip", lambda a: __import__("cogent3").util.deserialise.deserialise_object(a.to_json()).to_dict()),
]


def differential_problems(aln, m: Model):
    array = type(aln).__name__ == "ArrayAlignment"
    try:
        fresh = make_aln(m.rows, m.mol, array)
    except Exception:  # noqa: BLE001
        return []
    out = []
    for label, fn in READ_ONLY:
        try:
            a = norm(fn(aln))
        except Exception as e:  # noqa: BLE001
            a = ("raised", type(e).__name__)
        try:
            b = norm(fn(fresh))
        except Exception as e:  # noqa: BLE001
            b = ("raised", type(e).__name__)
        if a != b:
            out.append((label, a, b))
    return out


def step(aln, m, op):
    """-> (new_aln or None, new_model or None, problems, outcome)"""
    m2 = model_apply(m, op)
    try:
        r = real_apply(aln, op, m.mol)
        raised = None
    except Exception as e:  # noqa: BLE001
        r, raised = None, e
    if m2 is IndexError:
        if isinstance(raised, IndexError):
            return None, None, [], "IndexError"
        return None, None, [("no IndexError for an index outside the alignment", str(r)[:80] if raised is None else repr(raised)[:120], "IndexError")], "bad"
    empty = (not m2.rows) or m2.L == 0
    if raised is not None:
        if empty:
            return None, None, [], "raise-on-empty"
        return None, None, [(f"raised {type(raised).__name__}", str(raised)[:160], dict(m2.rows))], "bad"
    if r is None:
        if empty:
            return None, None, [], "None-on-empty"
        return None, None, [("returned None", None, dict(m2.rows))], "bad"
    if op[0] == "to_type":
        pass
    probs = basic_problems(r, m2, op)
    if empty:
        # an empty result may be refused (exception / None, handled above) or returned; a returned object must be
        # consistently empty (rows, get_gapped_seq, get_seq ...) but is not explored further
        if probs and probs[0][0] in ("names / order", "raised while reading rows") and not m2.rows:
            return None, None, [], "empty"
        return (None, None, probs, "bad") if probs else (None, None, [], "empty")
    return r, m2, probs, "ok"


def flags(aln, m):
    f = []
    if any(s.startswith("-") or s.endswith("-") for s in m.rows.values()):
        f.append("terminal gap")
    if any(set(s) <= set("-") and s for s in m.rows.values()):
        f.append("all-gap row")
    return ", ".join(f) or "no terminal gap"


FILTER_OPS = ("take_positions", "omit_gap_pos", "no_degenerates", "filtered", "rc")  # what selects column blocks (and rc before it)


def explore(spec, acc):
    mol, rows0, depth = spec["mol"], dict(spec["rows"]), spec["depth"]
    only_ops = FILTER_OPS if spec.get("ops") == "filters" else None
    m0 = Model(rows0, mol)
    case0 = {"mol": mol, "rows": list(rows0.items())}
    for array in (False, True):
        cls = "ArrayAlignment" if array else "Alignment"
        try:
            a0 = make_aln(rows0, mol, array)
        except Exception as e:  # noqa: BLE001
            acc.fail(f"{cls} construction raised {type(e).__name__}", dict(case0, cls=cls, history=[]), {"error": str(e)[:200]})
            continue
        probs = basic_problems(a0, m0)
        if probs:
            acc.fail(f"{cls} construction: {probs[0][0]}", dict(case0, cls=cls, history=[]), {"problems": probs[:3]})
            continue
        seen = {(internal_key(a0), m0.key())}
        acc.state(0)
        check_state(a0, m0, cls, case0, [], acc)
        frontier = [(a0, m0, [])]
        for d in range(1, depth + 1):
            nxt = []
            for aln, m, hist in frontier:
                for op in alphabet(m):
                    if only_ops and op[0] not in only_ops:
                        continue
                    acc.transitions += 1
                    acc.case(None, nontrivial=any("-" in s for s in m.rows.values()))
                    r, m2, probs, outcome = step(aln, m, op)
                    cur = type(aln).__name__
                    if probs:
                        fl = "" if probs[0][0].startswith("raised ") else f" [{flags(aln, m)}]"
                        acc.fail(f"{cur}.{op_label(op)}: {probs[0][0]}{fl}", dict(case0, cls=cls, history=hist + [jsonop(op)]), {"problems": probs[:3]})
                        acc.outcome(("bad", op_label(op), probs[0][0]))
                        continue
                    acc.outcome((outcome, m2.key() if m2 else None))
                    if r is None:
                        continue
                    k = (internal_key(r), m2.key())
                    if k in seen:
                        continue
                    seen.add(k)
                    acc.state(d)
                    h2 = hist + [jsonop(op)]
                    check_state(r, m2, cls, case0, h2, acc)
                    if d < depth:
                        nxt.append((r, m2, h2))
                    elif len(h2) == depth:
                        acc.sample({"class": cls, "moltype": mol, "rows": rows0, "history": h2, "result": m2.rows}, f"{cls}-{mol}")
            frontier = nxt


def jsonop(op):
    return [list(x) if isinstance(x, tuple) else x for x in op]


def unjson(op):
    out = []
    for x in op:
        if isinstance(x, list):
            out.append(tuple(tuple(y) if isinstance(y, list) else y for y in x))
        else:
            out.append(x)
    return tuple(out)


def check_state(aln, m, cls, case0, hist, acc):
    if not m.rows or m.L == 0:
        return
    cur = type(aln).__name__
    # the differential oracle depends only on the object's own state: do it once per distinct state in this shard
    done = acc.notes.setdefault("_diff_done", set())
    k = (internal_key(aln), m.key())
    if k in done:
        return
    done.add(k)
    acc.count("states_compared_with_fresh_alignment")
    for label, a, b in differential_problems(aln, m):
        acc.fail(f"{cur}.{label} differs from a fresh alignment with the same rows [{flags(aln, m)}]", dict(case0, cls=cls, history=hist, method=label),
                 {"on object": a, "on fresh": b, "rows": m.rows})


def initial_rows(mol, nrows, L):
    res = RESIDUES[mol]
    for masks in itertools.product(itertools.product((0, 1), repeat=L), repeat=nrows):
        yield [(NAMES[r], "".join("-" if masks[r][c] else res[r][c] for c in range(L))) for r in range(nrows)]


def long_rows():
    """two rows of more than 2**15 columns: one degenerate column in the middle, gaps behind sequence position 32767"""
    s1 = "A" * 16000 + "N" + "C" * 16800 + "-" + "G" * 5 + "--" + "T" * 3
    s2 = "G" * 16000 + "A" + "T" * 16800 + "A" + "-" + "C" * 4 + "AA" + "---"
    return [("s1", s1), ("s2", s2)]


LONG_HISTORIES = [
    [("no_degenerates", True, 1)],
    [("omit_gap_pos", 0.4, 1)],
    [("no_degenerates", True, 1), ("omit_gap_pos", 0.4, 1)],
    [("rc",), ("no_degenerates", True, 1)],
    [("slice", 100, None), ("no_degenerates", True, 1), ("rc",)],
]


def check_long(acc):
    """the position filters on alignments long enough for coordinates beyond 16-bit integers, both classes"""
    rows0 = dict(long_rows())
    for hist0 in LONG_HISTORIES:
        for array in (False, True):
            cls = "ArrayAlignment" if array else "Alignment"
            case = {"long": True, "cls": cls, "history": [jsonop(o) for o in hist0], "columns": len(rows0["s1"])}
            acc.case(case, nontrivial=True)
            try:
                aln, m = make_aln(rows0, "dna", array), Model(rows0, "dna")
            except Exception as e:  # noqa: BLE001
                acc.fail(f"{cls} construction raised {type(e).__name__} [more than 2**15 columns]", case, {"error": str(e)[:200]})
                continue
            for op in hist0:
                acc.transitions += 1
                r, m2, probs, outcome = step(aln, m, op)
                if probs:
                    acc.fail(f"{type(aln).__name__}.{op_label(op)}: {probs[0][0]} [more than 2**15 columns]", case,
                             {"problems": [[p[0], str(p[1])[:120]] for p in probs[:2]]})
                    break
                if r is None:
                    break
                aln, m = r, m2
            acc.outcome(("long", cls, len(hist0)))
    acc.sample({"long alignment": True, "columns": len(rows0["s1"]), "histories": [[jsonop(o) for o in h] for h in LONG_HISTORIES]}, "long")


def shards(tier, seed):
    b = bounds(tier)
    out = [{"part": "long"}]
    for mol in b["moltypes"]:
        for nrows in b["rows"]:
            for L in range(1, b["shallow_len"] + 1):
                deep = b.get("deep_len_dna_2rows", b["deep_len"]) if (mol == "dna" and nrows == 2) else b["deep_len"]
                depth = b["deep_depth"] if L <= deep else b["shallow_depth"]
                if nrows == 3 and L > 3:
                    continue
                if nrows == 3 and L > 2:
                    depth = b["shallow_depth"]  # 512 masks: histories of depth 2 only up to 2 columns
                if nrows == 3 and L == 2 and mol not in b.get("rows3_deep_moltypes", b["moltypes"]):
                    depth = b["shallow_depth"]
                allrows = list(initial_rows(mol, nrows, L))
                nchunks = max(1, min(len(allrows), (len(allrows) * (16 if depth > 1 else 1)) // 8))
                for c in range(nchunks):
                    out.append({"mol": mol, "nrows": nrows, "L": L, "depth": depth, "chunk": c, "of": nchunks})
    if b.get("filters_len"):
        # one column more, for the operations that keep several blocks of columns: a row that is all gap inside one kept
        # block and has a gap in a later one needs four columns
        L = b["filters_len"]
        allrows = list(initial_rows("dna", 2, L))
        nchunks = 16
        for c in range(nchunks):
            out.append({"mol": "dna", "nrows": 2, "L": L, "depth": 1, "chunk": c, "of": nchunks, "ops": "filters"})
    out.sort(key=lambda s: -(s.get("L", 9) * s.get("depth", 9)))
    return out


def run_shard(spec, acc):
    if spec.get("part") == "long":
        check_long(acc)
        return
    allrows = list(initial_rows(spec["mol"], spec["nrows"], spec["L"]))
    for i, rows in enumerate(allrows):
        if i % spec["of"] == spec["chunk"]:
            explore({"mol": spec["mol"], "rows": rows, "depth": spec["depth"], "ops": spec.get("ops")}, acc)


def replay(case):
    from vf.kernel.runner import Acc

    acc = Acc()
    if case.get("long"):
        check_long(acc)
        return [(s, r["cases"][0]["detail"]) for s, r in acc.failures.items()]
    mol, rows0 = case["mol"], dict((n, s) for n, s in case["rows"])
    array = case["cls"] == "ArrayAlignment"
    aln = make_aln(rows0, mol, array)
    m = Model(rows0, mol)
    case0 = {"mol": mol, "rows": case["rows"]}
    hist = []
    for op in case["history"]:
        op = unjson(op)
        r, m2, probs, outcome = step(aln, m, op)
        hist.append(jsonop(op))
        if probs:
            fl = "" if probs[0][0].startswith("raised ") else f" [{flags(aln, m)}]"
            acc.fail(f"{type(aln).__name__}.{op_label(op)}: {probs[0][0]}{fl}", dict(case0, cls=case["cls"], history=list(hist)), {"problems": probs[:3]})
            break
        if r is None:
            break
        aln, m = r, m2
    else:
        check_state(aln, m, case["cls"], case0, hist, acc)
    return [(s, r["cases"][0]["detail"]) for s, r in acc.failures.items()]


LEVEL_TEXT = (
    "Explicit-state model checking of both alignment classes: every gap mask per row (all-gap rows and columns, leading / trailing / adjacent runs) up to the "
    "length bound is the start of a BFS over operation histories (slices incl. negative and out-of-range bounds, rc, every position / sequence subset, gap and degenerate "
    "filters, degapping relative to each row, injected sampling vectors, concatenation, class and moltype conversion); after each step both classes are compared with a "
    "dict-of-strings model, and each new state's read-only methods with a fresh alignment."
)
LEVEL_NOTE = "Trusted: python str operations; the IUPAC complement table. Decides alignments up to the stated rows x columns and histories up to the stated depth."
