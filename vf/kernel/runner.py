"""Shard runner, result merging, known-findings handling, evidence and replay files.

A driver module (vf.props.cXX_*) provides

    PID        property id, e.g. "C08"
    LEVEL      evidence level: "model_checking" | "exploration" | "fault_enumeration"
    RULE       how cases are enumerated and what makes one distinct / non-trivial
    ASSUMPTIONS list[str]
    shards(tier, seed) -> list[dict]      JSON-able shard descriptions (deterministic)
    run_shard(spec, acc)                  enumerate the shard, report into ``acc``
    replay(case) -> list[(sig, detail)]   re-run exactly one recorded case

Everything a shard explores is enumerated, never sampled; ``seed`` only rotates
the order in which shards are handed to workers.
"""

from __future__ import annotations

import hashlib
import importlib
import json
import multiprocessing as mp
import os
import shutil
import signal
import sys
import tempfile
import time
import traceback

ROOT = os.path.dirname(os.path.dirname(os.path.dirname(os.path.abspath(__file__))))
EVIDENCE_DIR = os.path.join(ROOT, "evidence")
REPLAY_DIR = os.path.join(ROOT, "replays")
FINDINGS_FILE = os.path.join(ROOT, "known_findings.json")

MAX_CASES_PER_SIG = 3
MAX_SAMPLES = 12


class ShardTimeout(Exception):
    pass


def jsonable(x):
    """Best-effort conversion to something json.dumps accepts (for cases / details)."""
    import numpy

    if isinstance(x, (str, int, float, bool)) or x is None:
        if isinstance(x, float) and (x != x or x in (float("inf"), float("-inf"))):
            return repr(x)
        return x
    if isinstance(x, (numpy.integer,)):
        return int(x)
    if isinstance(x, (numpy.floating,)):
        return jsonable(float(x))
    if isinstance(x, numpy.ndarray):
        return jsonable(x.tolist())
    if isinstance(x, dict):
        return {str(k): jsonable(v) for k, v in x.items()}
    if isinstance(x, (list, tuple)):
        return [jsonable(v) for v in x]
    if isinstance(x, (set, frozenset)):
        return sorted((jsonable(v) for v in x), key=repr)
    if isinstance(x, slice):
        return {"slice": [x.start, x.stop, x.step]}
    if isinstance(x, bytes):
        return x.decode("latin1")
    return repr(x)


def digest(x) -> int:
    """Stable 64-bit digest of a JSON-able / repr-able value."""
    if not isinstance(x, (str, bytes)):
        x = repr(x)
    if isinstance(x, str):
        x = x.encode("utf8", "surrogatepass")
    return int.from_bytes(hashlib.blake2b(x, digest_size=8).digest(), "big")


class Acc:
    """Per-shard accumulator; merged in the parent."""

    def __init__(self):
        self.evaluations = 0  # cases generated / executions run
        self.nontrivial = 0  # distinct by construction AND non-trivial by the driver's rule
        self.keys = set()  # digests of non-trivial cases whose distinctness must be measured
        self.outcomes = set()  # digests of distinct observed outcomes (vacuity indicator)
        self.states = 0
        self.transitions = 0
        self.traces = 0  # histories executed on the real code
        self.by_depth = {}  # depth -> new states
        self.failures = {}  # sig -> {"count": n, "cases": [ {case, detail} ]}
        self.samples = []
        self._tagged = []
        self.extra = {}  # free-form counters (summed)
        self.notes = {}  # free-form values (last wins)
        self.current = None  # case in progress (for timeouts / crashes)

    # ---- reporting API used by drivers
    def case(self, case=None, nontrivial=True, key=None):
        self.evaluations += 1
        self.current = case
        if nontrivial:
            if key is None:
                self.nontrivial += 1
            else:
                self.keys.add(digest(key))

    def outcome(self, obs):
        self.outcomes.add(digest(obs))

    def sample(self, case, tag=None):
        n = sum(1 for t, _ in self._tagged if t == tag)
        if n < 2 and len(self._tagged) < 40:
            self._tagged.append((tag, jsonable(case)))
            self.samples = [c for _, c in self._tagged]

    def fail(self, sig, case, detail=None):
        rec = self.failures.setdefault(sig, {"count": 0, "cases": []})
        rec["count"] += 1
        if len(rec["cases"]) < MAX_CASES_PER_SIG * 4:
            rec["cases"].append({"case": jsonable(case), "detail": jsonable(detail)})

    def count(self, name, n=1):
        self.extra[name] = self.extra.get(name, 0) + n

    def state(self, depth=0):
        self.states += 1
        self.by_depth[depth] = self.by_depth.get(depth, 0) + 1

    # ---- merging
    def merge(self, other: "Acc"):
        self.evaluations += other.evaluations
        self.nontrivial += other.nontrivial
        self.keys |= other.keys
        self.outcomes |= other.outcomes
        self.states += other.states
        self.transitions += other.transitions
        self.traces += other.traces
        for d, n in other.by_depth.items():
            self.by_depth[d] = self.by_depth.get(d, 0) + n
        for sig, rec in other.failures.items():
            mine = self.failures.setdefault(sig, {"count": 0, "cases": []})
            mine["count"] += rec["count"]
            # keep the smallest cases (counter-examples are reported simplest first)
            allc = mine["cases"] + rec["cases"]
            allc.sort(key=lambda c: (len(json.dumps(c["case"])), json.dumps(c["case"], sort_keys=True)))
            mine["cases"] = allc[:MAX_CASES_PER_SIG]
        for t, c in other._tagged:
            self.sample(c, t)
        for k, v in other.extra.items():
            self.extra[k] = self.extra.get(k, 0) + v
        self.notes.update(other.notes)


_DRIVER = None


def _alarm(signum, frame):
    raise ShardTimeout()


def _worker_init(modname, tmpbase):
    global _DRIVER
    os.environ["TMPDIR"] = tmpbase
    tempfile.tempdir = tmpbase
    # the explorer's worker processes must look like ordinary top-level ("master") processes to the
    # library: cogent3.util.parallel.is_master_process() asks multiprocessing for a parent process
    import multiprocessing.process as _mpp

    _mpp._parent_process = None
    _DRIVER = importlib.import_module(modname)
    if hasattr(_DRIVER, "worker_init"):
        _DRIVER.worker_init()


def _run_one(args):
    idx, spec, timeout = args
    acc = Acc()
    t0 = time.time()
    old = signal.signal(signal.SIGALRM, _alarm)
    signal.alarm(int(timeout))
    try:
        _DRIVER.run_shard(spec, acc)
    except ShardTimeout:
        acc.fail(
            f"harness: shard exceeded {timeout}s (hang or pathological slowdown)",
            {"shard": spec, "in_progress": acc.current},
            {"timeout_s": timeout},
        )
    except BaseException as e:  # noqa: BLE001 - anything escaping a driver is reported
        tb = traceback.extract_tb(e.__traceback__)
        where = next(
            (f"{os.path.basename(f.filename)}:{f.name}" for f in reversed(tb) if "cogent3" in f.filename),
            f"{os.path.basename(tb[-1].filename)}:{tb[-1].name}" if tb else "?",
        )
        acc.fail(
            f"harness: uncaught {type(e).__name__} at {where}",
            {"shard": spec, "in_progress": acc.current},
            {"traceback": traceback.format_exc()[-3000:]},
        )
    finally:
        signal.alarm(0)
        signal.signal(signal.SIGALRM, old)
    acc.current = None
    acc.notes = {k: v for k, v in acc.notes.items() if not k.startswith("_")}  # private scratch stays in the worker
    acc.extra["shard_wall_s_max"] = 0
    return idx, acc, time.time() - t0


def load_findings(pid):
    known, fixed = {}, []
    if os.path.exists(FINDINGS_FILE):
        with open(FINDINGS_FILE) as f:
            data = json.load(f)
        for e in data.get("findings", []):
            if e.get("property") != pid:
                continue
            if e.get("status") == "known":
                # one defect may show under several signature variants
                for sig in [e["sig"]] if "sig" in e else e["sigs"]:
                    known[sig] = e
            elif e.get("status") == "fixed":
                fixed.append(e)
    return known, fixed


def run(modname, tier, seed, jobs=None, replay_path=None, only=None):
    driver = importlib.import_module(modname)
    pid = driver.PID
    t0 = time.time()
    tmpbase = tempfile.mkdtemp(prefix=f"vf-{pid}-", dir="/dev/shm" if os.path.isdir("/dev/shm") else None)
    try:
        if replay_path:
            return _replay(driver, replay_path, tmpbase)
        return _explore(driver, modname, pid, tier, seed, jobs, tmpbase, t0, only)
    finally:
        shutil.rmtree(tmpbase, ignore_errors=True)


def _replay(driver, path, tmpbase):
    os.environ["TMPDIR"] = tmpbase
    tempfile.tempdir = tmpbase
    with open(path) as f:
        rec = json.load(f)
    if hasattr(driver, "worker_init"):
        driver.worker_init()
    fails = driver.replay(rec["case"])
    known, _ = load_findings(driver.PID)
    bad = [(s, d) for s, d in fails if s not in known]
    for s, d in fails:
        print(f"replay: {'KNOWN ' if s in known else ''}failure sig={s!r}")
        print("   detail:", json.dumps(jsonable(d))[:1500])
    if bad:
        print(f"VIOLATION property={driver.PID} replay={path}")
        return 1
    print("replay: case passes")
    return 0


def _explore(driver, modname, pid, tier, seed, jobs, tmpbase, t0, only):
    specs = driver.shards(tier, seed)
    if only:
        specs = [s for s in specs if only in json.dumps(s, default=str)]
    n = len(specs)
    order = list(range(n))
    if n:
        rot = seed % n
        order = order[rot:] + order[:rot]
    timeout = getattr(driver, "SHARD_TIMEOUT", {"quick": 600, "thorough": 3600})[tier]
    jobs = jobs or min(os.cpu_count() or 4, 16, max(1, n))
    total = Acc()
    ctx = mp.get_context("fork")
    slow = []
    if jobs == 1:
        _worker_init(modname, tmpbase)
        results = map(_run_one, [(i, specs[i], timeout) for i in order])
        for idx, acc, dt in results:
            total.merge(acc)
            slow.append((dt, idx))
    else:
        # import the library once in the parent so forked workers share it
        _worker_init(modname, tmpbase)
        # a driver whose shards leave garbage behind in the library's module-level registries asks for fresh workers
        per_child = getattr(driver, "MAX_TASKS_PER_CHILD", None)
        with ctx.Pool(jobs, initializer=_worker_init, initargs=(modname, tmpbase), maxtasksperchild=per_child) as pool:
            it = pool.imap_unordered(_run_one, [(i, specs[i], timeout) for i in order], chunksize=1)
            for _ in range(n):
                try:
                    # every shard is bounded by its own timeout: no result at all for longer than that means a worker was
                    # lost (killed from outside, out of memory) and its shard will never report
                    idx, acc, dt = it.next(timeout=timeout + 300)
                except mp.TimeoutError:
                    print(f"HARNESS-ERROR: property={pid} no shard reported for {timeout + 300}s: a worker process was lost; nothing is claimed by this run")
                    pool.terminate()
                    return 2
                total.merge(acc)
                slow.append((dt, idx))
    wall = time.time() - t0
    slow.sort(reverse=True)

    known, fixed = load_findings(pid)
    violations = []
    known_hit = []
    for sig in sorted(total.failures):
        rec = total.failures[sig]
        if sig in known:
            known_hit.append((sig, rec))
        else:
            violations.append((sig, rec))

    printed = set()
    for sig, rec in known_hit:
        e = known[sig]
        if id(e) in printed:
            continue
        printed.add(id(e))
        nfail = sum(r["count"] for s2, r in known_hit if known[s2] is e)
        print(f"KNOWN-FINDING: property={pid} {e.get('what', sig)} [{nfail} failing cases this run]")

    status = 0
    replay_paths = []
    if violations:
        os.makedirs(os.path.join(REPLAY_DIR, pid), exist_ok=True)
        os.environ["TMPDIR"] = tmpbase
        for sig, rec in violations:
            first = rec["cases"][0]
            sha = hashlib.sha1((sig + json.dumps(first["case"], sort_keys=True)).encode()).hexdigest()[:12]
            path = os.path.join(REPLAY_DIR, pid, f"{sha}.json")
            with open(path, "w") as f:
                json.dump(
                    {"property": pid, "driver": modname, "sig": sig, "case": first["case"], "detail": first["detail"],
                     "failing_cases_this_run": rec["count"], "tier": tier},
                    f, indent=1,
                )
            _write_replay_test(pid, sha, path)
            note = ""
            if not sig.startswith("harness:"):
                try:
                    again = [s for s, _ in driver.replay(first["case"])]
                except BaseException as e:  # noqa: BLE001
                    again = [f"<replay raised {type(e).__name__}: {e}>"]
                if sig not in again:
                    note = f"  (NONDETERMINISTIC? replay gave {again[:3]})"
            print(f"VIOLATION property={pid} replay={path}")
            print(f"   sig: {sig}  ({rec['count']} failing cases){note}")
            print("   case:", json.dumps(first["case"])[:600])
            print("   detail:", json.dumps(first["detail"])[:1200])
            replay_paths.append(path)
        status = 1

    level = driver.LEVEL
    distinct = total.nontrivial + len(total.keys)
    cov = {
        "evaluations": total.evaluations,
        "distinct_nontrivial": distinct,
        "rule": driver.RULE,
        "samples": total.samples[:MAX_SAMPLES],
        "exhaustive": bool(getattr(driver, "EXHAUSTIVE", True)) and not total.extra.get("caps_hit", 0),
        "distinct_observed_outcomes": len(total.outcomes),
        "shards": n,
        "bounds": driver.bounds(tier) if hasattr(driver, "bounds") else {},
        "counters": {k: v for k, v in sorted(total.extra.items()) if k != "shard_wall_s_max"},
        "notes": total.notes,
        "known_findings_reproduced": [s for s, _ in known_hit],
        "slowest_shard_s": round(slow[0][0], 2) if slow else 0,
    }
    if level == "model_checking":
        cov.update(
            {
                "states": total.states,
                "transitions": total.transitions,
                "traces_validated_against_impl": total.traces or total.transitions,
                "states_by_depth": {str(k): v for k, v in sorted(total.by_depth.items())},
            }
        )
    ev = {
        "property_id": pid,
        "tier": tier,
        "seed": seed,
        "level": level,
        "coverage": cov,
        "assumptions": list(getattr(driver, "ASSUMPTIONS", [])),
        "wall_s": round(wall, 2),
        "violations": len(violations),
    }
    # the evidence file describes a complete run on the repository's own tree: a run restricted with --only, or one whose
    # cogent3 comes from somewhere else (a scratch worktree with a seeded change), writes its record next to it instead
    import cogent3 as _c3

    partial = bool(only) or not os.path.realpath(_c3.__file__).startswith(os.path.realpath("/repo") + os.sep)
    out_dir = os.path.join(EVIDENCE_DIR, "partial") if partial else EVIDENCE_DIR
    os.makedirs(out_dir, exist_ok=True)
    tmp = os.path.join(out_dir, f".{pid}.{os.getpid()}.json.tmp")
    with open(tmp, "w") as f:
        json.dump(ev, f, indent=1, sort_keys=False)
    os.replace(tmp, os.path.join(out_dir, f"{pid}.json"))
    msg = (
        f"{pid} {tier}: shards={n} evaluations={total.evaluations} distinct_nontrivial={distinct} "
        f"outcomes={len(total.outcomes)}"
    )
    if level == "model_checking":
        msg += f" states={total.states} transitions={total.transitions}"
    msg += f" known={len(known_hit)} violations={len(violations)} wall={wall:.1f}s"
    print(msg)
    return status


def _write_replay_test(pid, sha, path):
    test = os.path.join(REPLAY_DIR, pid, f"{sha}_test.py")
    with open(test, "w") as f:
        f.write(
            f'''"""Plain unit test replaying one recorded counter-example without the explorer.
Run: PYTHONPATH={ROOT} /venv/bin/python -m pytest -q {test}"""
import json, sys
sys.path.insert(0, {ROOT!r})

def test_replay():
    import importlib
    rec = json.load(open({path!r}))
    drv = importlib.import_module(rec["driver"])
    if hasattr(drv, "worker_init"):
        drv.worker_init()
    fails = drv.replay(rec["case"])
    assert not fails, fails
'''
        )
