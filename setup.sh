#!/bin/bash
# Offline set-up: byte-compile the framework, import cogent3 once (warms numba's on-disk cache).
here="$(cd "$(dirname "${BASH_SOURCE[0]}")" && pwd)"
cd "$here"
/venv/bin/python -m compileall -q vf >/dev/null 2>&1 || true
mkdir -p evidence replays
DONT_USE_MPI=1 /venv/bin/python -W ignore -c "import cogent3, scipy.linalg; print('cogent3', cogent3.__version__)"
