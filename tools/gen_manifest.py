"""Regenerate /verif/MANIFEST.json from driver metadata. Run: /venv/bin/python tools/gen_manifest.py"""
import importlib, json, os, sys
ROOT = os.path.dirname(os.path.dirname(os.path.abspath(__file__)))
sys.path.insert(0, ROOT)
from vf.main import driver_modules

props = [json.loads(l) for l in open(os.path.join(ROOT, "properties.jsonl"))]
mods = driver_modules()
checks, na = [], []
PENDING = {}
pend_file = os.path.join(ROOT, "tools", "not_applicable.json")
if os.path.exists(pend_file):
    PENDING = json.load(open(pend_file))
for p in props:
    pid = p["id"]
    if pid in mods and pid not in PENDING:
        d = importlib.import_module(mods[pid])
        checks.append({
            "property_id": pid,
            "quick_cmd": f"./check {pid} --tier quick",
            "thorough_cmd": f"./check {pid} --tier thorough",
            "evidence_file": f"/verif/evidence/{pid}.json",
            "replay_cmd_template": f"./check {pid} --replay {{path}}",
            "engine": "vf",
            "level_claimed": {"category": d.LEVEL, "text": d.LEVEL_TEXT, "design_ref": f"DESIGN.md §2 {pid}"},
            "level_note": d.LEVEL_NOTE,
            "technique": d.TECHNIQUE,
        })
    else:
        na.append({"property_id": pid, "reason": PENDING.get(pid, "check not built yet (work in progress); see DESIGN.md §2 for the planned bounded exhaustive exploration")})
man = {
    "version": 1,
    "setup_cmd": "./setup.sh",
    "hooks": {
        "guard": "COGENT3_VERIF",
        "enable": "none needed: every seam is reached from outside the library (module attributes, audit hooks, injectable callables); ./check exports COGENT3_VERIF=1 for completeness",
        "baseline_off_cmd": "cd /repo && /venv/bin/python -m pytest -ra -q -p no:cacheprovider --timeout=900 --continue-on-collection-errors",
        "source_commits": [],
        "add_only": True,
    },
    "engines": [{
        "name": "vf", "path": "/verif/vf",
        "serves_properties": [c["property_id"] for c in checks],
        "kind_free_text": "hand-written explicit-state / bounded-exhaustive explorer running the real cogent3 code in lock-step with small python reference models (BFS over operation histories, exhaustive input enumeration, schedule and fault enumeration)",
    }],
    "checks": checks,
    "not_applicable": na,
    "notes": "All checks import cogent3 from /repo/src (editable install) so they run the current working tree. known_findings.json lists recorded and repaired defects; see DESIGN.md.",
}
json.dump(man, open(os.path.join(ROOT, "MANIFEST.json"), "w"), indent=1)
print("checks:", [c["property_id"] for c in checks], "not_applicable:", [n["property_id"] for n in na])
