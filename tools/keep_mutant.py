"""Copy an evaluated, confirmed seeded change into /verif/seeded/<name>/ with a meta.json.

usage: /venv/bin/python tools/keep_mutant.py <mutant_dir> <name> [--note TEXT]
Keeps only changes for which the demonstration passes without / fails with the change (eval.json: demo_ok).
"""
import json
import os
import shutil
import sys

src, name = os.path.abspath(sys.argv[1]), sys.argv[2]
note = sys.argv[sys.argv.index("--note") + 1] if "--note" in sys.argv else None
ev = json.load(open(os.path.join(src, "eval.json")))
if not ev.get("demo_ok"):
    print("NOT KEPT (demonstration not confirmed):", src)
    sys.exit(1)
if ev.get("tests_pass") is False and not ev.get("tests_note"):
    print("NOT KEPT (existing tests regress):", src)
    sys.exit(1)
dst = f"/verif/seeded/{name}"
os.makedirs(dst, exist_ok=True)
for f in ("patch.diff", "demo.py", "notes.md"):
    if os.path.exists(os.path.join(src, f)):
        shutil.copy(os.path.join(src, f), dst)
notes = open(os.path.join(src, "notes.md")).read() if os.path.exists(os.path.join(src, "notes.md")) else ""
meta_path = os.path.join(dst, "meta.json")
old = json.load(open(meta_path)) if os.path.exists(meta_path) else {}
meta = {
    "property": ev["property"],
    "kind": "independent seeded change (written by a sub-agent that saw only the property text and a scratch worktree)",
    "what_it_needs_to_manifest": old.get("what_it_needs_to_manifest") or next((l.strip() for l in notes.splitlines() if "need" in l.lower() or "trigger" in l.lower()), ""),
    "author_notes": notes[:3000],
    "confirmed_by_lead": {
        "demonstration": "demo.py exits 0 on the unmodified tree and non-zero with patch.diff applied (scratch worktree, PYTHONPATH override)",
        "demo_unpatched_rc": ev.get("demo_unpatched_rc"), "demo_patched_rc": ev.get("demo_patched_rc"),
        "existing_tests": ("pinned suite via tools/baseline.py in the patched worktree: no stable-pass regression" if ev.get("tests_pass") else
                           ev.get("tests_note") or "author ran the relevant test files (see notes); full-suite confirmation not run"),
    },
    "checks": {**old.get("checks", {}), **{f"{c} ({ev.get('tier', 'quick')})": {"caught": v["exit"] == 1 and v["violation"], "signatures": v["sigs"][:6], "n_signatures": v["n_sigs"], "wall_s": v["wall_s"]}
               for c, v in ev.get("checks", {}).items()}},
}
meta["caught"] = any(v["caught"] for v in meta["checks"].values())
if note:
    meta["note"] = note
json.dump(meta, open(meta_path, "w"), indent=1)
print("kept", name, "caught" if meta["caught"] else "MISSED")
