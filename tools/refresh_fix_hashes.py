"""Keep the commit hashes of 'fixed' entries in known_findings.json current (after a rebase of /repo).
Each fixed entry carries 'subject' = the fix commit's subject line; the hash is looked up from it."""
import json, subprocess, sys
p = "/verif/known_findings.json"
d = json.load(open(p))
log = subprocess.check_output(["git", "-C", "/repo", "log", "--format=%h\t%s"]).decode().splitlines()
by_hash = {l.split("\t")[0]: l.split("\t", 1)[1] for l in log}
by_subj = {v: k for k, v in by_hash.items()}
bad = 0
for e in d["findings"]:
    if e.get("status") != "fixed":
        continue
    subj = e.get("subject")
    if not subj:
        c = e["commit"]
        m = [h for h in by_hash if h.startswith(c[:7]) or c.startswith(h[:7])]
        if m:
            e["subject"] = subj = by_hash[m[0]]
    if subj and subj in by_subj:
        new = by_subj[subj]
        if new != e["commit"]:
            e["what"] = e["what"].replace(e["commit"], new) if e["commit"] else e["what"]
            e["commit"] = new
    else:
        bad += 1
        print("UNRESOLVED", e["property"], e["commit"], e["what"][:90])
json.dump(d, open(p, "w"), indent=1)
print("fixed entries:", sum(e.get("status") == "fixed" for e in d["findings"]), "unresolved:", bad)
