"""Run the repository's pinned test-suite (xdist) in a checkout and report every stable-pass test that did not pass.
usage: /venv/bin/python tools/baseline.py [repo_dir] [pytest-args...]   exit 0 iff no stable-pass test regressed"""
import json, os, subprocess, sys, tempfile
import xml.etree.ElementTree as ET

repo = sys.argv[1] if len(sys.argv) > 1 else "/repo"
extra = sys.argv[2:]
base = json.load(open("/root/.vp/BASELINE.json"))
stable = set(base["stable_pass"])
fd, xml = tempfile.mkstemp(suffix=".xml", dir="/dev/shm"); os.close(fd)
env = dict(os.environ, PYTHONPATH=os.path.join(repo, "src"))
env.pop("COGENT3_VERIF", None)
cmd = ["/venv/bin/python", "-m", "pytest", "-q", "-p", "no:cacheprovider", "--timeout=900", "--continue-on-collection-errors",
       "-n", "14", f"--junitxml={xml}", *extra]
r = subprocess.run(cmd, cwd=repo, env=env, capture_output=True, text=True)
print(r.stdout.strip().splitlines()[-1] if r.stdout.strip() else r.stderr[-500:])
passed = set()
for tc in ET.parse(xml).getroot().iter("testcase"):
    bad = any(ch.tag in ("failure", "error", "skipped") for ch in tc)
    if not bad:
        # parametrised ids may embed the checkout path: normalise a scratch worktree to /repo
        passed.add(f"{tc.get('classname')}::{tc.get('name')}".replace(os.path.realpath(repo), "/repo"))
os.unlink(xml)
if extra:
    # partial run: only judge tests that were collected
    ran = passed | set()
missing = sorted(stable - passed) if not extra else []
print(f"stable_pass={len(stable)} passed_now={len(passed)} regressed={len(missing)}")
for m in missing[:40]:
    print("  REGRESSED", m)
sys.exit(1 if missing else 0)
